// ---------------------------------------------------------------------------------------------
// vk: the thin layer every harness draws its nondeterministic values through.
//   under Kani                      -> kani::any / kani::assume
//   under --cfg killingspark_zstd_rs_verif (native replay) -> values popped from a recorded list
// so that the *same harness body* that Kani refuted can be re-run natively against the real code.
// ---------------------------------------------------------------------------------------------
#[allow(dead_code, unused_imports, unreachable_pub)]
pub mod vk {
    #[cfg(kani)]
    pub trait VAny: kani::Arbitrary {}
    #[cfg(kani)]
    impl<T: kani::Arbitrary> VAny for T {}

    #[cfg(kani)]
    #[inline(always)]
    pub fn any<T: VAny>() -> T {
        kani::any()
    }
    #[cfg(kani)]
    #[inline(always)]
    pub fn assume(c: bool) {
        kani::assume(c)
    }

    // ---------------- native replay ----------------
    #[cfg(not(kani))]
    extern crate std;
    #[cfg(not(kani))]
    use std::{cell::RefCell, collections::VecDeque, vec::Vec};

    #[cfg(not(kani))]
    std::thread_local! {
        static VALS: RefCell<VecDeque<Vec<u8>>> = RefCell::new(VecDeque::new());
    }

    #[cfg(not(kani))]
    pub fn load(vals: Vec<Vec<u8>>) {
        VALS.with(|v| *v.borrow_mut() = vals.into());
    }

    #[cfg(not(kani))]
    pub fn pop(n: usize) -> Vec<u8> {
        let v = VALS.with(|v| v.borrow_mut().pop_front());
        match v {
            Some(b) => {
                if b.len() != n {
                    std::eprintln!("REPLAY-MISMATCH: recorded value has {} bytes, harness wants {}", b.len(), n);
                    std::process::exit(3);
                }
                b
            }
            None => {
                std::eprintln!("REPLAY-EXHAUSTED: harness drew more values than were recorded");
                std::process::exit(3);
            }
        }
    }

    #[cfg(not(kani))]
    pub trait VAny: Sized {
        fn vany() -> Self;
    }
    #[cfg(not(kani))]
    macro_rules! prim {
        ($($t:ty),*) => {$(
            impl VAny for $t {
                fn vany() -> Self {
                    let b = pop(core::mem::size_of::<$t>());
                    let mut a = [0u8; core::mem::size_of::<$t>()];
                    a.copy_from_slice(&b);
                    <$t>::from_le_bytes(a)
                }
            }
        )*};
    }
    #[cfg(not(kani))]
    prim!(u8, u16, u32, u64, u128, usize, i8, i16, i32, i64, i128, isize);
    #[cfg(not(kani))]
    impl VAny for bool {
        fn vany() -> Self {
            pop(1)[0] & 1 == 1
        }
    }
    #[cfg(not(kani))]
    impl<T: VAny, const N: usize> VAny for [T; N] {
        fn vany() -> Self {
            core::array::from_fn(|_| T::vany())
        }
    }
    #[cfg(not(kani))]
    impl<A: VAny, B: VAny> VAny for (A, B) {
        fn vany() -> Self {
            let a = A::vany();
            let b = B::vany();
            (a, b)
        }
    }
    #[cfg(not(kani))]
    pub fn any<T: VAny>() -> T {
        T::vany()
    }
    #[cfg(not(kani))]
    pub fn assume(c: bool) {
        if !c {
            std::eprintln!("REPLAY-ASSUME-FALSE: recorded values violate a harness assumption");
            std::process::exit(3);
        }
    }
}
