// ---------------------------------------------------------------------------------------------
// RFC 8878 spec functions: sequence codes (3.1.1.3.2.1.1), repeat offsets (3.1.1.5).
// Transcribed from the RFC text, *not* from the crate's tables. Plain Rust, used by Kani harnesses
// and by the native replay shim. Self-consistency of these tables (each code's range ends where
// the next begins) is itself an obligation (unit S1, harness s1_spec_tables_tile).
// ---------------------------------------------------------------------------------------------
#[allow(dead_code, unreachable_pub)]
pub mod rfc {
    /// Literals_Length_Code -> (Baseline, Number_of_Bits), RFC 8878 Table 15
    pub const LL_TABLE: [(u32, u8); 36] = [
        (0, 0), (1, 0), (2, 0), (3, 0), (4, 0), (5, 0), (6, 0), (7, 0),
        (8, 0), (9, 0), (10, 0), (11, 0), (12, 0), (13, 0), (14, 0), (15, 0),
        (16, 1), (18, 1), (20, 1), (22, 1),
        (24, 2), (28, 2),
        (32, 3), (40, 3),
        (48, 4), (64, 6),
        (128, 7), (256, 8), (512, 9), (1024, 10), (2048, 11), (4096, 12),
        (8192, 13), (16384, 14), (32768, 15), (65536, 16),
    ];
    /// Match_Length_Code -> (Baseline, Number_of_Bits), RFC 8878 Table 16
    pub const ML_TABLE: [(u32, u8); 53] = [
        (3, 0), (4, 0), (5, 0), (6, 0), (7, 0), (8, 0), (9, 0), (10, 0),
        (11, 0), (12, 0), (13, 0), (14, 0), (15, 0), (16, 0), (17, 0), (18, 0),
        (19, 0), (20, 0), (21, 0), (22, 0), (23, 0), (24, 0), (25, 0), (26, 0),
        (27, 0), (28, 0), (29, 0), (30, 0), (31, 0), (32, 0), (33, 0), (34, 0),
        (35, 1), (37, 1), (39, 1), (41, 1),
        (43, 2), (47, 2),
        (51, 3), (59, 3),
        (67, 4), (83, 4),
        (99, 5), (131, 7),
        (259, 8), (515, 9), (1027, 10), (2051, 11),
        (4099, 12), (8195, 13), (16387, 14), (32771, 15), (65539, 16),
    ];
    pub const LL_MAX_VALUE: u32 = 131071; // 65536 + 2^16 - 1
    pub const ML_MAX_VALUE: u32 = 131074; // 65539 + 2^16 - 1

    /// RFC 8878 3.1.1.5 "Repeat Offsets". Returns (offset, new history). offset == 0 means "corrupted".
    /// `offset_value >= 1`. A history slot may hold 0 only if a hostile dictionary put it there; the
    /// rule "repeat offset 1 minus one byte" is then read as 0 (= corrupt) rather than wrapping.
    pub fn spec_offset_history(offset_value: u32, lit_len: u32, h: [u32; 3]) -> (u32, [u32; 3]) {
        if offset_value > 3 {
            let o = offset_value - 3;
            return (o, [o, h[0], h[1]]);
        }
        if lit_len != 0 {
            match offset_value {
                1 => (h[0], [h[0], h[1], h[2]]),
                2 => (h[1], [h[1], h[0], h[2]]),
                _ => (h[2], [h[2], h[0], h[1]]),
            }
        } else {
            match offset_value {
                1 => (h[1], [h[1], h[0], h[2]]),
                2 => (h[2], [h[2], h[0], h[1]]),
                _ => {
                    let o = if h[0] == 0 { 0 } else { h[0] - 1 };
                    (o, [o, h[0], h[1]])
                }
            }
        }
    }

    /// floor(log2(v)) for v >= 1, by definition (no intrinsics): the unique c with 2^c <= v < 2^(c+1)
    pub fn is_floor_log2(v: u32, c: u32) -> bool {
        c < 32 && (v >> c) == 1
    }
}
