// ---------------------------------------------------------------------------------------------
// RFC 8878 header layouts as spec functions: block header (3.1.1.2), literals section header
// (3.1.1.3.1.1), sequences section header (3.1.1.3.2.1), frame header (3.1.1.1).
// ---------------------------------------------------------------------------------------------
#[allow(dead_code, unreachable_pub)]
pub mod hdr {
    pub const BLOCK_MAX: u32 = 128 * 1024;

    #[derive(Clone, Copy, PartialEq, Eq, Debug)]
    pub enum SpecBlockType { Raw, Rle, Compressed, Reserved }

    #[derive(Clone, Copy, PartialEq, Eq, Debug)]
    pub struct SpecBlockHeader {
        pub last: bool,
        pub btype: SpecBlockType,
        /// the 21-bit Block_Size field
        pub size: u32,
    }

    /// RFC 3.1.1.2: 3 bytes little-endian; bit 0 Last_Block, bits 1-2 Block_Type, bits 3-23 Block_Size
    pub fn spec_block_header(b: [u8; 3]) -> SpecBlockHeader {
        let v = (b[0] as u32) | ((b[1] as u32) << 8) | ((b[2] as u32) << 16);
        SpecBlockHeader {
            last: v & 1 == 1,
            btype: match (v >> 1) & 3 { 0 => SpecBlockType::Raw, 1 => SpecBlockType::Rle, 2 => SpecBlockType::Compressed, _ => SpecBlockType::Reserved },
            size: v >> 3,
        }
    }

    // ---- sequences section header, 3.1.1.3.2.1 ----
    #[derive(Clone, Copy, PartialEq, Eq, Debug)]
    pub struct SpecSeqHeader {
        pub num: u32,
        /// index of the Symbol_Compression_Modes byte (None iff no sequences)
        pub modes_at: Option<usize>,
        pub consumed: usize,
    }
    /// `None` = not enough bytes. `b` is zero-padded beyond `len`.
    pub fn spec_seq_header(b: [u8; 4], len: usize) -> Option<SpecSeqHeader> {
        if len == 0 { return None; }
        let b0 = b[0] as u32;
        if b0 == 0 {
            return Some(SpecSeqHeader { num: 0, modes_at: None, consumed: 1 });
        }
        if b0 < 128 {
            if len < 2 { return None; }
            return Some(SpecSeqHeader { num: b0, modes_at: Some(1), consumed: 2 });
        }
        if b0 < 255 {
            if len < 2 { return None; }
            let n = ((b0 - 128) << 8) + b[1] as u32;
            if n == 0 {
                // two-byte encoding of "no sequences": the section ends here (same as the reference decoder)
                return Some(SpecSeqHeader { num: 0, modes_at: None, consumed: 2 });
            }
            if len < 3 { return None; }
            return Some(SpecSeqHeader { num: n, modes_at: Some(2), consumed: 3 });
        }
        if len < 4 { return None; }
        Some(SpecSeqHeader { num: b[1] as u32 + ((b[2] as u32) << 8) + 0x7F00, modes_at: Some(3), consumed: 4 })
    }

    // ---- literals section header, 3.1.1.3.1.1 ----
    #[derive(Clone, Copy, PartialEq, Eq, Debug)]
    pub enum SpecLitType { Raw, Rle, Compressed, Treeless }
    #[derive(Clone, Copy, PartialEq, Eq, Debug)]
    pub struct SpecLitHeader {
        pub ltype: SpecLitType,
        pub regenerated: u32,
        pub compressed: Option<u32>,
        pub streams: Option<u8>,
        pub header_len: usize,
    }
    /// `None` = not enough bytes. The header is read as one little-endian integer `v` of `header_len` bytes.
    pub fn spec_lit_header(b: [u8; 5], len: usize) -> Option<SpecLitHeader> {
        if len == 0 { return None; }
        let ltype = match b[0] & 3 { 0 => SpecLitType::Raw, 1 => SpecLitType::Rle, 2 => SpecLitType::Compressed, _ => SpecLitType::Treeless };
        let sf = (b[0] >> 2) & 3;
        let v: u64 = (b[0] as u64) | ((b[1] as u64) << 8) | ((b[2] as u64) << 16) | ((b[3] as u64) << 24) | ((b[4] as u64) << 32);
        match ltype {
            SpecLitType::Raw | SpecLitType::Rle => {
                // Size_Format uses 1 bit when it is 0b?0, 2 bits otherwise
                let (hl, regen) = match sf {
                    0 | 2 => (1usize, (v >> 3) & 0x1F),
                    1 => (2, (v >> 4) & 0xFFF),
                    _ => (3, (v >> 4) & 0xF_FFFF),
                };
                if len < hl { return None; }
                Some(SpecLitHeader { ltype, regenerated: regen as u32, compressed: None, streams: None, header_len: hl })
            }
            _ => {
                let (hl, bits, streams) = match sf { 0 => (3usize, 10u32, 1u8), 1 => (3, 10, 4), 2 => (4, 14, 4), _ => (5, 18, 4) };
                if len < hl { return None; }
                let mask = (1u64 << bits) - 1;
                let regen = (v >> 4) & mask;
                let comp = (v >> (4 + bits)) & mask;
                Some(SpecLitHeader { ltype, regenerated: regen as u32, compressed: Some(comp as u32), streams: Some(streams), header_len: hl })
            }
        }
    }

    // ---- frame header, 3.1.1.1 ----
    pub const MAGIC: u32 = 0xFD2F_B528;
    pub const WINDOW_MIN: u64 = 1024;
    pub const WINDOW_MAX: u64 = (1u64 << 41) + 7 * (1u64 << 38);

    #[derive(Clone, Copy, PartialEq, Eq, Debug)]
    pub enum SpecFrame {
        /// fewer bytes than the header needs
        Truncated,
        BadMagic(u32),
        Skippable { magic: u32, length: u32 },
        Header {
            descriptor: u8,
            single_segment: bool,
            checksum: bool,
            window_descriptor: Option<u8>,
            dict_id: Option<u32>,
            /// Frame_Content_Size field value (0 when the field is absent)
            fcs: u64,
            fcs_present: bool,
            consumed: usize,
        },
    }

    fn le(b: &[u8], at: usize, n: usize) -> u64 {
        let mut v = 0u64;
        let mut i = 0;
        while i < n { v |= (b[at + i] as u64) << (8 * i); i += 1; }
        v
    }

    /// `b` holds the first `len <= 18` bytes of the source (zero padded).
    pub fn spec_frame_header(b: [u8; 18], len: usize) -> SpecFrame {
        if len < 4 { return SpecFrame::Truncated; }
        let magic = le(&b, 0, 4) as u32;
        if magic >= 0x184D2A50 && magic <= 0x184D2A5F {
            if len < 8 { return SpecFrame::Truncated; }
            return SpecFrame::Skippable { magic, length: le(&b, 4, 4) as u32 };
        }
        if magic != MAGIC { return SpecFrame::BadMagic(magic); }
        if len < 5 { return SpecFrame::Truncated; }
        let d = b[4];
        let fcs_flag = d >> 6;
        let single = (d >> 5) & 1 == 1;
        let checksum = (d >> 2) & 1 == 1;
        let did_len = match d & 3 { 0 => 0usize, 1 => 1, 2 => 2, _ => 4 };
        let fcs_len = match fcs_flag { 0 => if single { 1usize } else { 0 }, 1 => 2, 2 => 4, _ => 8 };
        let mut at = 5usize;
        let mut wd = None;
        if !single {
            if len < at + 1 { return SpecFrame::Truncated; }
            wd = Some(b[at]);
            at += 1;
        }
        if len < at + did_len { return SpecFrame::Truncated; }
        let did = le(&b, at, did_len) as u32;
        at += did_len;
        if len < at + fcs_len { return SpecFrame::Truncated; }
        let mut fcs = le(&b, at, fcs_len);
        if fcs_len == 2 { fcs += 256; }
        at += fcs_len;
        SpecFrame::Header {
            descriptor: d, single_segment: single, checksum, window_descriptor: wd,
            dict_id: if did_len != 0 && did != 0 { Some(did) } else { None },
            fcs, fcs_present: fcs_len != 0, consumed: at,
        }
    }

    /// Window_Size from the Window_Descriptor byte (3.1.1.1.2)
    pub fn spec_window_from_descriptor(wd: u8) -> u64 {
        let exp = (wd >> 3) as u64;
        let mant = (wd & 7) as u64;
        let base = 1u64 << (10 + exp);
        base + (base / 8) * mant
    }
}
