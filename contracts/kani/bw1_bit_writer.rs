//@unit BW1 : BitWriter: the writer is a bit string (output bytes, then the pending bits, least significant bit first); write_bits appends exactly the num_bits low bits of the value, from ANY writer state; flush / dump / append_bytes / reset_to / change_bits keep every other bit; index and misaligned count bits
//@file ruzstd/src/bit_io/bit_writer.rs
//@module
#[cfg(any(kani, killingspark_zstd_rs_verif))]
#[allow(dead_code, unreachable_pub)]
pub(crate) mod verif_bw1 {
    use super::*;
    use crate::verif_spec::vk;

    /// an arbitrary writer state satisfying the representation invariant: K output bytes (arbitrary), 0..=63 pending bits,
    /// no stray bits above the pending ones
    pub(crate) fn any_writer<const K: usize>() -> BitWriter<Vec<u8>> {
        let bytes: [u8; K] = vk::any();
        let bip: usize = vk::any();
        vk::assume(bip < 64);
        let partial: u64 = vk::any();
        vk::assume(partial >> bip == 0);
        BitWriter { output: bytes.to_vec(), partial, bits_in_partial: bip, bit_idx: K * 8 }
    }
    pub(crate) fn wf(w: &BitWriter<Vec<u8>>) -> bool {
        w.bit_idx == w.output.len() * 8 && w.bits_in_partial < 64 && (w.partial >> w.bits_in_partial) == 0
    }
    /// bit i of the abstract bit string
    pub(crate) fn bit_at(w: &BitWriter<Vec<u8>>, i: usize) -> bool {
        if i < w.bit_idx { (w.output[i / 8] >> (i % 8)) & 1 == 1 } else { (w.partial >> (i - w.bit_idx)) & 1 == 1 }
    }
    /// snapshot of the abstract state (bit i for one arbitrary i, and the length)
    pub(crate) struct Snap { pub i: usize, pub bit: bool, pub len: usize }
    pub(crate) fn snap(w: &BitWriter<Vec<u8>>) -> Snap {
        let i: usize = vk::any();
        vk::assume(i < w.index());
        Snap { i, bit: bit_at(w, i), len: w.index() }
    }

    /// write_bits_64 from any state: appends exactly the n low bits, LSB first; everything before is untouched
    #[cfg_attr(kani, kani::proof)]
    #[cfg_attr(kani, kani::unwind(12))]
    #[cfg_attr(killingspark_zstd_rs_verif, no_mangle)]
    pub fn bw1_write_bits() {
        let mut w = any_writer::<2>();
        let old = snap(&w);
        let n: usize = vk::any();
        vk::assume(n <= 63);
        let bits: u64 = vk::any();
        vk::assume(bits >> n == 0);     // callers hand over values that fit (the writer ORs them in unmasked)
        w.write_bits_64(bits, n);
        assert!(wf(&w), "BW1: write_bits breaks the representation invariant");
        assert!(w.index() == old.len + n, "BW1: write_bits must advance the index by num_bits");
        assert!(bit_at(&w, old.i) == old.bit, "BW1: write_bits changed an earlier bit");
        let j: usize = vk::any();
        if j < n { assert!(bit_at(&w, old.len + j) == ((bits >> j) & 1 == 1), "BW1: appended bit j must be bit j of the value (LSB first)"); }
        core::mem::forget(w);
    }

    /// the generic front end converts and forwards
    #[cfg_attr(kani, kani::proof)]
    #[cfg_attr(kani, kani::unwind(20))]
    #[cfg_attr(killingspark_zstd_rs_verif, no_mangle)]
    pub fn bw1_write_bits_generic() {
        let mut a = any_writer::<1>();
        let mut b = BitWriter { output: a.output.clone(), partial: a.partial, bits_in_partial: a.bits_in_partial, bit_idx: a.bit_idx };
        let v: u32 = vk::any();
        let n: usize = vk::any();
        vk::assume(n <= 32 && (v as u64) >> n == 0);
        a.write_bits(v, n);
        b.write_bits_64(v as u64, n);
        assert!(a.output == b.output && a.partial == b.partial && a.bits_in_partial == b.bits_in_partial && a.bit_idx == b.bit_idx, "BW1: write_bits(v, n) == write_bits_64(v as u64, n)");
        core::mem::forget(a);
        core::mem::forget(b);
    }

    /// flush (byte-aligned pending bits): same bit string, nothing pending; then dump returns exactly the bytes
    #[cfg_attr(kani, kani::proof)]
    #[cfg_attr(kani, kani::unwind(12))]
    #[cfg_attr(killingspark_zstd_rs_verif, no_mangle)]
    pub fn bw1_flush_dump() {
        let mut w = any_writer::<2>();
        vk::assume(w.bits_in_partial % 8 == 0);
        let old = snap(&w);
        let mis = w.misaligned();
        assert!(mis == 0, "BW1: a byte-aligned writer is not misaligned");
        w.flush();
        assert!(wf(&w) && w.bits_in_partial == 0 && w.partial == 0 && w.index() == old.len, "BW1: flush moves all pending bytes to the output");
        assert!(bit_at(&w, old.i) == old.bit, "BW1: flush changed a bit");
        let out = w.dump();
        assert!(out.len() * 8 == old.len && ((out[old.i / 8] >> (old.i % 8)) & 1 == 1) == old.bit, "BW1: dump returns the bit string as bytes");
        core::mem::forget(out);
    }

    /// misaligned = number of bits missing to the next byte boundary
    #[cfg_attr(kani, kani::proof)]
    #[cfg_attr(killingspark_zstd_rs_verif, no_mangle)]
    pub fn bw1_misaligned() {
        let w = any_writer::<1>();
        let m = w.misaligned();
        assert!(m < 8 && (w.index() + m) % 8 == 0, "BW1: misaligned must be the distance to the next byte boundary");
        core::mem::forget(w);
    }

    /// append_bytes (aligned writer): the bytes follow the existing bit string
    #[cfg_attr(kani, kani::proof)]
    #[cfg_attr(kani, kani::unwind(12))]
    #[cfg_attr(killingspark_zstd_rs_verif, no_mangle)]
    pub fn bw1_append_bytes() {
        let mut w = any_writer::<2>();
        vk::assume(w.bits_in_partial % 8 == 0);
        let old = snap(&w);
        let data: [u8; 3] = vk::any();
        w.append_bytes(&data);
        assert!(wf(&w) && w.index() == old.len + 24, "BW1: append_bytes advances by 8 bits per byte");
        assert!(bit_at(&w, old.i) == old.bit, "BW1: append_bytes changed an earlier bit");
        let j: usize = vk::any();
        if j < 24 { assert!(bit_at(&w, old.len + j) == ((data[j / 8] >> (j % 8)) & 1 == 1), "BW1: appended bytes must follow the existing bits"); }
        core::mem::forget(w);
    }

    /// reset_to(index): truncates to index bits (index a multiple of 8, not beyond the flushed output)
    #[cfg_attr(kani, kani::proof)]
    #[cfg_attr(kani, kani::unwind(12))]
    #[cfg_attr(killingspark_zstd_rs_verif, no_mangle)]
    pub fn bw1_reset_to() {
        let mut w = any_writer::<3>();
        let idx: usize = vk::any();
        vk::assume(idx % 8 == 0 && idx <= 24);
        let i: usize = vk::any();
        vk::assume(i < idx);
        let b = bit_at(&w, i);
        w.reset_to(idx);
        assert!(wf(&w) && w.index() == idx && w.bits_in_partial == 0, "BW1: reset_to truncates the bit string");
        assert!(bit_at(&w, i) == b, "BW1: reset_to keeps the bits below the index");
        core::mem::forget(w);
    }

    /// change_bits_64: overwrites exactly bits [idx, idx + n) (idx byte-aligned or the change reaches the next byte boundary), keeps all others
    #[cfg_attr(kani, kani::proof)]
    #[cfg_attr(kani, kani::unwind(12))]
    #[cfg_attr(killingspark_zstd_rs_verif, no_mangle)]
    pub fn bw1_change_bits() {
        let mut w = any_writer::<5>();
        vk::assume(w.bits_in_partial % 8 == 0);
        let old = snap(&w);
        let idx: usize = vk::any();
        let n: usize = vk::any();
        vk::assume(n <= 32 && idx < 40);
        let bits: u64 = vk::any();
        vk::assume(bits >> n == 0);
        // the function's own asserts, as preconditions (every caller patches a field it reserved earlier)
        vk::assume(idx + n < old.len);
        vk::assume(idx % 8 == 0 || 8 - (idx % 8) <= n);
        w.change_bits_64(idx, bits, n);
        assert!(wf(&w) && w.index() == old.len, "BW1: change_bits keeps the length");
        if old.i < idx || old.i >= idx + n {
            assert!(bit_at(&w, old.i) == old.bit, "BW1: change_bits touched a bit outside [idx, idx + n)");
        } else {
            assert!(bit_at(&w, old.i) == ((bits >> (old.i - idx)) & 1 == 1), "BW1: change_bits must store bit j of the value at idx + j");
        }
        core::mem::forget(w);
    }

    #[cfg(kani)]
    #[kani::proof]
    #[kani::unwind(12)]
    fn bw1_canary() {
        let mut w = any_writer::<1>();
        let l0 = w.output.len();
        let bits: u64 = kani::any();
        kani::assume(bits >> 20 == 0);
        w.write_bits_64(bits, 20);
        // false: claims a 20-bit write never reaches the output vector
        assert!(w.output.len() == l0);
        core::mem::forget(w);
    }
}
//@end
//@harness bw1_write_bits kind=proof fn=BitWriter::write_bits_64,BitWriter::write_bits_64_cold,BitWriter::index props=C02,C12,C13,C14 tier=quick complete=yes witness=bw1_write_bits timeout=1500
//@harness bw1_write_bits_generic kind=proof fn=BitWriter::write_bits props=C02 tier=quick complete=yes witness=bw1_write_bits_generic timeout=900
//@harness bw1_flush_dump kind=proof fn=BitWriter::flush,BitWriter::dump,BitWriter::misaligned props=C02,C14 tier=quick complete=yes witness=bw1_flush_dump timeout=900
//@harness bw1_misaligned kind=proof fn=BitWriter::misaligned props=C02 tier=quick complete=yes witness=bw1_misaligned timeout=900
//@harness bw1_append_bytes kind=proof fn=BitWriter::append_bytes props=C02 tier=quick bound="3 appended bytes" witness=bw1_append_bytes timeout=900
//@harness bw1_reset_to kind=proof fn=BitWriter::reset_to props=C02,C14 tier=quick bound="3 output bytes" witness=bw1_reset_to timeout=900
//@harness bw1_change_bits kind=proof fn=BitWriter::change_bits_64 props=C02,C13 tier=quick bound="5 output bytes, fields of <= 32 bits" witness=bw1_change_bits timeout=1500
//@harness bw1_canary kind=canary props=C02 tier=quick timeout=900
//@assume bw1_*: the output vector holds 1..=5 arbitrary bytes (the operations only ever touch the pending word and the vector's tail, so the prefix length is immaterial; `complete` refers to every pending-word state, every value and every width 0..=63); widths of 64 are excluded (no caller uses them; with an empty pending word the cold path would shift by 64)
//@assume bw1_write_bits assumes the value fits in num_bits (the writer ORs the value in unmasked; the production callers' values fit by S1/F6/HU contracts)
