//@unit E4 : compress_fastest: one block in, one well-formed block out (header consistent with payload, RLE only for constant blocks, raw fallback never larger than 3 + block length, compressed payload strictly smaller), and the encoder never keeps a Huffman table the decoder did not receive
//@file ruzstd/src/huff0/huff0_encoder.rs
//@module
#[cfg(any(kani, killingspark_zstd_rs_verif))]
#[allow(dead_code, unreachable_pub)]
pub(crate) mod verif_e4h {
    use super::*;
    /// a table that only carries an identity tag (content irrelevant for compress_fastest)
    pub(crate) fn tagged(tag: u32) -> HuffmanTable {
        HuffmanTable { codes: alloc::vec![(tag, 1)] }
    }
    pub(crate) fn tag_of(t: &HuffmanTable) -> u32 {
        t.codes[0].0
    }
}
//@end
//@file ruzstd/src/encoding/levels/fastest.rs
//@module
#[cfg(any(kani, killingspark_zstd_rs_verif))]
#[allow(dead_code, unreachable_pub, static_mut_refs)]
pub(crate) mod verif_e4 {
    use super::*;
    use crate::encoding::frame_compressor::FseTables;
    use crate::encoding::{CompressionLevel, Sequence};
    use crate::fse::fse_encoder::verif_fse_dummy::dummy;
    use crate::huff0::huff0_encoder::verif_e4h::{tag_of, tagged};
    use crate::verif_spec::hdr::*;
    use crate::verif_spec::vk;

    pub(crate) struct TinyMatcher {
        pub last: Vec<u8>,
        pub commits: u32,
        pub skips: u32,
    }
    impl Matcher for TinyMatcher {
        fn get_next_space(&mut self) -> Vec<u8> { alloc::vec![0; 4] }
        fn get_last_space(&mut self) -> &[u8] { &self.last }
        fn commit_space(&mut self, space: Vec<u8>) { self.last = space; self.commits += 1; }
        fn skip_matching(&mut self) { self.skips += 1; }
        fn start_matching(&mut self, _h: impl for<'a> FnMut(Sequence<'a>)) {}
        fn reset(&mut self, _l: CompressionLevel) {}
        fn window_size(&self) -> u64 { 1024 }
    }

    // script for the compress_block contract stub
    pub(crate) static mut C_LEN: usize = 0;
    pub(crate) static mut C_BYTES: [u8; 6] = [0; 6];
    pub(crate) static mut C_NEW_TABLE: bool = false;
    pub(crate) static mut C_CALLS: u32 = 0;

    /// contract stub of compress_block: appends C_LEN arbitrary bytes; may install a new Huffman table (tag 2)
    pub(crate) fn stub_compress_block<M: Matcher>(state: &mut CompressState<M>, output: &mut Vec<u8>) {
        unsafe {
            C_CALLS += 1;
            output.extend_from_slice(&C_BYTES[..C_LEN]);
            if C_NEW_TABLE {
                state.last_huff_table = Some(tagged(2));
            }
        }
    }

    /// block length N and compressed stand-in length CL are concrete per harness (symbolic lengths exhaust CBMC's memory);
    /// contents, flags and table choices are symbolic
    pub(crate) fn e4_body<const N: usize, const CL: usize>() {
        let n = N;
        let bytes: [u8; N] = vk::any();
        let data = bytes.to_vec();
        let last: bool = vk::any();
        let had_table: bool = vk::any();
        unsafe {
            C_LEN = CL;
            C_BYTES = vk::any();
            C_NEW_TABLE = vk::any();
            C_CALLS = 0;
        }
        let mut state = CompressState {
            matcher: TinyMatcher { last: Vec::new(), commits: 0, skips: 0 },
            last_huff_table: if had_table { Some(tagged(1)) } else { None },
            fse_tables: FseTables { ll_default: dummy(), ll_previous: None, ml_default: dummy(), ml_previous: None, of_default: dummy(), of_previous: None },
        };
        let prefix: u8 = vk::any();
        let mut out = alloc::vec![prefix];
        compress_fastest(&mut state, last, data, &mut out);

        assert!(out.len() >= 4 && out[0] == prefix, "E4: output is appended to, at least a 3-byte block header");
        let h = spec_block_header([out[1], out[2], out[3]]);
        let payload = &out[4..];
        assert!(h.last == last, "E4: last-block flag");
        assert!(state.matcher.commits == 1 && state.matcher.last.len() == n, "E4: the block is committed to the matcher exactly once");
        let all_equal = bytes[..n].iter().all(|x| *x == bytes[0]);
        let clen = unsafe { C_LEN };
        if all_equal {
            assert!(h.btype == SpecBlockType::Rle && h.size as usize == n && payload.len() == 1 && payload[0] == bytes[0], "E4: a constant block becomes an RLE block of its length");
            assert!(unsafe { C_CALLS } == 0 && state.matcher.skips == 1, "E4: RLE blocks skip matching");
        } else if clen >= n {
            assert!(h.btype == SpecBlockType::Raw && h.size as usize == n && payload == &bytes[..n], "E4: if compression does not shrink the block it is stored raw, byte for byte");
        } else {
            assert!(h.btype == SpecBlockType::Compressed && h.size as usize == clen && payload == unsafe { &C_BYTES[..clen] }, "E4: compressed block header describes the payload");
            assert!(payload.len() < n, "E4: a compressed block is strictly smaller than the data it replaces");
        }
        assert!(h.btype != SpecBlockType::Rle || all_equal, "E4: RLE only if all bytes are equal");
        assert!(out.len() - 1 <= 3 + n, "E4 (C15): a block never costs more than raw framing (3 + length)");
        assert!(h.size <= BLOCK_MAX, "E4: block size field within 128 KiB");
        // ghost sync (C16 / F5): whatever table the encoder keeps, the decoder must have received it
        match &state.last_huff_table {
            None => {}
            Some(t) => {
                let tag = tag_of(t);
                if tag == 2 {
                    assert!(h.btype == SpecBlockType::Compressed, "E4: the encoder keeps a NEW Huffman table although the block that carried it was not emitted (raw/RLE fallback)");
                } else {
                    assert!(tag == 1 && had_table, "E4: unknown table");
                }
            }
        }
        core::mem::forget(state);
    }

    macro_rules! e4 {
        ($name:ident, $n:expr, $cl:expr) => {
            #[cfg(kani)]
            #[kani::proof]
            #[kani::unwind(8)]
            #[kani::stub(crate::encoding::blocks::compress_block, stub_compress_block)]
            fn $name() {
                e4_body::<$n, $cl>();
            }
        };
    }
    e4!(e4_block1_c0, 1, 0);
    e4!(e4_block1_c1, 1, 1);
    e4!(e4_block2_c1, 2, 1);
    e4!(e4_block2_c2, 2, 2);
    e4!(e4_block3_c2, 3, 2);
    e4!(e4_block3_c3, 3, 3);
    e4!(e4_block3_c4, 3, 4);

    #[cfg(kani)]
    #[kani::proof]
    #[kani::unwind(8)]
    #[kani::stub(crate::encoding::blocks::compress_block, stub_compress_block)]
    fn e4_canary() {
        let bytes: [u8; 3] = kani::any();
        unsafe { C_LEN = kani::any(); kani::assume(C_LEN <= 6); C_NEW_TABLE = false; }
        let mut state = CompressState {
            matcher: TinyMatcher { last: Vec::new(), commits: 0, skips: 0 },
            last_huff_table: None,
            fse_tables: FseTables { ll_default: dummy(), ll_previous: None, ml_default: dummy(), ml_previous: None, of_default: dummy(), of_previous: None },
        };
        let mut out = Vec::new();
        compress_fastest(&mut state, false, bytes.to_vec(), &mut out);
        // false: claims the block is never stored raw
        assert!(spec_block_header([out[0], out[1], out[2]]).btype != SpecBlockType::Raw);
        core::mem::forget(state);
    }
}
//@end
//@harness e4_block1_c0 kind=proof fn=compress_fastest props=C15,C16,C02 tier=quick bound="block length 1, compressed stand-in 0 bytes (contents symbolic; the decision logic is size-agnostic)" timeout=1500
//@harness e4_block1_c1 kind=proof fn=compress_fastest props=C15,C16,C02 tier=quick bound="block length 1, compressed stand-in 1 bytes (contents symbolic; the decision logic is size-agnostic)" timeout=1500
//@harness e4_block2_c1 kind=proof fn=compress_fastest props=C15,C16,C02 tier=quick bound="block length 2, compressed stand-in 1 bytes (contents symbolic; the decision logic is size-agnostic)" timeout=1500
//@harness e4_block2_c2 kind=proof fn=compress_fastest props=C15,C16,C02 tier=quick bound="block length 2, compressed stand-in 2 bytes (contents symbolic; the decision logic is size-agnostic)" timeout=1500
//@harness e4_block3_c2 kind=proof fn=compress_fastest props=C15,C16,C02 tier=quick bound="block length 3, compressed stand-in 2 bytes (contents symbolic; the decision logic is size-agnostic)" timeout=1500
//@harness e4_block3_c3 kind=proof fn=compress_fastest props=C15,C16,C02 tier=quick bound="block length 3, compressed stand-in 3 bytes (contents symbolic; the decision logic is size-agnostic)" timeout=1500
//@harness e4_block3_c4 kind=proof fn=compress_fastest props=C15,C16,C02 tier=quick bound="block length 3, compressed stand-in 4 bytes (contents symbolic; the decision logic is size-agnostic)" timeout=1500
//@harness e4_canary kind=canary props=C15 tier=quick timeout=2400
//@needs H6
//@assume compress_block is replaced by a contract stub in e4_* (appends arbitrary bytes, may install a new Huffman table); its own obligations are S1/H6/E6/F6
