//@unit H2 : read_frame_header equals RFC 8878 3.1.1.1 for every source prefix of <= 20 bytes and every length (it reads at most 18); window_size is Ok iff the declared window lies in the format's legal range
//@file ruzstd/src/decoding/frame.rs
//@module
#[cfg(any(kani, killingspark_zstd_rs_verif))]
#[allow(dead_code, unreachable_pub)]
pub(crate) mod verif_h2 {
    use super::*;
    use crate::verif_spec::hdr::*;
    use crate::verif_spec::vk;

    /// H2: whole input domain of the frame-header parser
    #[cfg_attr(kani, kani::proof)]
    #[cfg_attr(kani, kani::unwind(20))]
    #[cfg_attr(killingspark_zstd_rs_verif, no_mangle)]
    pub fn h2_read_frame_header() {
        let bytes: [u8; 20] = vk::any();
        let len: usize = vk::any();
        vk::assume(len <= 20);
        let mut src: &[u8] = &bytes[..len];
        let r = read_frame_header(&mut src);
        let mut b18 = [0u8; 18];
        let mut i = 0;
        while i < 18 { if i < len { b18[i] = bytes[i]; } i += 1; }
        let spec = spec_frame_header(b18, if len > 18 { 18 } else { len });
        match spec {
            SpecFrame::Truncated => {
                assert!(
                    matches!(r, Err(ReadFrameHeaderError::MagicNumberReadError(_)) | Err(ReadFrameHeaderError::FrameDescriptorReadError(_))
                        | Err(ReadFrameHeaderError::WindowDescriptorReadError(_)) | Err(ReadFrameHeaderError::DictionaryIdReadError(_))
                        | Err(ReadFrameHeaderError::FrameContentSizeReadError(_))),
                    "H2: a truncated frame header must be a read error, never Ok"
                );
            }
            SpecFrame::BadMagic(m) => {
                assert!(matches!(r, Err(ReadFrameHeaderError::BadMagicNumber(x)) if x == m), "H2: bad magic number must be reported");
                assert!(src.len() == len - 4, "H2: bad magic: exactly 4 bytes are taken");
            }
            SpecFrame::Skippable { magic, length } => {
                assert!(
                    matches!(r, Err(ReadFrameHeaderError::SkipFrame { magic_number, length: l }) if magic_number == magic && l == length),
                    "H2: skippable frame magic/length"
                );
                assert!(src.len() == len - 8, "H2: skippable frame header is exactly 8 bytes");
            }
            SpecFrame::Header { descriptor, single_segment, checksum, window_descriptor, dict_id, fcs, fcs_present: _, consumed } => {
                let (h, n) = match r { Ok(x) => x, Err(_) => { assert!(false, "H2: complete frame header rejected"); return; } };
                assert!(n as usize == consumed, "H2: reported frame header length");
                assert!(src.len() == len - consumed, "H2: bytes taken from the source == reported header length");
                assert!(h.descriptor.0 == descriptor, "H2: descriptor byte");
                assert!(h.descriptor.single_segment_flag() == single_segment, "H2: Single_Segment_Flag");
                assert!(h.descriptor.content_checksum_flag() == checksum, "H2: Content_Checksum_Flag");
                assert!(h.window_descriptor == window_descriptor.unwrap_or(0), "H2: Window_Descriptor");
                assert!(h.dictionary_id() == dict_id, "H2: Dictionary_ID (little-endian, 0 means none)");
                assert!(h.frame_content_size() == fcs, "H2: Frame_Content_Size (little-endian, +256 for the 2-byte field)");
            }
        }
    }

    /// H3: window_size() for all 256 window descriptors, both single-segment settings and any content size:
    /// Ok(w) iff MIN <= w <= MAX where w follows the RFC formula; single-segment => the content size
    #[cfg_attr(kani, kani::proof)]
    #[cfg_attr(killingspark_zstd_rs_verif, no_mangle)]
    pub fn h3_window_size() {
        let desc: u8 = vk::any();
        let wd: u8 = vk::any();
        let fcs: u64 = vk::any();
        let h = FrameHeader { descriptor: FrameDescriptor(desc), window_descriptor: wd, dict_id: None, frame_content_size: fcs };
        let r = h.window_size();
        if (desc >> 5) & 1 == 1 {
            assert!(matches!(r, Ok(w) if w == fcs), "H3: single-segment frames use Frame_Content_Size as window size");
        } else {
            let w = spec_window_from_descriptor(wd);
            if w < WINDOW_MIN {
                assert!(matches!(r, Err(FrameHeaderError::WindowTooSmall { got }) if got == w), "H3: window below 1 KiB must be rejected");
            } else if w > WINDOW_MAX {
                assert!(matches!(r, Err(FrameHeaderError::WindowTooBig { got }) if got == w), "H3: window above the format maximum must be rejected");
            } else {
                assert!(matches!(r, Ok(x) if x == w), "H3: every window size in the format's legal range (including the maximum, descriptor 0xFF) must be accepted with the RFC value");
            }
        }
    }

    #[cfg(kani)]
    #[kani::proof]
    #[kani::unwind(9)]
    fn h2_cover() {
        let bytes: [u8; 18] = kani::any();
        let len: usize = kani::any();
        kani::assume(len <= 18);
        let mut src: &[u8] = &bytes[..len];
        let r = read_frame_header(&mut src);
        kani::cover!(matches!(&r, Ok((h, 18)) if h.dictionary_id().is_some()));
        kani::cover!(matches!(&r, Ok((h, 6)) if !h.descriptor.single_segment_flag()));
        kani::cover!(matches!(&r, Ok((h, _)) if h.frame_content_size() == 256 + 0xFFFF));
        kani::cover!(matches!(r, Err(ReadFrameHeaderError::SkipFrame { .. })));
        kani::cover!(matches!(r, Err(ReadFrameHeaderError::FrameContentSizeReadError(_))));
    }

    /// canary: false claim that the dictionary id is big-endian
    #[cfg(kani)]
    #[kani::proof]
    #[kani::unwind(9)]
    fn h2_canary() {
        let bytes: [u8; 18] = kani::any();
        if let Ok((h, _)) = read_frame_header(&bytes[..]) {
            if bytes[4] & 3 == 2 && (bytes[4] >> 5) & 1 == 1 {
                assert!(h.dictionary_id().unwrap_or(0) == ((bytes[5] as u32) << 8) + bytes[6] as u32);
            }
        }
    }
}
//@end
//@harness h2_read_frame_header kind=proof fn=read_frame_header,FrameDescriptor::frame_content_size_bytes,FrameDescriptor::dictionary_id_bytes,FrameDescriptor::single_segment_flag,FrameDescriptor::content_checksum_flag,FrameHeader::dictionary_id,FrameHeader::frame_content_size props=C14,C01,C03,C10 tier=quick complete=yes witness=h2_read_frame_header timeout=1200
//@harness h3_window_size kind=proof fn=FrameHeader::window_size props=C14,C11,C01 tier=quick complete=yes witness=h3_window_size
//@harness h2_cover kind=cover props=C14 tier=quick
//@harness h2_canary kind=canary props=C14 tier=quick
