//@unit HU1 : HuffmanTable::build_table_from_weights / read_weights (direct form): rejection clauses and the canonical table of RFC 8878 4.2.1, on bounded weight vectors; direct weight descriptions (bounded)
//@file ruzstd/src/huff0/huff0_decoder.rs
//@module
#[cfg(any(kani, killingspark_zstd_rs_verif))]
#[allow(dead_code, unreachable_pub)]
pub(crate) mod verif_hu1 {
    use super::*;
    use crate::verif_spec::vk;

    pub(crate) const NW: usize = 3;

    /// HU1: every weight vector of length 1..=5 with weights in 0..=4 or (to exercise the rejection) above 11
    #[cfg_attr(kani, kani::proof)]
    #[cfg_attr(kani, kani::unwind(18))]
    #[cfg_attr(killingspark_zstd_rs_verif, no_mangle)]
    pub fn hu1_build_table_from_weights() {
        let n: usize = NW; // concrete length (symbolic Vec lengths exhaust CBMC's memory); shorter vectors = trailing zero weights
        let ws: [u8; NW] = vk::any();
        let mut i = 0;
        while i < NW { vk::assume(ws[i] <= 3 || ws[i] > 11); i += 1; }
        let mut t = HuffmanTable::new();
        t.weights.extend_from_slice(&ws[..n]);
        let r = t.build_table_from_weights();
        // ---- specification (RFC 4.2.1) ----
        let mut too_big = false;
        let mut sum: u32 = 0;
        i = 0;
        while i < n {
            if ws[i] > 11 { too_big = true; } else if ws[i] > 0 { sum += 1u32 << (ws[i] - 1); }
            i += 1;
        }
        if too_big {
            assert!(matches!(r, Err(HuffmanTableError::WeightBiggerThanMaxNumBits { .. })), "HU1: a weight above 11 must be rejected");
            core::mem::forget(r); core::mem::forget(t);
            return;
        }
        if sum == 0 {
            assert!(matches!(r, Err(HuffmanTableError::MissingWeights)), "HU1: all-zero weights must be rejected");
            core::mem::forget(r); core::mem::forget(t);
            return;
        }
        // smallest power of two strictly above sum; the implied last weight must complete the sum to it
        let mut mb: u8 = 0;
        while (1u32 << mb) <= sum { mb += 1; }
        let left = (1u32 << mb) - sum;
        if !left.is_power_of_two() {
            assert!(matches!(r, Err(HuffmanTableError::LeftoverIsNotAPowerOf2 { .. })), "HU1: weights that do not complete to a power of two must be rejected");
            core::mem::forget(r); core::mem::forget(t);
            return;
        }
        assert!(r.is_ok(), "HU1: a valid weight description must be accepted");
        let mut lw: u8 = 0;
        while (1u32 << lw) <= left { lw += 1; } // last weight = log2(left) + 1
        assert!(t.max_num_bits == mb && t.decode.len() == 1usize << mb, "HU1: table has 2^max_bits cells");
        // every cell: symbol s in 0..=n with weight w_s > 0 and num_bits == max_bits + 1 - w_s
        let c: usize = vk::any();
        vk::assume(c < t.decode.len());
        let e = t.decode[c];
        let s = e.symbol as usize;
        assert!(s <= n, "HU1: table symbol outside the alphabet");
        let w = if s == n { lw } else { ws[s] };
        assert!(w > 0 && e.num_bits == mb + 1 - w && e.num_bits >= 1 && e.num_bits <= mb, "HU1: number of bits of a cell must be max_bits + 1 - weight");
        // canonical order: cells sorted by decreasing number of bits, then by symbol; each symbol owns 2^(max_bits - bits) consecutive cells
        if c + 1 < t.decode.len() {
            let e2 = t.decode[c + 1];
            assert!(e2.num_bits < e.num_bits || (e2.num_bits == e.num_bits && e2.symbol >= e.symbol), "HU1: cells are ordered by decreasing bit count, then by symbol");
        }
        let mut cnt = 0usize;
        let mut k = 0;
        while k < t.decode.len() { if t.decode[k].symbol == e.symbol { cnt += 1; } k += 1; }
        assert!(cnt == 1usize << (mb - e.num_bits), "HU1: a symbol with b bits owns 2^(max_bits - b) cells");
        core::mem::forget(r);
        core::mem::forget(t);
    }

    /// HU1 depth limit: weight vectors at the boundary of the 11-bit limit. Explicit weights summing to exactly 2^11 imply a 12-bit
    /// table (the implied last weight doubles the sum) and must be rejected; a sum of 2^10 is the deepest acceptable shape.
    #[cfg_attr(kani, kani::proof)]
    #[cfg_attr(kani, kani::unwind(6))]
    #[cfg_attr(killingspark_zstd_rs_verif, no_mangle)]
    pub fn hu1_depth_limit() {
        let which: u8 = vk::any();
        vk::assume(which < 4);
        let mut t = HuffmanTable::new();
        match which {
            0 => t.weights.extend_from_slice(&[11, 11]),          // 1024 + 1024
            1 => t.weights.extend_from_slice(&[10, 10, 11]),      // 512 + 512 + 1024
            2 => t.weights.extend_from_slice(&[11, 10, 9, 9]),    // 1024 + 512 + 256 + 256
            _ => t.weights.extend_from_slice(&[12]),              // a single weight above the limit
        }
        let r = t.build_table_from_weights();
        if which == 3 {
            assert!(matches!(r, Err(HuffmanTableError::WeightBiggerThanMaxNumBits { .. })), "HU1: weight 12 must be rejected");
        } else {
            assert!(matches!(r, Err(HuffmanTableError::MaxBitsTooHigh { .. })), "HU1: a weight description implying a table deeper than 11 bits must be rejected");
        }
        core::mem::forget(r);
        core::mem::forget(t);
    }

    /// HU2: direct weight descriptions (header byte >= 128): all 128 headers, every source length
    #[cfg_attr(kani, kani::proof)]
    #[cfg_attr(kani, kani::unwind(12))]
    #[cfg_attr(killingspark_zstd_rs_verif, no_mangle)]
    pub fn hu2_read_weights_direct() {
        let header: u8 = vk::any();
        vk::assume(header >= 128 && header <= 136);
        let body: [u8; 6] = vk::any();
        let len: usize = vk::any();
        vk::assume(len <= 6);
        let mut src = [0u8; 7];
        src[0] = header;
        src[1..].copy_from_slice(&body);
        let mut t = HuffmanTable::new();
        let r = t.read_weights(&src[..1 + len]);
        let nw = (header - 127) as usize;
        let need = (nw + 1) / 2;
        if len < need {
            assert!(matches!(r, Err(HuffmanTableError::NotEnoughBytesInSource { .. })), "HU2: truncated direct weights must be rejected");
        } else {
            assert!(matches!(r, Ok(x) if x as usize == 1 + need), "HU2: direct weights consume 1 + ceil(n/2) bytes");
            assert!(t.weights.len() == nw, "HU2: number of weights is header - 127");
            let i: usize = vk::any();
            vk::assume(i < nw);
            let want = if i % 2 == 0 { body[i / 2] >> 4 } else { body[i / 2] & 0xF };
            assert!(t.weights[i] == want, "HU2: weights are the nibbles, high nibble first");
        }
        core::mem::forget(r);
        core::mem::forget(t);
    }

    #[cfg(kani)]
    #[kani::proof]
    #[kani::unwind(18)]
    fn hu1_canary() {
        let ws: [u8; 3] = kani::any();
        kani::assume(ws[0] <= 3 && ws[1] <= 3 && ws[2] <= 3);
        let mut t = HuffmanTable::new();
        t.weights.extend_from_slice(&ws);
        // false: claims every weight vector is accepted
        let r = t.build_table_from_weights();
        assert!(r.is_ok());
        core::mem::forget(r);
        core::mem::forget(t);
    }
}
//@end
//@harness hu1_build_table_from_weights kind=proof fn=HuffmanTable::build_table_from_weights props=C13,C01,C03 tier=quick bound="3 explicit weights, each <= 3 (or > 11 for the rejection clause): tables up to 16 cells" witness=hu1_build_table_from_weights timeout=2400
//@harness hu1_depth_limit kind=proof fn=HuffmanTable::build_table_from_weights props=C13,C03 tier=quick bound="four boundary weight vectors (explicit sum exactly 2^11; weight 12)" witness=hu1_depth_limit timeout=1800
//@harness hu2_read_weights_direct kind=proof fn=HuffmanTable::read_weights props=C13,C01,C03 tier=quick bound="direct weight descriptions with 1..=9 weights (headers 128..=136), every source length" witness=hu2_read_weights_direct timeout=2400
//@harness hu1_canary kind=canary props=C13 tier=quick timeout=2400
