//@unit R2 : RingBuffer (raw pointers) is a byte queue: every operation, started from an ARBITRARY state satisfying the invariant at a fixed capacity, yields the queue result, keeps the invariant and stays inside the live allocation
//@file ruzstd/src/decoding/ringbuffer.rs
//@module
#[cfg(any(kani, killingspark_zstd_rs_verif))]
#[allow(dead_code, unreachable_pub, unused_macros)]
pub(crate) mod verif_r2 {
    use super::*;
    use crate::verif_spec::vk;

    /// data invariant R0 (documented invariants 1, 3, 4)
    pub(crate) fn wf(rb: &RingBuffer) -> bool {
        (rb.cap == 0 && rb.head == 0 && rb.tail == 0) || (rb.head < rb.cap && rb.tail < rb.cap && rb.cap <= isize::MAX as usize)
    }
    pub(crate) fn qlen(rb: &RingBuffer) -> usize {
        if rb.tail >= rb.head { rb.tail - rb.head } else { rb.cap - rb.head + rb.tail }
    }
    pub(crate) fn head_of(rb: &RingBuffer) -> usize { rb.head }
    pub(crate) fn cap_of(rb: &RingBuffer) -> usize { rb.cap }
    /// i-th byte of the queue view (i < qlen)
    pub(crate) fn qget(rb: &RingBuffer, i: usize) -> u8 {
        unsafe { *rb.buf.as_ptr().add((rb.head + i) % rb.cap) }
    }

    /// an arbitrary ring buffer of capacity CAP satisfying the invariant: real allocation of exactly CAP bytes, arbitrary
    /// content, arbitrary head/tail. Returns it with a snapshot of the allocation's bytes.
    pub(crate) fn any_rb<const CAP: usize>() -> (RingBuffer, [u8; CAP]) {
        let mem: [u8; CAP] = vk::any();
        let layout = Layout::array::<u8>(CAP).unwrap();
        let p = unsafe { alloc(layout) };
        assert!(!p.is_null());
        unsafe { core::ptr::copy_nonoverlapping(mem.as_ptr(), p, CAP) };
        let head: usize = vk::any();
        let tail: usize = vk::any();
        vk::assume(head < CAP && tail < CAP);
        (RingBuffer { buf: NonNull::new(p).unwrap(), cap: CAP, head, tail }, mem)
    }
    /// i-th byte of the *old* view, from the snapshot
    pub(crate) fn old_get<const CAP: usize>(mem: &[u8; CAP], head: usize, i: usize) -> u8 {
        mem[(head + i) % CAP]
    }

    // ---------------------------------------------------------------- extend / extend_and_fill / extend_from_reader (no growth)
    pub(crate) fn op_extend<const CAP: usize, const DL: usize>() {
        let (mut rb, mem) = any_rb::<CAP>();
        let (h0, l0) = (rb.head, qlen(&rb));
        let data: [u8; DL] = vk::any();
        let n: usize = vk::any();
        vk::assume(n <= DL && n <= CAP - 1 - l0); // enough free space: capacity must not change
        let i: usize = vk::any();
        vk::assume(i < l0 + n);
        rb.extend(&data[..n]);
        assert!(rb.cap == CAP && rb.head == h0, "R2: extend must not move head or change capacity when space suffices");
        assert!(wf(&rb), "R2: extend breaks the position invariant");
        assert!(qlen(&rb) == l0 + n, "R2: extend: length must grow by data.len()");
        let want = if i < l0 { old_get(&mem, h0, i) } else { data[i - l0] };
        assert!(qget(&rb, i) == want, "R2: extend: view' != view ++ data");
    }
    pub(crate) fn op_fill<const CAP: usize>() {
        let (mut rb, mem) = any_rb::<CAP>();
        let (h0, l0) = (rb.head, qlen(&rb));
        let b: u8 = vk::any();
        let n: usize = vk::any();
        vk::assume(n <= CAP - 1 - l0);
        let i: usize = vk::any();
        vk::assume(i < l0 + n);
        rb.extend_and_fill(b, n);
        assert!(rb.cap == CAP && rb.head == h0 && wf(&rb), "R2: extend_and_fill: invariant / frame");
        assert!(qlen(&rb) == l0 + n, "R2: extend_and_fill: length must grow by fill_length");
        let want = if i < l0 { old_get(&mem, h0, i) } else { b };
        assert!(qget(&rb, i) == want, "R2: extend_and_fill: view' != view ++ [b; n]");
    }
    pub(crate) fn op_from_reader<const CAP: usize, const DL: usize>() {
        let (mut rb, mem) = any_rb::<CAP>();
        let (h0, t0, l0) = (rb.head, rb.tail, qlen(&rb));
        let data: [u8; DL] = vk::any();
        let avail: usize = vk::any(); // bytes the reader can deliver
        vk::assume(avail <= DL);
        let n: usize = vk::any();
        vk::assume(n <= DL && n <= CAP - 1 - l0);
        let i: usize = vk::any();
        let mut src: &[u8] = &data[..avail];
        let r = rb.extend_from_reader(&mut src, n);
        assert!(rb.cap == CAP && rb.head == h0 && wf(&rb), "R2: extend_from_reader: invariant / frame");
        if avail >= n {
            assert!(r.is_ok(), "R2: extend_from_reader must succeed when the reader has the bytes");
            assert!(qlen(&rb) == l0 + n, "R2: extend_from_reader: length must grow by fill_length");
            assert!(src.len() == avail - n, "R2: extend_from_reader must take exactly fill_length bytes from the reader");
            vk::assume(i < l0 + n);
            let want = if i < l0 { old_get(&mem, h0, i) } else { data[i - l0] };
            assert!(qget(&rb, i) == want, "R2: extend_from_reader: view' != view ++ bytes read");
        } else {
            assert!(r.is_err(), "R2: extend_from_reader must fail when the reader runs dry");
            assert!(rb.tail == t0, "R2: a failed read must leave the queue unchanged");
            vk::assume(i < l0);
            assert!(qget(&rb, i) == old_get(&mem, h0, i), "R2: a failed read must not disturb queued bytes");
        }
        core::mem::forget(r);
    }

    // ---------------------------------------------------------------- extend_from_within_unchecked (+ checked wrapper)
    pub(crate) fn op_within<const CAP: usize>() {
        let (mut rb, mem) = any_rb::<CAP>();
        let (h0, l0) = (rb.head, qlen(&rb));
        let start: usize = vk::any();
        let n: usize = vk::any();
        // the documented safety contract of the unsafe fn
        vk::assume(start <= l0 && n <= l0 - start && n <= CAP - 1 - l0);
        let i: usize = vk::any();
        vk::assume(i < l0 + n);
        unsafe { rb.extend_from_within_unchecked(start, n) };
        assert!(rb.cap == CAP && rb.head == h0 && wf(&rb), "R2: extend_from_within: invariant / frame");
        assert!(qlen(&rb) == l0 + n, "R2: extend_from_within: length must grow by len");
        let want = if i < l0 { old_get(&mem, h0, i) } else { old_get(&mem, h0, start + (i - l0)) };
        assert!(qget(&rb, i) == want, "R2: extend_from_within: view' != view ++ view[start..start+len]");
    }

    // ---------------------------------------------------------------- drop_first_n / clear / as_slices / get / push_back
    pub(crate) fn op_drop_slices<const CAP: usize>() {
        let (mut rb, mem) = any_rb::<CAP>();
        let (h0, l0) = (rb.head, qlen(&rb));
        // as_slices: concatenation is the view
        {
            let (s1, s2) = rb.as_slices();
            assert!(s1.len() + s2.len() == l0, "R2: as_slices lengths must add up to len");
            let i: usize = vk::any();
            vk::assume(i < l0);
            let got = if i < s1.len() { s1[i] } else { s2[i - s1.len()] };
            assert!(got == old_get(&mem, h0, i), "R2: as_slices().0 ++ as_slices().1 != view");
            assert!(rb.len() == l0, "R2: len() != |view|");
            assert!(rb.free() == CAP - 1 - l0, "R2: free() != cap - 1 - |view|");
            assert!(rb.get(i) == Some(got), "R2: get(i) != view[i]");
            assert!(rb.get(l0).is_none(), "R2: get(len) must be None");
        }
        let n: usize = vk::any();
        vk::assume(n <= l0); // callers (the drain guard) never drop more than len; more is clamped, see R1
        let j: usize = vk::any();
        vk::assume(j < l0 - n);
        rb.drop_first_n(n);
        assert!(rb.cap == CAP && wf(&rb), "R2: drop_first_n: invariant");
        assert!(qlen(&rb) == l0 - n, "R2: drop_first_n: exactly n bytes must leave");
        assert!(qget(&rb, j) == old_get(&mem, h0, n + j), "R2: drop_first_n: view' != view[n..]");
        if vk::any() {
            rb.clear();
            assert!(rb.cap == CAP && wf(&rb) && qlen(&rb) == 0 && rb.len() == 0, "R2: clear must leave an empty queue of the same capacity");
        }
    }
    pub(crate) fn op_push_back<const CAP: usize>() {
        let (mut rb, mem) = any_rb::<CAP>();
        let (h0, l0) = (rb.head, qlen(&rb));
        vk::assume(l0 + 1 <= CAP - 1);
        let b: u8 = vk::any();
        let i: usize = vk::any();
        vk::assume(i <= l0);
        rb.push_back(b);
        assert!(rb.cap == CAP && rb.head == h0 && wf(&rb) && qlen(&rb) == l0 + 1, "R2: push_back: invariant / length");
        let want = if i < l0 { old_get(&mem, h0, i) } else { b };
        assert!(qget(&rb, i) == want, "R2: push_back: view' != view ++ [b]");
    }

    // ---------------------------------------------------------------- growth: reserve / reserve_amortized
    /// from an arbitrary wf state at capacity CAP (or the never-allocated state), reserve(amount) for amount <= AMAX:
    /// afterwards free >= amount, the view is unchanged (moved and linearised on growth), the new capacity is 2^k + 1 and the
    /// old block was released (CBMC checks the dealloc is of a live block of that layout; a later use would be a use-after-free).
    pub(crate) fn op_reserve<const CAP: usize, const AMAX: usize>() {
        let (mut rb, mem) = any_rb::<CAP>();
        let (h0, l0) = (rb.head, qlen(&rb));
        let amount: usize = vk::any();
        vk::assume(amount <= AMAX);
        let i: usize = vk::any();
        vk::assume(i < l0);
        rb.reserve(amount);
        assert!(wf(&rb), "R2: reserve breaks the invariant");
        assert!(qlen(&rb) == l0, "R2: reserve must not change the length");
        assert!(rb.free() >= amount, "R2: reserve(amount) must leave at least amount free bytes");
        assert!(qget(&rb, i) == old_get(&mem, h0, i), "R2: reserve must preserve the queued bytes");
        if CAP - 1 - l0 >= amount {
            assert!(rb.cap == CAP && rb.head == h0, "R2: reserve must not reallocate when space suffices");
        } else {
            assert!(rb.cap > CAP && (rb.cap - 1).is_power_of_two() && rb.head == 0, "R2: growth: capacity is 2^k + 1, data linearised");
        }
    }
    pub(crate) fn op_reserve_fresh<const AMAX: usize>() {
        let mut rb = RingBuffer::new();
        assert!(wf(&rb) && rb.len() == 0 && rb.free() == 0, "R2: new() is the empty never-allocated queue");
        let amount: usize = vk::any();
        vk::assume(amount <= AMAX);
        rb.reserve(amount);
        assert!(wf(&rb) && qlen(&rb) == 0 && rb.free() >= amount, "R2: reserve on a fresh buffer");
        if amount > 0 {
            assert!((rb.cap - 1).is_power_of_two(), "R2: capacities produced by reserve are 2^k + 1");
        } else {
            assert!(rb.cap == 0, "R2: reserve(0) on a fresh buffer must not allocate");
        }
    }

    macro_rules! harness {
        ($name:ident, $body:expr) => {
            #[cfg_attr(kani, kani::proof)]
            #[cfg_attr(kani, kani::unwind(40))]
            #[cfg_attr(killingspark_zstd_rs_verif, no_mangle)]
            pub fn $name() {
                $body
            }
        };
    }
    harness!(r2_extend_5, op_extend::<5, 4>());
    harness!(r2_extend_17, op_extend::<17, 16>());
    harness!(r2_fill_5, op_fill::<5>());
    harness!(r2_fill_17, op_fill::<17>());
    harness!(r2_reader_9, op_from_reader::<9, 8>());
    harness!(r2_reader_17, op_from_reader::<17, 16>());
    harness!(r2_within_3, op_within::<3>());
    harness!(r2_within_5, op_within::<5>());
    harness!(r2_within_9, op_within::<9>());
    harness!(r2_within_17, op_within::<17>());
    harness!(r2_within_33, op_within::<33>());
    harness!(r2_drop_slices_5, op_drop_slices::<5>());
    harness!(r2_drop_slices_17, op_drop_slices::<17>());
    harness!(r2_push_back_5, op_push_back::<5>());
    harness!(r2_reserve_5, op_reserve::<5, 12>());
    harness!(r2_reserve_9, op_reserve::<9, 8>());
    harness!(r2_reserve_fresh, op_reserve_fresh::<40>());

    /// Drop releases the block exactly once (CBMC: deallocation of a live object of the right size; no double free)
    #[cfg(kani)]
    #[kani::proof]
    fn r2_drop() {
        let (rb, _mem) = any_rb::<9>();
        drop(rb);
        let rb2 = RingBuffer::new();
        drop(rb2); // cap == 0: nothing to free
    }

    #[cfg(kani)]
    #[kani::proof]
    #[kani::unwind(40)]
    fn r2_cover() {
        let (mut rb, _mem) = any_rb::<17>();
        let l0 = qlen(&rb);
        let start: usize = kani::any();
        let n: usize = kani::any();
        kani::assume(start <= l0 && n <= l0 - start && n <= 16 - l0);
        let (h0, t0) = (rb.head, rb.tail);
        unsafe { rb.extend_from_within_unchecked(start, n) };
        kani::cover!(h0 < t0 && t0 + n > 17, "contiguous source, destination wraps");
        kani::cover!(h0 > t0 && h0 + start > 17, "source entirely in the wrapped part");
        kani::cover!(h0 > t0 && h0 + start < 17 && h0 + start + n > 17, "source wraps");
        kani::cover!(n == 8 && l0 == 8, "half full, copy everything");
        kani::cover!(n == 0);
    }

    /// canary: false claim that extend_from_within copies from the *end* of the view
    #[cfg(kani)]
    #[kani::proof]
    #[kani::unwind(40)]
    fn r2_canary() {
        let (mut rb, mem) = any_rb::<5>();
        let (h0, l0) = (rb.head, qlen(&rb));
        let start: usize = kani::any();
        let n: usize = kani::any();
        kani::assume(start <= l0 && n <= l0 - start && n <= 4 - l0 && n > 0);
        unsafe { rb.extend_from_within_unchecked(start, n) };
        assert!(qget(&rb, l0) == old_get(&mem, h0, l0 - 1));
    }
}
//@end
//@harness r2_extend_5 kind=proof fn=RingBuffer::extend,RingBuffer::free_slice_parts props=C04,C03 tier=quick bound="capacity 5, data <= 4 bytes" witness=r2_extend_5
//@harness r2_extend_17 kind=proof fn=RingBuffer::extend,RingBuffer::free_slice_parts props=C04,C03,C01 tier=quick bound="capacity 17, data <= 16 bytes" witness=r2_extend_17 timeout=1800
//@harness r2_fill_5 kind=proof fn=RingBuffer::extend_and_fill props=C04 tier=quick bound="capacity 5" witness=r2_fill_5
//@harness r2_fill_17 kind=proof fn=RingBuffer::extend_and_fill props=C04,C01 tier=quick bound="capacity 17" witness=r2_fill_17 timeout=1800
//@harness r2_reader_9 kind=proof fn=RingBuffer::extend_from_reader props=C04,C10 tier=quick bound="capacity 9, reader <= 8 bytes" witness=r2_reader_9 timeout=1800
//@harness r2_reader_17 kind=proof fn=RingBuffer::extend_from_reader props=C04 tier=thorough bound="capacity 17, reader <= 16 bytes" witness=r2_reader_17 timeout=3600
//@harness r2_within_3 kind=proof fn=RingBuffer::extend_from_within_unchecked,copy_bytes_overshooting props=C04,C03 tier=quick bound="capacity 3" witness=r2_within_3
//@harness r2_within_5 kind=proof fn=RingBuffer::extend_from_within_unchecked,copy_bytes_overshooting props=C04,C03 tier=quick bound="capacity 5" witness=r2_within_5
//@harness r2_within_9 kind=proof fn=RingBuffer::extend_from_within_unchecked,copy_bytes_overshooting props=C04,C03 tier=quick bound="capacity 9" witness=r2_within_9
//@harness r2_within_17 kind=proof fn=RingBuffer::extend_from_within_unchecked,copy_bytes_overshooting props=C04,C03,C01 tier=quick bound="capacity 17" witness=r2_within_17 timeout=1800
//@harness r2_within_33 kind=proof fn=RingBuffer::extend_from_within_unchecked,copy_bytes_overshooting props=C04 tier=thorough bound="capacity 33 (16-byte wide-copy path)" witness=r2_within_33 timeout=3600 heavy=yes
//@harness r2_drop_slices_5 kind=proof fn=RingBuffer::as_slices,RingBuffer::data_slice_parts,RingBuffer::drop_first_n,RingBuffer::clear,RingBuffer::len,RingBuffer::free,RingBuffer::get props=C04,C06 tier=quick bound="capacity 5" witness=r2_drop_slices_5
//@harness r2_drop_slices_17 kind=proof fn=RingBuffer::as_slices,RingBuffer::data_slice_parts,RingBuffer::drop_first_n,RingBuffer::clear,RingBuffer::len,RingBuffer::free,RingBuffer::get props=C04,C06 tier=quick bound="capacity 17" witness=r2_drop_slices_17
//@harness r2_push_back_5 kind=proof fn=RingBuffer::push_back props=C04 tier=quick bound="capacity 5" witness=r2_push_back_5
//@harness r2_reserve_5 kind=proof fn=RingBuffer::reserve,RingBuffer::reserve_amortized props=C04,C03 tier=quick bound="capacity 5, amount <= 12" witness=r2_reserve_5 timeout=1800
//@harness r2_reserve_9 kind=proof fn=RingBuffer::reserve,RingBuffer::reserve_amortized props=C04 tier=thorough bound="capacity 9, amount <= 8" witness=r2_reserve_9 timeout=3600
//@harness r2_reserve_fresh kind=proof fn=RingBuffer::new,RingBuffer::reserve,RingBuffer::reserve_amortized props=C04,C07 tier=quick bound="never-allocated buffer, amount <= 40" witness=r2_reserve_fresh timeout=1800
//@harness r2_drop kind=proof fn=RingBuffer::drop props=C04 tier=quick bound="capacity 9 and the never-allocated buffer"
//@harness r2_cover kind=cover props=C04 tier=quick
//@harness r2_canary kind=canary props=C04 tier=quick
//@assume x86_64/sse2 configuration of copy_bytes_overshooting (16-byte chunks); the usize-chunk configuration is not explored
//@assume the global allocator returns a block of the requested layout (Kani's allocation model)
