//@unit E6 : compress_block, literals call site: compress_literals (which builds a Huffman table) is reached only with more than 1024 literals of at least two distinct byte values - a Huffman code needs two symbols, HuffmanTable::build_from_data -> distribute_weights asserts it (defect F8); all other literals are written raw
//@needs H6 E4
//@file ruzstd/src/encoding/blocks/compressed.rs
//@module
#[cfg(any(kani, killingspark_zstd_rs_verif))]
#[allow(dead_code, unreachable_pub, static_mut_refs)]
pub(crate) mod verif_e6 {
    use super::*;
    use crate::encoding::frame_compressor::FseTables;
    use crate::encoding::CompressionLevel;
    use crate::fse::fse_encoder::verif_fse_dummy::dummy;

    pub(crate) static mut L_CALLS: u32 = 0;   // compress_literals calls
    pub(crate) static mut R_CALLS: u32 = 0;   // raw_literals calls
    pub(crate) static mut R_LEN: usize = 0;

    /// a matcher that reports its whole block as one literal run
    pub(crate) struct LitMatcher { pub data: Vec<u8> }
    impl Matcher for LitMatcher {
        fn get_next_space(&mut self) -> Vec<u8> { Vec::new() }
        fn get_last_space(&mut self) -> &[u8] { &self.data }
        fn commit_space(&mut self, space: Vec<u8>) { self.data = space; }
        fn skip_matching(&mut self) {}
        fn start_matching(&mut self, mut h: impl for<'a> FnMut(Sequence<'a>)) { h(Sequence::Literals { literals: &self.data }); }
        fn reset(&mut self, _l: CompressionLevel) {}
        fn window_size(&self) -> u64 { 1 << 17 }
    }

    /// contract stub of compress_literals: asserts the precondition unit E8 (Verus) proves it under
    pub(crate) fn stub_compress_literals(literals: &[u8], _last: Option<&huff0_encoder::HuffmanTable>, _w: &mut BitWriter<&mut Vec<u8>>) -> Option<huff0_encoder::HuffmanTable> {
        unsafe { L_CALLS += 1; }
        assert!(literals.len() > 1024, "E6: Huffman-compressed literals only above 1024 bytes");
        let mut two = false;
        let mut i = 1;
        while i < literals.len() { if literals[i] != literals[0] { two = true; } i += 1; }
        assert!(two, "E6/F8: compress_literals needs at least two distinct byte values (a Huffman code needs two symbols)");
        None
    }
    pub(crate) fn stub_raw_literals(literals: &[u8], _w: &mut BitWriter<&mut Vec<u8>>) {
        unsafe { R_CALLS += 1; R_LEN = literals.len(); }
    }

    pub(crate) fn body<const N: usize>(all_same: bool) {
        let mut data = alloc::vec![7u8; N];
        if !all_same { data[N - 1] = 9; }
        unsafe { L_CALLS = 0; R_CALLS = 0; }
        let mut state = CompressState {
            matcher: LitMatcher { data },
            last_huff_table: None,
            fse_tables: FseTables { ll_default: dummy(), ll_previous: None, ml_default: dummy(), ml_previous: None, of_default: dummy(), of_previous: None },
        };
        let mut out = Vec::new();
        compress_block(&mut state, &mut out);
        unsafe {
            assert!(L_CALLS + R_CALLS == 1, "E6: the literals section is written exactly once");
            if all_same || N <= 1024 { assert!(R_CALLS == 1 && R_LEN == N, "E6: single-valued or short literals are written raw"); }
            else { assert!(L_CALLS == 1, "E6: long literals with two distinct values go to the Huffman path"); }
        }
        core::mem::forget(state);
    }
    macro_rules! e6 {
        ($name:ident, $n:expr, $same:expr) => {
            #[cfg(kani)]
            #[kani::proof]
            #[kani::unwind(1030)]
            #[kani::stub(super::compress_literals, stub_compress_literals)]
            #[kani::stub(super::raw_literals, stub_raw_literals)]
            fn $name() { body::<$n>($same); }
        };
    }
    e6!(e6_literals_1025_single_value, 1025, true);
}
//@end
//@harness e6_literals_1025_single_value kind=proof fn=compress_block props=C16,C13 tier=thorough bound="CONCRETE: 1025 literals of one byte value (the F8 regression input), no sequences; compress_literals / raw_literals are contract stubs" timeout=3000 heavy=yes
//@assume in e6_* compress_literals (contract: Verus E8) and raw_literals are contract stubs; the matcher is a scripted one reporting a single literal run; bounded executions on concrete data, not proofs
//@assume NOT RUN: the two-value variants (1025 and 1024 literals) exhaust CBMC's memory (also without reachability checks) and are not registered; the registered single-value run takes ~6 min (thorough tier)
