//@unit E6 : compress_block, literals call site: compress_literals (which builds a Huffman table) is reached only with more than 1024 literals of at least two distinct byte values - a Huffman code needs two symbols, HuffmanTable::build_from_data -> distribute_weights asserts it (defect F8); all other literals are written raw
//@needs H6 E4
//@file ruzstd/src/encoding/blocks/compressed.rs
//@module
#[cfg(any(kani, killingspark_zstd_rs_verif))]
#[allow(dead_code, unreachable_pub, static_mut_refs, trivial_casts, private_interfaces)]
pub(crate) mod verif_e6 {
    use super::*;
    use crate::encoding::frame_compressor::FseTables;
    use crate::encoding::CompressionLevel;
    use crate::fse::fse_encoder::verif_fse_dummy::dummy;
    use crate::encoding::Sequence;

    pub(crate) static mut L_CALLS: u32 = 0;   // compress_literals calls
    pub(crate) static mut R_CALLS: u32 = 0;   // raw_literals calls
    pub(crate) static mut R_LEN: usize = 0;

    /// a matcher that reports its whole block as one literal run
    pub(crate) struct LitMatcher { pub data: Vec<u8> }
    impl Matcher for LitMatcher {
        fn get_next_space(&mut self) -> Vec<u8> { Vec::new() }
        fn get_last_space(&mut self) -> &[u8] { &self.data }
        fn commit_space(&mut self, space: Vec<u8>) { self.data = space; }
        fn skip_matching(&mut self) {}
        fn start_matching(&mut self, mut h: impl for<'a> FnMut(Sequence<'a>)) { h(Sequence::Literals { literals: &self.data }); }
        fn reset(&mut self, _l: CompressionLevel) {}
        fn window_size(&self) -> u64 { 1 << 17 }
    }

    /// contract stub of compress_literals: asserts the precondition unit E8 (Verus) proves it under
    pub(crate) fn stub_compress_literals(literals: &[u8], _last: Option<&huff0_encoder::HuffmanTable>, _w: &mut BitWriter<&mut Vec<u8>>) -> Option<huff0_encoder::HuffmanTable> {
        unsafe { L_CALLS += 1; }
        assert!(literals.len() > 1024, "E6: Huffman-compressed literals only above 1024 bytes");
        let mut two = false;
        let mut i = 1;
        while i < literals.len() { if literals[i] != literals[0] { two = true; } i += 1; }
        assert!(two, "E6/F8: compress_literals needs at least two distinct byte values (a Huffman code needs two symbols)");
        None
    }
    pub(crate) fn stub_raw_literals(literals: &[u8], _w: &mut BitWriter<&mut Vec<u8>>) {
        unsafe { R_CALLS += 1; R_LEN = literals.len(); }
    }

    pub(crate) fn body<const N: usize>(all_same: bool) {
        let mut data = alloc::vec![7u8; N];
        if !all_same { data[N - 1] = 9; }
        unsafe { L_CALLS = 0; R_CALLS = 0; }
        let mut state = CompressState {
            matcher: LitMatcher { data },
            last_huff_table: None,
            fse_tables: FseTables { ll_default: dummy(), ll_previous: None, ml_default: dummy(), ml_previous: None, of_default: dummy(), of_previous: None },
        };
        let mut out = Vec::new();
        compress_block(&mut state, &mut out);
        unsafe {
            assert!(L_CALLS + R_CALLS == 1, "E6: the literals section is written exactly once");
            if all_same || N <= 1024 { assert!(R_CALLS == 1 && R_LEN == N, "E6: single-valued or short literals are written raw"); }
            else { assert!(L_CALLS == 1, "E6: long literals with two distinct values go to the Huffman path"); }
        }
        core::mem::forget(state);
    }
    // ---- sequences part of compress_block: what its callees are handed (all callees are contract stubs) ----
    pub(crate) static mut CT_N: usize = 0;
    pub(crate) static mut CT_TABLE: [usize; 3] = [0; 3];   // address of the default table passed (identifies the code type)
    pub(crate) static mut CT_MAXLOG: [u8; 3] = [0; 3];
    pub(crate) static mut T_ADDR: [usize; 3] = [0; 3];     // set by the harness: addresses of the ll / ml / of default tables
    pub(crate) static mut ET_N: usize = 0;
    pub(crate) static mut ET_ORDER: [usize; 3] = [0; 3];   // encode_table calls: which table, in which order
    pub(crate) static mut ES_TABLES: [usize; 3] = [0; 3];  // tables handed to encode_sequences (ll, ml, of parameter positions)
    pub(crate) static mut ES_CALLS: u32 = 0;
    pub(crate) static mut ES_NSEQ: usize = 0;
    pub(crate) static mut ES_SEQ0: (u32, u32, u32) = (0, 0, 0);

    /// contract stub of choose_table: records the maximum accuracy log it is asked to respect for which code type
    pub(crate) fn stub_choose_table<'a>(_previous: Option<&'a FSETable>, default_table: &'a FSETable, _data: impl Iterator<Item = u8>, max_log: u8) -> FseTableMode<'a> {
        unsafe {
            assert!(CT_N < 3, "E6: one table choice per code type");
            CT_TABLE[CT_N] = default_table as *const FSETable as usize;
            CT_MAXLOG[CT_N] = max_log;
            CT_N += 1;
            // give the match-length table a different mode so that argument mix-ups show in the modes byte
            if default_table as *const FSETable as usize == T_ADDR[1] { return FseTableMode::RepeateLast(default_table); }
        }
        FseTableMode::Predefined(default_table)
    }
    /// contract stub of encode_table: records the order in which the table descriptions are written
    pub(crate) fn stub_encode_table(mode: &FseTableMode<'_>, _w: &mut BitWriter<&mut Vec<u8>>) {
        unsafe {
            assert!(ET_N < 3);
            ET_ORDER[ET_N] = mode.as_ref() as *const FSETable as usize;
            ET_N += 1;
        }
    }
    pub(crate) fn stub_encode_sequences(sequences: &[crate::blocks::sequence_section::Sequence], _w: &mut BitWriter<&mut Vec<u8>>, _ll: &FSETable, _ml: &FSETable, _of: &FSETable) {
        unsafe {
            ES_CALLS += 1;
            ES_NSEQ = sequences.len();
            ES_SEQ0 = (sequences[0].ll, sequences[0].ml, sequences[0].of);
            ES_TABLES = [_ll as *const FSETable as usize, _ml as *const FSETable as usize, _of as *const FSETable as usize];
        }
    }

    /// a matcher reporting: 2 literals + a match (offset, length symbolic), then 1 trailing literal
    pub(crate) struct SeqMatcher { pub data: Vec<u8>, pub offset: usize, pub match_len: usize }
    impl Matcher for SeqMatcher {
        fn get_next_space(&mut self) -> Vec<u8> { Vec::new() }
        fn get_last_space(&mut self) -> &[u8] { &self.data }
        fn commit_space(&mut self, space: Vec<u8>) { self.data = space; }
        fn skip_matching(&mut self) {}
        fn start_matching(&mut self, mut h: impl for<'a> FnMut(Sequence<'a>)) {
            h(Sequence::Triple { literals: &self.data[0..2], offset: self.offset, match_len: self.match_len });
            h(Sequence::Literals { literals: &self.data[2..3] });
        }
        fn reset(&mut self, _l: CompressionLevel) {}
        fn window_size(&self) -> u64 { 1 << 17 }
    }

    /// RFC 8878 3.1.1.3.2.1.1: maximum accuracy logs of the three sequence code tables (literal lengths 9, match lengths 9, offsets 8);
    /// a table built with a larger log is rejected by every decoder. Also: the sequence handed on is the matcher's, with the encoder's
    /// +3 offset convention (offset values 1..=3 are the repeat codes)
    #[cfg(kani)]
    #[kani::proof]
    #[kani::unwind(30)]
    #[kani::stub(super::compress_literals, stub_compress_literals)]
    #[kani::stub(super::raw_literals, stub_raw_literals)]
    #[kani::stub(super::choose_table, stub_choose_table)]
    #[kani::stub(super::encode_sequences, stub_encode_sequences)]
    #[kani::stub(super::encode_table, stub_encode_table)]
    fn e6_sequences_call_sites() {
        let offset: usize = kani::any();
        let match_len: usize = kani::any();
        kani::assume(offset >= 1 && offset <= 1 << 17 && match_len >= 3 && match_len <= 1 << 17);
        unsafe { L_CALLS = 0; R_CALLS = 0; CT_N = 0; ES_CALLS = 0; }
        let mut state = CompressState {
            matcher: SeqMatcher { data: alloc::vec![1u8, 2, 3], offset, match_len },
            last_huff_table: None,
            fse_tables: FseTables { ll_default: dummy(), ll_previous: None, ml_default: dummy(), ml_previous: None, of_default: dummy(), of_previous: None },
        };
        let (ll_t, ml_t, of_t) = (&state.fse_tables.ll_default as *const FSETable as usize, &state.fse_tables.ml_default as *const FSETable as usize, &state.fse_tables.of_default as *const FSETable as usize);
        unsafe { T_ADDR = [ll_t, ml_t, of_t]; ET_N = 0; }
        let mut out = Vec::new();
        compress_block(&mut state, &mut out);
        unsafe {
            // RFC 8878 3.1.1.3.2.1: Symbol_Compression_Modes = LL mode << 6 | OF mode << 4 | ML mode << 2 (here: LL, OF predefined = 0, ML repeat = 3)
            assert!(out.len() >= 2 && out[0] == 1 && out[1] == 3 << 2, "E6: sequence count 1, then the modes byte with each table's mode in its own bit field");
            // ... followed by the table descriptions in the order literal lengths, offsets, match lengths
            assert!(ET_N == 3 && ET_ORDER == [ll_t, of_t, ml_t], "E6: table descriptions are written in the order LL, OF, ML");
            assert!(ES_TABLES == [ll_t, ml_t, of_t], "E6: the sequence writer gets each table in its own parameter");
            assert!(R_CALLS == 1 && R_LEN == 3 && L_CALLS == 0, "E6: the three literal bytes are written once, raw (short literals)");
            assert!(CT_N == 3 && ES_CALLS == 1 && ES_NSEQ == 1, "E6: one table per code type, one sequence handed to the sequence writer");
            let mut i = 0;
            while i < 3 {
                if CT_TABLE[i] == ll_t { assert!(CT_MAXLOG[i] <= 9, "E6: literal-length table: accuracy log at most 9"); }
                else if CT_TABLE[i] == ml_t { assert!(CT_MAXLOG[i] <= 9, "E6: match-length table: accuracy log at most 9"); }
                else if CT_TABLE[i] == of_t { assert!(CT_MAXLOG[i] <= 8, "E6: offset table: accuracy log at most 8 (RFC 8878: Max_Accuracy_Log for offsets)"); }
                else { assert!(false, "E6: unknown default table"); }
                assert!(CT_MAXLOG[i] >= 5, "E6: accuracy logs below 5 cannot be described");
                i += 1;
            }
            assert!(CT_TABLE[0] != CT_TABLE[1] && CT_TABLE[1] != CT_TABLE[2] && CT_TABLE[0] != CT_TABLE[2], "E6: each code type gets its own table");
            assert!(ES_SEQ0 == (2, match_len as u32, (offset + 3) as u32), "E6: the sequence written is the matcher's (literal run 2, its match length, offset + 3)");
        }
        core::mem::forget(state);
    }

    macro_rules! e6 {
        ($name:ident, $n:expr, $same:expr) => {
            #[cfg(kani)]
            #[kani::proof]
            #[kani::unwind(1030)]
            #[kani::stub(super::compress_literals, stub_compress_literals)]
            #[kani::stub(super::raw_literals, stub_raw_literals)]
            fn $name() { body::<$n>($same); }
        };
    }
    e6!(e6_literals_1025_single_value, 1025, true);
}
//@end
//@harness e6_literals_1025_single_value kind=proof fn=compress_block props=C16,C13 tier=thorough bound="CONCRETE: 1025 literals of one byte value (the F8 regression input), no sequences; compress_literals / raw_literals are contract stubs" timeout=3000 heavy=yes
//@assume in e6_* compress_literals (contract: Verus E8) and raw_literals are contract stubs; the matcher is a scripted one reporting a single literal run; bounded executions on concrete data, not proofs
//@assume NOT RUN: the two-value variants (1025 and 1024 literals) exhaust CBMC's memory (also without reachability checks) and are not registered; the registered single-value run takes ~6 min (thorough tier)
//@harness e6_sequences_call_sites kind=proof fn=compress_block props=C02,C16,C12 tier=quick bound="one scripted sequence (2 literals, symbolic offset 1..=128 KiB and match length 3..=128 KiB, 1 trailing literal); every callee of compress_block is a contract stub" timeout=1500
