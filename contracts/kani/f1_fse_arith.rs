//@unit F1 : FSE decoder arithmetic equals RFC 8878 4.1.1 for every table size, probability and state number (complete), the states of a symbol tile the table, and the three predefined tables equal RFC Appendix A
//@file ruzstd/src/fse/fse_decoder.rs
//@module
#[cfg(any(kani, killingspark_zstd_rs_verif))]
#[allow(dead_code, unreachable_pub)]
pub(crate) mod verif_f1 {
    use super::*;
    use crate::verif_spec::fse_tables::*;
    use crate::verif_spec::vk;

    /// F1: calc_baseline_and_numbits == RFC formula; range and tiling. al in 5..=9 (sequences) - the Huffman-weight tables use 5..=6.
    #[cfg_attr(kani, kani::proof)]
    #[cfg_attr(kani, kani::unwind(12))]
    #[cfg_attr(killingspark_zstd_rs_verif, no_mangle)]
    pub fn f1_calc_baseline() {
        let al: u8 = vk::any();
        vk::assume(al >= 5 && al <= 9);
        let t: u32 = 1 << al;
        let p: u32 = vk::any();
        let k: u32 = vk::any();
        vk::assume(p >= 1 && p <= t && k < p);
        let (bl, nb) = calc_baseline_and_numbits(t, p, k);
        assert!((bl, nb) == spec_state(t, p, k), "F1: baseline / number of bits differ from RFC 4.1.1");
        assert!(nb <= al, "F1: a state never reads more bits than the accuracy log");
        assert!(bl as u64 + (1u64 << nb) <= t as u64, "F1: baseline + 2^bits must stay inside the table");
        // tiling: state k ends where state k+1 begins (cyclically) => the p states partition [0, t)
        let k2 = if k + 1 == p { 0 } else { k + 1 };
        let (bl2, _nb2) = calc_baseline_and_numbits(t, p, k2);
        assert!((bl + (1u32 << nb)) % t == bl2, "F1: consecutive states of a symbol must tile the table");
    }

    /// F1: the position step and highest_bit_set
    #[cfg_attr(kani, kani::proof)]
    #[cfg_attr(killingspark_zstd_rs_verif, no_mangle)]
    pub fn f1_next_position_highest_bit() {
        let al: u8 = vk::any();
        vk::assume(al >= 5 && al <= 9);
        let t: usize = 1 << al;
        let p: usize = vk::any();
        vk::assume(p < t);
        let n = next_position(p, t);
        assert!(n == (p + t / 2 + t / 8 + 3) % t, "F1: spread step must be (p + T/2 + T/8 + 3) mod T");
        assert!(((t / 2 + t / 8 + 3) & 1) == 1, "F1: the step is odd (so the walk is a full cycle)");
        let x: u32 = vk::any();
        vk::assume(x > 0);
        let h = highest_bit_set(x);
        assert!(h >= 1 && h <= 32 && (x >> (h - 1)) == 1, "F1: highest_bit_set is the 1-based index of the top set bit");
    }

    fn table_is(t: &FSETable, want: &[(u8, u8, u32)]) -> bool {
        if t.decode.len() != want.len() {
            return false;
        }
        let mut i = 0;
        while i < want.len() {
            let e = t.decode[i];
            if (e.symbol, e.num_bits, e.base_line) != want[i] {
                return false;
            }
            i += 1;
        }
        true
    }

    /// F2c: the predefined tables, built by the real code from the real constants, equal RFC Appendix A (inputs are constants =>
    /// CBMC evaluates concretely; complete for these three tables)
    #[cfg_attr(kani, kani::proof)]
    #[cfg_attr(kani, kani::unwind(70))]
    #[cfg_attr(killingspark_zstd_rs_verif, no_mangle)]
    pub fn f2c_predefined_ll() {
        let mut t = FSETable::new(35);
        assert!(t.build_from_probabilities(6, &LL_DIST).is_ok());
        assert!(t.accuracy_log == 6 && table_is(&t, &LL_TABLE), "F2c: predefined literal-length table differs from RFC Appendix A");
        core::mem::forget(t);
    }
    #[cfg_attr(kani, kani::proof)]
    #[cfg_attr(kani, kani::unwind(70))]
    #[cfg_attr(killingspark_zstd_rs_verif, no_mangle)]
    pub fn f2c_predefined_ml() {
        let mut t = FSETable::new(52);
        assert!(t.build_from_probabilities(6, &ML_DIST).is_ok());
        assert!(t.accuracy_log == 6 && table_is(&t, &ML_TABLE), "F2c: predefined match-length table differs from RFC Appendix A");
        core::mem::forget(t);
    }
    #[cfg_attr(kani, kani::proof)]
    #[cfg_attr(kani, kani::unwind(70))]
    #[cfg_attr(killingspark_zstd_rs_verif, no_mangle)]
    pub fn f2c_predefined_of() {
        let mut t = FSETable::new(31);
        assert!(t.build_from_probabilities(5, &OF_DIST).is_ok());
        assert!(t.accuracy_log == 5 && table_is(&t, &OF_TABLE), "F2c: predefined offset table differs from RFC Appendix A");
        core::mem::forget(t);
    }

    #[cfg(kani)]
    #[kani::proof]
    #[kani::unwind(12)]
    fn f1_canary() {
        let p: u32 = kani::any();
        let k: u32 = kani::any();
        kani::assume(p >= 1 && p <= 64 && k < p);
        let (_bl, nb) = calc_baseline_and_numbits(64, p, k);
        // false: claims every state of every symbol reads the same number of bits
        let (_b0, nb0) = calc_baseline_and_numbits(64, p, 0);
        assert!(nb == nb0);
    }
}
//@end
//@file ruzstd/src/decoding/sequence_section_decoder.rs
//@module
#[cfg(any(kani, killingspark_zstd_rs_verif))]
#[allow(dead_code, unreachable_pub)]
pub(crate) mod verif_f2c {
    use super::*;
    use crate::verif_spec::fse_tables::*;
    /// the distributions and accuracy logs the decoder actually uses for Predefined mode are the RFC's
    #[cfg_attr(kani, kani::proof)]
    #[cfg_attr(kani, kani::unwind(220))]
    #[cfg_attr(killingspark_zstd_rs_verif, no_mangle)]
    pub fn f2c_default_distributions() {
        assert!(LITERALS_LENGTH_DEFAULT_DISTRIBUTION == LL_DIST && LL_DEFAULT_ACC_LOG == 6, "F2c: default literal-length distribution / accuracy log");
        assert!(MATCH_LENGTH_DEFAULT_DISTRIBUTION == ML_DIST && ML_DEFAULT_ACC_LOG == 6, "F2c: default match-length distribution / accuracy log");
        assert!(OFFSET_DEFAULT_DISTRIBUTION == OF_DIST && OF_DEFAULT_ACC_LOG == 5, "F2c: default offset distribution / accuracy log");
        assert!(LL_MAX_LOG == 9 && ML_MAX_LOG == 9 && OF_MAX_LOG == 8, "F2c: maximum accuracy logs");
    }
}
//@end
//@harness f1_calc_baseline kind=proof fn=calc_baseline_and_numbits props=C12,C01,C03 tier=quick complete=yes witness=f1_calc_baseline
//@harness f1_next_position_highest_bit kind=proof fn=next_position,highest_bit_set props=C12,C03 tier=quick complete=yes witness=f1_next_position_highest_bit
//@harness f2c_predefined_ll kind=proof fn=FSETable::build_from_probabilities,FSETable::build_decoding_table props=C12,C01 tier=quick complete=yes witness=f2c_predefined_ll timeout=1800
//@harness f2c_predefined_ml kind=proof fn=FSETable::build_from_probabilities,FSETable::build_decoding_table props=C12,C01 tier=quick complete=yes witness=f2c_predefined_ml timeout=1800
//@harness f2c_predefined_of kind=proof fn=FSETable::build_from_probabilities,FSETable::build_decoding_table props=C12,C01 tier=quick complete=yes witness=f2c_predefined_of timeout=1800
//@harness f2c_default_distributions kind=proof fn=const:LITERALS_LENGTH_DEFAULT_DISTRIBUTION,const:MATCH_LENGTH_DEFAULT_DISTRIBUTION,const:OFFSET_DEFAULT_DISTRIBUTION props=C12,C01 tier=quick complete=yes witness=f2c_default_distributions
//@harness f1_canary kind=canary props=C12 tier=quick
