//@unit S1 : literal-length / match-length / offset code tables equal RFC 8878 tables 15/16 over the whole value range; encoder and decoder maps are mutual inverses
//@file ruzstd/src/decoding/sequence_section_decoder.rs
//@attrs fn=lookup_ll_code
#[cfg_attr(kani, kani::requires(code <= 35))]
#[cfg_attr(kani, kani::ensures(|r: &(u32, u8)| *r == crate::verif_spec::rfc::LL_TABLE[code as usize]))]
//@end
//@attrs fn=lookup_ml_code
#[cfg_attr(kani, kani::requires(code <= 52))]
#[cfg_attr(kani, kani::ensures(|r: &(u32, u8)| *r == crate::verif_spec::rfc::ML_TABLE[code as usize]))]
//@end
//@module
#[cfg(any(kani, killingspark_zstd_rs_verif))]
#[allow(dead_code, unreachable_pub)]
pub(crate) mod verif_s1d {
    use super::{lookup_ll_code, lookup_ml_code};
    use crate::verif_spec::rfc::*;
    use crate::verif_spec::vk;

    // re-exports for the inverse-pair lemma that lives next to the encoder
    pub(crate) fn ll(code: u8) -> (u32, u8) {
        lookup_ll_code(code)
    }
    pub(crate) fn ml(code: u8) -> (u32, u8) {
        lookup_ml_code(code)
    }

    #[cfg(kani)]
    #[kani::proof_for_contract(lookup_ll_code)]
    fn s1_ll_decode_contract() {
        lookup_ll_code(kani::any());
    }
    #[cfg(kani)]
    #[kani::proof_for_contract(lookup_ml_code)]
    fn s1_ml_decode_contract() {
        lookup_ml_code(kani::any());
    }

    #[cfg_attr(kani, kani::proof)]
    #[cfg_attr(killingspark_zstd_rs_verif, no_mangle)]
    pub fn s1_decode_witness() {
        let which: bool = vk::any();
        let code: u8 = vk::any();
        if which {
            vk::assume(code <= 35);
            assert!(lookup_ll_code(code) == LL_TABLE[code as usize], "S1: literal-length code table differs from RFC table 15");
        } else {
            vk::assume(code <= 52);
            assert!(lookup_ml_code(code) == ML_TABLE[code as usize], "S1: match-length code table differs from RFC table 16");
        }
    }

    /// the spec tables themselves are self-consistent: code c covers [base, base + 2^bits) and the next code starts right there;
    /// the last code ends at the maximum value (131071 / 131074). Guards the transcription in contracts/spec.
    #[cfg(kani)]
    #[kani::proof]
    fn s1_spec_tables_tile() {
        let c: usize = kani::any();
        kani::assume(c < 35);
        assert!(LL_TABLE[c].0 + (1u32 << LL_TABLE[c].1) == LL_TABLE[c + 1].0);
        assert!(LL_TABLE[35].0 + (1u32 << LL_TABLE[35].1) - 1 == LL_MAX_VALUE);
        let m: usize = kani::any();
        kani::assume(m < 52);
        assert!(ML_TABLE[m].0 + (1u32 << ML_TABLE[m].1) == ML_TABLE[m + 1].0);
        assert!(ML_TABLE[52].0 + (1u32 << ML_TABLE[52].1) - 1 == ML_MAX_VALUE);
        assert!(LL_TABLE[0].0 == 0 && ML_TABLE[0].0 == 3);
    }

    #[cfg(kani)]
    #[kani::proof]
    fn s1_decode_canary() {
        let code: u8 = kani::any();
        kani::assume(code <= 35);
        // false: pretends code 25 had 5 extra bits (the RFC table jumps from 4 to 6 bits there)
        let r = lookup_ll_code(code);
        assert!(code != 25 || r.1 == 5);
    }
}
//@end
//@file ruzstd/src/encoding/blocks/compressed.rs
//@attrs fn=encode_literal_length
#[cfg_attr(kani, kani::requires(len <= crate::verif_spec::rfc::LL_MAX_VALUE))]
#[cfg_attr(kani, kani::ensures(|r: &(u8, u32, usize)| {
    r.0 <= 35 && {
        let (base, bits) = crate::verif_spec::rfc::LL_TABLE[r.0 as usize];
        r.2 == bits as usize && base + r.1 == len && (r.1 as u64) < (1u64 << bits)
    }
}))]
//@end
//@attrs fn=encode_match_len
#[cfg_attr(kani, kani::requires(len >= 3 && len <= crate::verif_spec::rfc::ML_MAX_VALUE))]
#[cfg_attr(kani, kani::ensures(|r: &(u8, u32, usize)| {
    r.0 <= 52 && {
        let (base, bits) = crate::verif_spec::rfc::ML_TABLE[r.0 as usize];
        r.2 == bits as usize && base + r.1 == len && (r.1 as u64) < (1u64 << bits)
    }
}))]
//@end
//@attrs fn=encode_offset
#[cfg_attr(kani, kani::requires(len >= 1))]
#[cfg_attr(kani, kani::ensures(|r: &(u8, u32, usize)| {
    crate::verif_spec::rfc::is_floor_log2(len, r.0 as u32) && r.2 == r.0 as usize
        && (1u64 << r.0) + r.1 as u64 == len as u64 && (r.1 as u64) < (1u64 << r.0)
}))]
//@end
//@module
#[cfg(any(kani, killingspark_zstd_rs_verif))]
#[allow(dead_code, unreachable_pub)]
pub(crate) mod verif_s1e {
    use super::{encode_literal_length, encode_match_len, encode_offset};
    use crate::decoding::sequence_section_decoder::verif_s1d as dec;
    use crate::verif_spec::rfc::*;
    use crate::verif_spec::vk;

    #[cfg(kani)]
    #[kani::proof_for_contract(encode_literal_length)]
    fn s1_ll_encode_contract() {
        encode_literal_length(kani::any());
    }
    #[cfg(kani)]
    #[kani::proof_for_contract(encode_match_len)]
    fn s1_ml_encode_contract() {
        encode_match_len(kani::any());
    }
    #[cfg(kani)]
    #[kani::proof_for_contract(encode_offset)]
    fn s1_of_encode_contract() {
        encode_offset(kani::any());
    }

    /// inverse pair on the real functions: what the decoder reconstructs from (code, extra bits) is the encoder's input,
    /// and both sides agree on the number of extra bits; offsets: decoder computes (1 << code) + extra
    #[cfg_attr(kani, kani::proof)]
    #[cfg_attr(killingspark_zstd_rs_verif, no_mangle)]
    pub fn s1_inverse_witness() {
        let which: u8 = vk::any();
        let v: u32 = vk::any();
        if which == 0 {
            vk::assume(v <= LL_MAX_VALUE);
            let (code, extra, nbits) = encode_literal_length(v);
            assert!(code <= 35, "S1: literal-length code out of range");
            let (base, bits) = dec::ll(code);
            assert!(bits as usize == nbits, "S1: encoder/decoder disagree on literal-length extra bits");
            assert!((extra as u64) < (1u64 << nbits), "S1: literal-length extra value does not fit its bits");
            assert!(base + extra == v, "S1: literal length does not round-trip");
            let (sb, sbits) = LL_TABLE[code as usize];
            assert!(sb == base && sbits == bits, "S1: literal-length tables differ from RFC table 15");
        } else if which == 1 {
            vk::assume(v >= 3 && v <= ML_MAX_VALUE);
            let (code, extra, nbits) = encode_match_len(v);
            assert!(code <= 52, "S1: match-length code out of range");
            let (base, bits) = dec::ml(code);
            assert!(bits as usize == nbits, "S1: encoder/decoder disagree on match-length extra bits");
            assert!((extra as u64) < (1u64 << nbits), "S1: match-length extra value does not fit its bits");
            assert!(base + extra == v, "S1: match length does not round-trip");
            let (sb, sbits) = ML_TABLE[code as usize];
            assert!(sb == base && sbits == bits, "S1: match-length tables differ from RFC table 16");
        } else {
            vk::assume(v >= 1);
            let (code, extra, nbits) = encode_offset(v);
            assert!(code <= 31 && nbits == code as usize, "S1: offset code is not the number of extra bits");
            assert!(is_floor_log2(v, code as u32), "S1: offset code is not floor(log2(offset value))");
            assert!((extra as u64) < (1u64 << code), "S1: offset extra value does not fit its bits");
            // decoder side (decode_sequences): offset = obits + (1 << of_code)
            assert!(extra as u64 + (1u64 << code) == v as u64, "S1: offset value does not round-trip");
        }
    }

    #[cfg(kani)]
    #[kani::proof]
    fn s1_encode_cover() {
        let v: u32 = kani::any();
        kani::assume(v >= 3 && v <= LL_MAX_VALUE);
        let a = encode_literal_length(v);
        let b = encode_match_len(v);
        let c = encode_offset(v);
        kani::cover!(a.0 == 35 && a.1 == 65535);
        kani::cover!(b.0 == 52);
        kani::cover!(b.0 == 42 && b.2 == 5);
        kani::cover!(c.0 == 16);
        kani::cover!(a.0 == 0 || a.0 == 16);
    }

    #[cfg(kani)]
    #[kani::proof]
    fn s1_encode_canary() {
        let v: u32 = kani::any();
        kani::assume(v >= 3 && v <= ML_MAX_VALUE);
        let (code, _extra, _n) = encode_match_len(v);
        // false: claims no match length ever needs code 52
        assert!(code < 52);
    }
}
//@end
//@harness s1_ll_decode_contract kind=contract fn=lookup_ll_code props=C14,C01,C03 tier=quick complete=yes witness=s1_decode_witness
//@harness s1_ml_decode_contract kind=contract fn=lookup_ml_code props=C14,C01,C03 tier=quick complete=yes witness=s1_decode_witness
//@harness s1_decode_witness kind=witness
//@harness s1_spec_tables_tile kind=proof fn=spec:LL_TABLE,spec:ML_TABLE props=C14 tier=quick complete=yes
//@harness s1_decode_canary kind=canary props=C14 tier=quick
//@harness s1_ll_encode_contract kind=contract fn=encode_literal_length props=C14,C02,C16 tier=quick complete=yes witness=s1_inverse_witness
//@harness s1_ml_encode_contract kind=contract fn=encode_match_len props=C14,C02,C16 tier=quick complete=yes witness=s1_inverse_witness
//@harness s1_of_encode_contract kind=contract fn=encode_offset props=C14,C02,C16 tier=quick complete=yes witness=s1_inverse_witness
//@harness s1_inverse_witness kind=proof fn=encode_literal_length,encode_match_len,encode_offset,lookup_ll_code,lookup_ml_code props=C14,C02 tier=quick complete=yes witness=s1_inverse_witness
//@harness s1_encode_cover kind=cover props=C14 tier=quick
//@harness s1_encode_canary kind=canary props=C14 tier=quick
