//@unit H1 : read_block_header equals RFC 8878 3.1.1.2 for all 2^24 header triples and every source length; BlockHeader::serialize is its right inverse
//@file ruzstd/src/decoding/block_decoder.rs
//@module
#[cfg(any(kani, killingspark_zstd_rs_verif))]
#[allow(dead_code, unreachable_pub)]
pub(crate) mod verif_h1 {
    use super::*;
    use crate::verif_spec::hdr::*;
    use crate::verif_spec::vk;

    fn same_type(a: BlockType, b: SpecBlockType) -> bool {
        matches!(
            (a, b),
            (BlockType::Raw, SpecBlockType::Raw) | (BlockType::RLE, SpecBlockType::Rle)
                | (BlockType::Compressed, SpecBlockType::Compressed) | (BlockType::Reserved, SpecBlockType::Reserved)
        )
    }

    /// contract of read_block_header, stated over every 3-byte header, every source length 0..=5 (the function reads exactly 3)
    #[cfg_attr(kani, kani::proof)]
    #[cfg_attr(killingspark_zstd_rs_verif, no_mangle)]
    pub fn h1_read_block_header() {
        let bytes: [u8; 5] = vk::any();
        let len: usize = vk::any();
        vk::assume(len <= 5);
        let mut dec = new();
        // arbitrary leftover in the header buffer / state from earlier blocks must not matter
        dec.header_buffer = vk::any();
        if vk::any() {
            dec.internal_state = DecoderState::ReadyToDecodeNextBody;
        }
        let mut src: &[u8] = &bytes[..len];
        let r = dec.read_block_header(&mut src);
        if len < 3 {
            assert!(matches!(r, Err(BlockHeaderReadError::ReadError(_))), "H1: a truncated block header must be a read error");
            return;
        }
        let s = spec_block_header([bytes[0], bytes[1], bytes[2]]);
        assert!(src.len() == len - 3, "H1: read_block_header must take exactly 3 bytes from the source");
        match r {
            Ok((h, n)) => {
                assert!(n == 3, "H1: reported header length must be 3");
                assert!(s.btype != SpecBlockType::Reserved, "H1: reserved block type must be rejected");
                assert!(s.size <= BLOCK_MAX, "H1: Block_Size above 128 KiB must be rejected");
                assert!(h.last_block == s.last, "H1: Last_Block flag");
                assert!(same_type(h.block_type, s.btype), "H1: Block_Type");
                match s.btype {
                    SpecBlockType::Raw => assert!(h.decompressed_size == s.size && h.content_size == s.size, "H1: raw block sizes"),
                    SpecBlockType::Rle => assert!(h.decompressed_size == s.size && h.content_size == 1, "H1: RLE block sizes"),
                    _ => assert!(h.decompressed_size == 0 && h.content_size == s.size, "H1: compressed block sizes"),
                }
                assert!(matches!(dec.internal_state, DecoderState::ReadyToDecodeNextBody), "H1: decoder must expect a body next");
            }
            Err(BlockHeaderReadError::FoundReservedBlock) => assert!(s.btype == SpecBlockType::Reserved, "H1: spurious reserved-block error"),
            Err(BlockHeaderReadError::BlockSizeError(_)) => assert!(s.size > BLOCK_MAX, "H1: spurious block-size error"),
            Err(_) => assert!(false, "H1: unexpected error kind for a complete header"),
        }
    }

    /// H1': every header the compressor can write parses back to the same (last, type, size); exactly 3 bytes are appended
    #[cfg_attr(kani, kani::proof)]
    #[cfg_attr(killingspark_zstd_rs_verif, no_mangle)]
    pub fn h1_serialize_roundtrip() {
        let last: bool = vk::any();
        let t: u8 = vk::any();
        vk::assume(t < 3);
        let size: u32 = vk::any();
        vk::assume(size <= BLOCK_MAX);
        let bt = match t { 0 => BlockType::Raw, 1 => BlockType::RLE, _ => BlockType::Compressed };
        let prefix: u8 = vk::any();
        let mut out = alloc::vec![prefix];
        crate::encoding::block_header::BlockHeader { last_block: last, block_type: bt, block_size: size }.serialize(&mut out);
        assert!(out.len() == 4 && out[0] == prefix, "H1': serialize must append exactly 3 bytes");
        let mut dec = new();
        let (h, n) = match dec.read_block_header(&out[1..]) {
            Ok(x) => x,
            Err(_) => { assert!(false, "H1': a serialized block header must parse"); return; }
        };
        assert!(n == 3);
        assert!(h.last_block == last, "H1': last flag does not round-trip");
        assert!(h.block_type == bt, "H1': block type does not round-trip");
        match bt {
            BlockType::RLE => assert!(h.decompressed_size == size && h.content_size == 1, "H1': RLE size does not round-trip"),
            BlockType::Raw => assert!(h.decompressed_size == size && h.content_size == size, "H1': raw size does not round-trip"),
            _ => assert!(h.content_size == size, "H1': compressed size does not round-trip"),
        }
    }

    #[cfg(kani)]
    #[kani::proof]
    fn h1_cover() {
        let bytes: [u8; 3] = kani::any();
        let mut dec = new();
        let r = dec.read_block_header(&bytes[..]);
        kani::cover!(matches!(r, Err(BlockHeaderReadError::FoundReservedBlock)));
        kani::cover!(matches!(r, Err(BlockHeaderReadError::BlockSizeError(_))));
        kani::cover!(matches!(&r, Ok((h, _)) if h.content_size == 128 * 1024 && h.last_block));
        kani::cover!(matches!(&r, Ok((h, _)) if h.block_type == BlockType::RLE && h.decompressed_size == 7));
    }

    /// canary: false claim "size field is bits 4..24"
    #[cfg(kani)]
    #[kani::proof]
    fn h1_canary() {
        let bytes: [u8; 3] = kani::any();
        let mut dec = new();
        if let Ok((h, _)) = dec.read_block_header(&bytes[..]) {
            let v = (bytes[0] as u32) | ((bytes[1] as u32) << 8) | ((bytes[2] as u32) << 16);
            if h.block_type == BlockType::Raw {
                assert!(h.content_size == v >> 4);
            }
        }
    }
}
//@end
//@harness h1_read_block_header kind=proof fn=BlockDecoder::read_block_header,BlockDecoder::block_type,BlockDecoder::block_content_size,BlockDecoder::is_last props=C14,C01,C03,C05,C10 tier=quick complete=yes witness=h1_read_block_header
//@harness h1_serialize_roundtrip kind=proof fn=encoding::BlockHeader::serialize,BlockDecoder::read_block_header props=C14,C02,C15 tier=quick complete=yes witness=h1_serialize_roundtrip
//@harness h1_cover kind=cover props=C14 tier=quick
//@harness h1_canary kind=canary props=C14 tier=quick
