//@unit E5 : FrameCompressor::compress frame structure: header, blocks of at most one matcher space, exactly one last block (an extra empty one when the input length is a multiple of the space size), checksum trailer over exactly the bytes read, independent of read fragmentation and of earlier frames; FrameHeader::serialize parses back
//@needs H6
//@file ruzstd/src/encoding/frame_header.rs
//@module
#[cfg(any(kani, killingspark_zstd_rs_verif))]
#[allow(dead_code, unreachable_pub)]
pub(crate) mod verif_e3 {
    use super::*;
    use crate::verif_spec::hdr::*;
    use crate::verif_spec::vk;

    /// E3: the header shape compress() writes (no content size, no dictionary, not single-segment, window = Some(w)) parses back:
    /// magic, checksum flag as requested, no dictionary id, content size absent, declared window legal and >= w
    #[cfg_attr(kani, kani::proof)]
    #[cfg_attr(kani, kani::unwind(20))]
    #[cfg_attr(killingspark_zstd_rs_verif, no_mangle)]
    pub fn e3_frame_header_roundtrip() {
        let w: u64 = vk::any();
        vk::assume(w <= (1u64 << 41));
        let checksum: bool = vk::any();
        let mut out: Vec<u8> = Vec::new();
        FrameHeader { frame_content_size: None, single_segment: false, content_checksum: checksum, dictionary_id: None, window_size: Some(w) }.serialize(&mut out);
        assert!(out.len() == 6, "E3: the emitted frame header is magic + descriptor + window descriptor");
        let mut b18 = [0u8; 18];
        b18[..6].copy_from_slice(&out);
        match spec_frame_header(b18, 6) {
            SpecFrame::Header { descriptor, single_segment, checksum: c, window_descriptor, dict_id, fcs_present, consumed, .. } => {
                assert!(consumed == 6 && !single_segment && dict_id.is_none() && !fcs_present, "E3: header shape");
                assert!(c == checksum, "E3: Content_Checksum_Flag must be what the compressor will do");
                assert!(descriptor & 0b0001_1000 == 0, "E3: reserved and unused descriptor bits must be zero");
                let declared = spec_window_from_descriptor(window_descriptor.unwrap());
                assert!(declared >= WINDOW_MIN && declared <= WINDOW_MAX, "E3: declared window must be legal");
                assert!(declared >= w, "E3: declared window must cover the matcher's window");
            }
            _ => assert!(false, "E3: the emitted header must parse as a Zstandard frame header"),
        }
    }
}
//@end
//@file ruzstd/src/encoding/frame_compressor.rs
//@module
#[cfg(any(kani, killingspark_zstd_rs_verif))]
#[allow(dead_code, unreachable_pub)]
pub(crate) mod verif_e5 {
    use super::*;
    use crate::encoding::Sequence;
    use crate::fse::fse_encoder::verif_fse_dummy::dummy;
    use crate::verif_spec::hdr::*;
    use crate::verif_spec::vk;

    pub(crate) struct TinyMatcher {
        pub last: Vec<u8>,
        pub commits: u32,
        pub skips: u32,
    }
    impl Matcher for TinyMatcher {
        fn get_next_space(&mut self) -> Vec<u8> { alloc::vec![0; 4] }
        fn get_last_space(&mut self) -> &[u8] { &self.last }
        fn commit_space(&mut self, space: Vec<u8>) { self.last = space; self.commits += 1; }
        fn skip_matching(&mut self) { self.skips += 1; }
        fn start_matching(&mut self, _h: impl for<'a> FnMut(Sequence<'a>)) {}
        fn reset(&mut self, _l: CompressionLevel) { self.last.clear(); }
        fn window_size(&self) -> u64 { 1024 }
    }

    /// reader that returns at most `chunk` bytes per read call
    pub(crate) struct Chunked<'a> { pub data: &'a [u8], pub chunk: usize }
    impl Read for Chunked<'_> {
        fn read(&mut self, buf: &mut [u8]) -> Result<usize, crate::io::Error> {
            let mut n = self.chunk;
            if n > buf.len() { n = buf.len(); }
            if n > self.data.len() { n = self.data.len(); }
            buf[..n].copy_from_slice(&self.data[..n]);
            self.data = &self.data[n..];
            Ok(n)
        }
    }

    pub(crate) fn new_compressor<'a>() -> FrameCompressor<Chunked<'a>, Vec<u8>, TinyMatcher> {
        FrameCompressor {
            uncompressed_data: None,
            compressed_data: None,
            compression_level: CompressionLevel::Uncompressed,
            state: CompressState {
                matcher: TinyMatcher { last: Vec::new(), commits: 0, skips: 0 },
                last_huff_table: None,
                fse_tables: FseTables { ll_default: dummy(), ll_previous: None, ml_default: dummy(), ml_previous: None, of_default: dummy(), of_previous: None },
            },
            #[cfg(feature = "hash")]
            hasher: XxHash64::with_seed(0),
        }
    }

    /// checks one frame in `out` against `data`; space size 4
    pub(crate) fn check_frame(out: &[u8], data: &[u8]) {
        let n = data.len();
        assert!(out.len() >= 6 && out[0..4] == [0x28, 0xB5, 0x2F, 0xFD], "E5: frame starts with the magic number");
        let flag = (out[4] >> 2) & 1 == 1;
        assert!(flag == cfg!(feature = "hash"), "E5: checksum flag iff the hash feature is on");
        let mut pos = 6;
        let mut done = 0usize;
        let mut finished = false;
        let mut i = 0;
        while i < 4 && !finished {
            assert!(pos + 3 <= out.len(), "E5: frame ends without a last block");
            let h = spec_block_header([out[pos], out[pos + 1], out[pos + 2]]);
            pos += 3;
            assert!(h.btype == SpecBlockType::Raw, "E5: uncompressed level writes raw blocks");
            let sz = h.size as usize;
            assert!(sz <= 4, "E5: a block holds at most one matcher space");
            assert!(done + sz <= n && pos + sz <= out.len(), "E5: block exceeds the input");
            let k: usize = vk::any();
            if k < sz { assert!(out[pos + k] == data[done + k], "E5: block payload must be the input bytes in order"); }
            pos += sz;
            done += sz;
            if h.last { finished = true; } else { assert!(sz == 4, "E5: only the last block may be short"); }
            i += 1;
        }
        assert!(finished && done == n, "E5: exactly one last block, after all input");
        if cfg!(feature = "hash") {
            assert!(out.len() == pos + 4, "E5: exactly the 4 checksum bytes follow the last block");
        } else {
            assert!(out.len() == pos, "E5: nothing follows the last block without the hash feature");
        }
    }

    /// input length N and read fragmentation CHUNK are concrete per harness (symbolic loop bounds crash / exhaust CBMC); contents symbolic
    pub fn e5_body<const N: usize, const CHUNK: usize>() {
        let bytes: [u8; N] = vk::any();
        let n = N;
        let chunk = CHUNK;
        let mut c = new_compressor();
        c.set_source(Chunked { data: &bytes[..n], chunk });
        c.set_drain(Vec::new());
        c.compress();
        let out = c.take_drain().unwrap();
        check_frame(&out, &bytes[..n]);
        // an input that is a multiple of the space size (including empty) ends with an empty last block
        if n % 4 == 0 {
            let tail = if cfg!(feature = "hash") { 7 } else { 3 };
            let h = spec_block_header([out[out.len() - tail], out[out.len() - tail + 1], out[out.len() - tail + 2]]);
            assert!(h.last && h.size == 0 && h.btype == SpecBlockType::Raw, "E5: exact multiples end with an empty raw last block");
        }
        #[cfg(feature = "hash")]
        {
            let mut h = XxHash64::with_seed(0);
            h.write(&bytes[..n]);
            assert!(c.hasher == h, "E5: the hasher absorbed exactly the bytes read, re-seeded for this frame");
            // (the trailer bytes themselves are checked on concrete data in e5_trailer_concrete: comparing two symbolic XXH64
            // digests is intractable for the SAT back end)
        }
        core::mem::forget(c);
    }

    /// trailer = low 32 bits of XXH64(seed 0) of the content, little-endian - on concrete data, against twox-hash as reference
    #[cfg(feature = "hash")]
    #[cfg_attr(kani, kani::proof)]
    #[cfg_attr(kani, kani::unwind(34))]
    #[cfg_attr(killingspark_zstd_rs_verif, no_mangle)]
    pub fn e5_trailer_concrete() {
        let data = [0x61u8, 0x62, 0x63, 0x00, 0xFF];
        let mut c = new_compressor();
        c.set_source(Chunked { data: &data, chunk: 2 });
        c.set_drain(Vec::new());
        c.compress();
        let out = c.take_drain().unwrap();
        let mut h = XxHash64::with_seed(0);
        h.write(&data);
        let t = (h.finish() as u32).to_le_bytes();
        assert!(out[out.len() - 4..] == t, "E5: trailer = low 32 bits of XXH64 (seed 0) of the content, little-endian");
        core::mem::forget(c);
    }

    macro_rules! e5 {
        ($name:ident, $n:expr, $chunk:expr) => {
            #[cfg_attr(kani, kani::proof)]
            #[cfg_attr(kani, kani::unwind(34))]
            #[cfg_attr(killingspark_zstd_rs_verif, no_mangle)]
            pub fn $name() {
                e5_body::<$n, $chunk>();
            }
        };
    }
    /// the empty input: header, one empty raw last block, trailer of the empty digest
    #[cfg_attr(kani, kani::proof)]
    #[cfg_attr(kani, kani::unwind(34))]
    #[cfg_attr(killingspark_zstd_rs_verif, no_mangle)]
    pub fn e5_empty() {
        let nothing = [0u8; 1];
        let mut c = new_compressor();
        c.set_source(Chunked { data: &nothing[..0], chunk: 4 });
        c.set_drain(Vec::new());
        c.compress();
        let out = c.take_drain().unwrap();
        check_frame(&out, &nothing[..0]);
        let h = spec_block_header([out[6], out[7], out[8]]);
        assert!(h.last && h.size == 0 && h.btype == SpecBlockType::Raw, "E5: the empty input is one empty raw last block");
        #[cfg(feature = "hash")]
        assert!(c.hasher == XxHash64::with_seed(0), "E5: nothing was hashed");
        core::mem::forget(c);
    }
    e5!(e5_short_bytewise, 3, 1);
    e5!(e5_exact_block, 4, 9);
    e5!(e5_block_plus_one, 5, 2);
    e5!(e5_two_blocks, 8, 3);
    /// the same statement built without the hash feature (flag absent, no trailer, same blocks)
    #[cfg(all(kani, not(feature = "hash")))]
    #[kani::proof]
    #[kani::unwind(34)]
    fn e5_nohash_block_plus_one() {
        e5_body::<5, 2>();
    }
    #[cfg(all(kani, not(feature = "hash")))]
    #[kani::proof]
    #[kani::unwind(34)]
    fn e5_nohash_exact_block() {
        e5_body::<4, 4>();
    }

    /// reuse: a second compress() on the same object produces the frame a fresh object would (hash re-seeded, matcher reset)
    #[cfg_attr(kani, kani::proof)]
    #[cfg_attr(kani, kani::unwind(34))]
    #[cfg_attr(killingspark_zstd_rs_verif, no_mangle)]
    pub fn e5_compress_reuse() {
        let a: [u8; 5] = vk::any();
        let b: [u8; 5] = vk::any();
        let (na, nb): (usize, usize) = (5, 3);
        let mut c = new_compressor();
        c.set_source(Chunked { data: &a[..na], chunk: 5 });
        c.set_drain(Vec::new());
        c.compress();
        c.set_source(Chunked { data: &b[..nb], chunk: 5 });
        c.set_drain(Vec::new());
        c.compress();
        let out = c.take_drain().unwrap();
        check_frame(&out, &b[..nb]);
        #[cfg(feature = "hash")]
        {
            let mut h = XxHash64::with_seed(0);
            h.write(&b[..nb]);
            assert!(c.hasher == h, "E5: the checksum of a later frame must not include bytes of an earlier frame");
        }
        core::mem::forget(c);
    }
}
//@end
//@harness e3_frame_header_roundtrip kind=proof fn=encoding::FrameHeader::serialize,encoding::FrameHeader::descriptor props=C15,C02,C14 tier=quick complete=yes witness=e3_frame_header_roundtrip timeout=1800
//@harness e5_empty kind=proof fn=FrameCompressor::compress props=C15,C02,C08 tier=quick bound="input of 0 bytes (contents symbolic), matcher spaces of 4 bytes, reader returning <= 4 bytes per call" witness=e5_empty timeout=1800
//@harness e5_short_bytewise kind=proof fn=FrameCompressor::compress props=C15,C02,C08 tier=quick bound="input of 3 bytes (contents symbolic), matcher spaces of 4 bytes, reader returning <= 1 bytes per call" witness=e5_short_bytewise timeout=1800
//@harness e5_exact_block kind=proof fn=FrameCompressor::compress props=C15,C02,C08 tier=quick bound="input of 4 bytes (contents symbolic), matcher spaces of 4 bytes, reader returning <= 9 bytes per call" witness=e5_exact_block timeout=1800
//@harness e5_block_plus_one kind=proof fn=FrameCompressor::compress props=C15,C02,C08 tier=quick bound="input of 5 bytes (contents symbolic), matcher spaces of 4 bytes, reader returning <= 2 bytes per call" witness=e5_block_plus_one timeout=1800
//@harness e5_two_blocks kind=proof fn=FrameCompressor::compress props=C15,C02,C08 tier=quick bound="input of 8 bytes (contents symbolic), matcher spaces of 4 bytes, reader returning <= 3 bytes per call" witness=e5_two_blocks timeout=1800
//@harness e5_trailer_concrete kind=proof fn=FrameCompressor::compress props=C08,C02 tier=quick bound="one concrete 5-byte input (digest arithmetic is evaluated concretely)" witness=e5_trailer_concrete timeout=1800
//@harness e5_compress_reuse kind=proof fn=FrameCompressor::compress props=C02,C08 tier=quick bound="two frames (5 and 3 bytes) through one compressor" witness=e5_compress_reuse timeout=1800
//@harness e5_nohash_block_plus_one kind=proof fn=FrameCompressor::compress props=C18 tier=quick features=nohash bound="5 input bytes, 4-byte spaces, hash feature off" timeout=1800
//@harness e5_nohash_exact_block kind=proof fn=FrameCompressor::compress props=C18 tier=quick features=nohash bound="4 input bytes, 4-byte spaces, hash feature off" timeout=1800
