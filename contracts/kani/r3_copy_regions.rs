//@unit R3 : copy_bytes_overshooting stays inside the regions it is told it owns (R3); every call site hands it regions inside the initialised data resp. the free space (R4)
//@file ruzstd/src/decoding/ringbuffer.rs
//@module
#[cfg(any(kani, killingspark_zstd_rs_verif))]
#[allow(dead_code, unreachable_pub, static_mut_refs)]
pub(crate) mod verif_r3 {
    use super::*;
    use crate::verif_spec::vk;
    use super::verif_r2::{any_rb, old_get, qget, qlen, wf};

    /// R3: src and dst are SEPARATE allocations of EXACTLY src.1 / dst.1 bytes, so any read or write outside "the regions it is
    /// told it owns" is an out-of-bounds access that CBMC reports. Region sizes symbolic <= MAXR: all three paths
    /// (single wide copy, chunk loop with >= 2 iterations, memcpy fallback).
    pub(crate) fn r3_body<const MAXR: usize>() {
        let s: usize = vk::any();
        let d: usize = vk::any();
        let n: usize = vk::any();
        vk::assume(s <= MAXR && d <= MAXR && n <= s && n <= d);
        let sp = if s == 0 { NonNull::<u8>::dangling().as_ptr() } else { unsafe { alloc(Layout::array::<u8>(s).unwrap()) } };
        let dp = if d == 0 { NonNull::<u8>::dangling().as_ptr() } else { unsafe { alloc(Layout::array::<u8>(d).unwrap()) } };
        assert!(!sp.is_null() && !dp.is_null());
        let i: usize = vk::any();
        vk::assume(i < n);
        let tag: u8 = vk::any();
        // initialise the source (every byte: reading it is legal), tag one byte
        unsafe {
            sp.write_bytes(0x5A, s);
            *sp.add(i) = tag;
        }
        unsafe { copy_bytes_overshooting((sp as *const u8, s), (dp, d), n) };
        assert!(unsafe { *dp.add(i) } == tag, "R3: dst[..n] != src[..n] after copy_bytes_overshooting");
        assert!(unsafe { *sp.add(i) } == tag, "R3: the source must not be modified");
    }
    #[cfg_attr(kani, kani::proof)]
    #[cfg_attr(kani, kani::unwind(5))]
    #[cfg_attr(killingspark_zstd_rs_verif, no_mangle)]
    pub fn r3_copy_overshooting_48() {
        r3_body::<48>();
    }

    /// canary: destination allocation one byte shorter than claimed => the wide copy must be caught leaving the allocation
    #[cfg(kani)]
    #[kani::proof]
    #[kani::unwind(20)]
    fn r3_canary() {
        let sp = unsafe { alloc(Layout::array::<u8>(16).unwrap()) };
        let dp = unsafe { alloc(Layout::array::<u8>(15).unwrap()) };
        let mut k = 0;
        while k < 16 { unsafe { *sp.add(k) = 1 }; k += 1; }
        unsafe { copy_bytes_overshooting((sp as *const u8, 16), (dp, 16), 3) };
    }

    // ------------------------------------------------------------------------------------------------ R4
    pub(crate) static mut G_BASE: usize = 0;
    pub(crate) static mut G_CAP: usize = 0;
    pub(crate) static mut G_HEAD: usize = 0;
    pub(crate) static mut G_TAIL: usize = 0;
    pub(crate) static mut G_CALLS: usize = 0;

    /// contract stub of copy_bytes_overshooting: asserts the PRECONDITION at the call site against the ghost ring state
    /// (src inside the initialised data region, dst inside the free region, n <= min), then performs the exact n-byte copy
    /// that R3 proves the real function delivers.
    pub(crate) unsafe fn copy_contract_stub(src: (*const u8, usize), dst: (*mut u8, usize), copy_at_least: usize) {
        let (base, cap, head, tail) = (G_BASE, G_CAP, G_HEAD, G_TAIL);
        G_CALLS += 1;
        let so = (src.0 as usize).wrapping_sub(base);
        let d_o = (dst.0 as usize).wrapping_sub(base);
        assert!(copy_at_least <= src.1 && copy_at_least <= dst.1, "R4: copy_at_least exceeds a region it was given");
        // data region: head..tail, or head..cap and 0..tail when wrapped
        let in_data = if head <= tail {
            so >= head && so <= tail && src.1 <= tail - so
        } else {
            (so >= head && so <= cap && src.1 <= cap - so) || (so <= tail && src.1 <= tail - so)
        };
        assert!(in_data, "R4: source region handed to copy_bytes_overshooting is not inside the initialised data");
        // free region (sentinel slot included): tail..head, or tail..cap and 0..head
        let in_free = if tail < head {
            d_o >= tail && d_o <= head && dst.1 <= head - d_o
        } else {
            (d_o >= tail && d_o <= cap && dst.1 <= cap - d_o) || (d_o <= head && dst.1 <= head - d_o)
        };
        assert!(in_free, "R4: destination region handed to copy_bytes_overshooting is not inside the free space");
        core::ptr::copy_nonoverlapping(src.0, dst.0, copy_at_least);
    }

    pub(crate) fn r4_body<const CAP: usize>() {
        let (mut rb, mem) = any_rb::<CAP>();
        let (h0, l0) = (rb.head, qlen(&rb));
        let start: usize = vk::any();
        let n: usize = vk::any();
        vk::assume(start <= l0 && n <= l0 - start && n <= CAP - 1 - l0);
        unsafe {
            G_BASE = rb.buf.as_ptr() as usize;
            G_CAP = CAP;
            G_HEAD = rb.head;
            G_TAIL = rb.tail;
            G_CALLS = 0;
        }
        let i: usize = vk::any();
        vk::assume(i < l0 + n);
        unsafe { rb.extend_from_within_unchecked(start, n) };
        assert!(wf(&rb) && qlen(&rb) == l0 + n, "R4: extend_from_within (modular): invariant / length");
        let want = if i < l0 { old_get(&mem, h0, i) } else { old_get(&mem, h0, start + (i - l0)) };
        assert!(qget(&rb, i) == want, "R4: extend_from_within (modular): view' != view ++ view[start..start+len]");
    }
    macro_rules! r4 {
        ($name:ident, $cap:expr) => {
            #[cfg(kani)]
            #[kani::proof]
            #[kani::unwind(4)]
            #[kani::stub(super::copy_bytes_overshooting, copy_contract_stub)]
            fn $name() {
                r4_body::<$cap>();
            }
        };
    }
    r4!(r4_regions_9, 9);
    r4!(r4_regions_17, 17);
    r4!(r4_regions_33, 33);
    r4!(r4_regions_65, 65);
    r4!(r4_regions_129, 129);
}
//@end
//@harness r3_copy_overshooting_48 kind=proof fn=copy_bytes_overshooting props=C04,C03 tier=quick bound="region sizes <= 48 bytes (3 wide chunks)" witness=r3_copy_overshooting_48
//@harness r3_canary kind=canary props=C04 tier=quick
//@harness r4_regions_9 kind=proof fn=RingBuffer::extend_from_within_unchecked props=C04,C03 tier=quick bound="capacity 9" native=no
//@harness r4_regions_17 kind=proof fn=RingBuffer::extend_from_within_unchecked props=C04,C03 tier=quick bound="capacity 17" native=no
//@harness r4_regions_33 kind=proof fn=RingBuffer::extend_from_within_unchecked props=C04 tier=quick bound="capacity 33" native=no timeout=1800
//@harness r4_regions_65 kind=proof fn=RingBuffer::extend_from_within_unchecked props=C04 tier=thorough bound="capacity 65" native=no timeout=3600 heavy=yes
//@harness r4_regions_129 kind=proof fn=RingBuffer::extend_from_within_unchecked props=C04 tier=thorough bound="capacity 129" native=no timeout=5400 heavy=yes
//@needs R2
//@assume in r4_* harnesses copy_bytes_overshooting is replaced by its contract stub (precondition asserted against ghost ring state, exact n-byte copy); that the real function refines the stub is obligation R3.r3_copy_overshooting_48 (region sizes <= 48)
