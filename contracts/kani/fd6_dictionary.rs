//@unit FD6 : Dictionary::decode_dict: total on every byte string (no slice / conversion panic whatever sizes the table parsers report), Ok exactly when magic, the four table descriptions and the 12 offset bytes are present; id, the three repeat offsets (little-endian) and the content are the bytes at the positions the format defines; tables are parsed in the order Huffman, offsets, match lengths, literal lengths, each from where the previous one ended
//@file ruzstd/src/decoding/dictionary.rs
//@module
#[cfg(any(kani, killingspark_zstd_rs_verif))]
#[allow(dead_code, unreachable_pub, static_mut_refs)]
pub(crate) mod verif_fd6 {
    use super::*;
    use crate::fse::FSETable;
    use crate::decoding::errors::{FSETableError, HuffmanTableError};
    use crate::huff0::HuffmanTable;
    use crate::verif_spec::vk;

    // script of the four table parsers: (fails?, bytes reported as used); ghost log of the calls
    pub(crate) static mut T_FAIL: [bool; 4] = [false; 4];
    pub(crate) static mut T_SIZE: [usize; 4] = [0; 4];
    pub(crate) static mut T_CALLS: usize = 0;
    pub(crate) static mut T_SRC_LEN: [usize; 4] = [0; 4];
    pub(crate) static mut T_MAXLOG: [u8; 4] = [0; 4];

    /// contract stub of HuffmanTable::build_decoder (HU2V): Ok(n) or Err; deliberately NOT restricted to n <= source length,
    /// decode_dict has to cope with whatever it is told
    pub(crate) fn stub_huf_build(_t: &mut HuffmanTable, source: &[u8]) -> Result<u32, HuffmanTableError> {
        unsafe {
            assert!(T_CALLS == 0, "FD6: the Huffman table description comes first");
            T_SRC_LEN[0] = source.len();
            T_CALLS += 1;
            if T_FAIL[0] { Err(HuffmanTableError::SourceIsEmpty) } else { Ok(T_SIZE[0] as u32) }
        }
    }
    /// contract stub of FSETable::build_decoder (F2/F3)
    pub(crate) fn stub_fse_build(_t: &mut FSETable, source: &[u8], max_log: u8) -> Result<usize, FSETableError> {
        unsafe {
            let i = T_CALLS;
            assert!(i >= 1 && i <= 3, "FD6: three FSE table descriptions follow the Huffman one");
            T_SRC_LEN[i] = source.len();
            T_MAXLOG[i] = max_log;
            T_CALLS += 1;
            if T_FAIL[i] { Err(FSETableError::AccLogIsZero) } else { Ok(T_SIZE[i]) }
        }
    }

    pub(crate) fn body<const L: usize>() {
        let raw: [u8; L] = vk::any();
        unsafe {
            T_FAIL = vk::any();
            T_SIZE = vk::any();
            let mut i = 0;
            while i < 4 { vk::assume(T_SIZE[i] <= 40); i += 1; }
            T_CALLS = 0;
        }
        let r = Dictionary::decode_dict(&raw);
        // ---- specification ----
        let (fail, size) = unsafe { (T_FAIL, T_SIZE) };
        let mut ok = L >= 8 && raw[0] == 0x37 && raw[1] == 0xA4 && raw[2] == 0x30 && raw[3] == 0xEC;
        let mut pos = 8usize;
        let mut i = 0;
        while ok && i < 4 {
            if fail[i] || L - pos < size[i] { ok = false; } else { pos += size[i]; }
            i += 1;
        }
        if ok && L - pos < 12 { ok = false; }
        match &r {
            Ok(d) => {
                assert!(ok, "FD6: decode_dict accepted a dictionary that is truncated, has a wrong magic number or a bad table");
                assert!(d.id == u32::from_le_bytes([raw[4], raw[5], raw[6], raw[7]]), "FD6: dictionary id = bytes 4..8 little-endian");
                let o = |k: usize| u32::from_le_bytes([raw[pos + 4 * k], raw[pos + 4 * k + 1], raw[pos + 4 * k + 2], raw[pos + 4 * k + 3]]);
                assert!(d.offset_hist == [o(0), o(1), o(2)], "FD6: the three repeat offsets follow the tables, little-endian, in order");
                assert!(d.dict_content.len() == L - pos - 12, "FD6: the content is everything after the offsets");
                let j: usize = vk::any();
                if j < L - pos - 12 { assert!(d.dict_content[j] == raw[pos + 12 + j], "FD6: dictionary content bytes"); }
                unsafe {
                    assert!(T_CALLS == 4 && T_MAXLOG[1] == 8 && T_MAXLOG[2] == 9 && T_MAXLOG[3] == 9, "FD6: offsets (max log 8), match lengths (9), literal lengths (9), in this order");
                    assert!(T_SRC_LEN[0] == L - 8 && T_SRC_LEN[1] == L - 8 - size[0] && T_SRC_LEN[2] == L - 8 - size[0] - size[1]
                        && T_SRC_LEN[3] == L - 8 - size[0] - size[1] - size[2], "FD6: each table is parsed from where the previous one ended");
                }
            }
            Err(_) => assert!(!ok, "FD6: decode_dict rejected a well-formed dictionary"),
        }
        core::mem::forget(r);
    }
    macro_rules! fd6 {
        ($name:ident, $l:expr) => {
            #[cfg_attr(kani, kani::proof)]
            #[cfg_attr(kani, kani::unwind(14))]
            #[cfg_attr(kani, kani::stub(crate::huff0::HuffmanTable::build_decoder, stub_huf_build))]
            #[cfg_attr(kani, kani::stub(crate::fse::FSETable::build_decoder, stub_fse_build))]
            #[cfg_attr(killingspark_zstd_rs_verif, no_mangle)]
            pub fn $name() { body::<$l>(); }
        };
    }
    fd6!(fd6_decode_dict_7, 7);
    fd6!(fd6_decode_dict_8, 8);
    fd6!(fd6_decode_dict_20, 20);
    fd6!(fd6_decode_dict_26, 26);

    #[cfg(kani)]
    #[kani::proof]
    #[kani::unwind(14)]
    #[kani::stub(crate::huff0::HuffmanTable::build_decoder, stub_huf_build)]
    #[kani::stub(crate::fse::FSETable::build_decoder, stub_fse_build)]
    fn fd6_cover() {
        let raw: [u8; 26] = kani::any();
        unsafe { T_FAIL = kani::any(); T_SIZE = kani::any(); let mut i = 0; while i < 4 { kani::assume(T_SIZE[i] <= 40); i += 1; } T_CALLS = 0; }
        let r = Dictionary::decode_dict(&raw);
        kani::cover!(r.is_ok(), "a dictionary is accepted");
        kani::cover!(matches!(&r, Ok(d) if d.dict_content.len() == 2), "with tables of 4 bytes in total and 2 content bytes");
        core::mem::forget(r);
    }
}
//@end
//@harness fd6_decode_dict_7 kind=proof fn=Dictionary::decode_dict props=C09,C03 tier=quick bound="dictionary of 7 bytes (all contents), all parser reports" timeout=1200
//@harness fd6_decode_dict_8 kind=proof fn=Dictionary::decode_dict props=C09,C03 tier=quick bound="dictionary of 8 bytes (all contents), table parsers report any outcome and any size <= 40" timeout=1200
//@harness fd6_decode_dict_20 kind=proof fn=Dictionary::decode_dict props=C09,C03 tier=quick bound="dictionary of 20 bytes (all contents), table parsers report any outcome and any size <= 40" timeout=1200
//@harness fd6_decode_dict_26 kind=proof fn=Dictionary::decode_dict props=C09,C03 tier=quick bound="dictionary of 26 bytes (all contents), table parsers report any outcome and any size <= 40" timeout=1500
//@harness fd6_cover kind=cover props=C09 tier=quick timeout=1500
//@assume in fd6_* the table parsers HuffmanTable::build_decoder (HU2V) and FSETable::build_decoder (F2/F3) are scripted contract stubs reporting arbitrary outcomes and sizes (not restricted to what those units prove, so the result also covers a misbehaving parser)
