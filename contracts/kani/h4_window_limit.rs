//@unit H4 : window limit: check precedes allocation on both the first-use and the reuse path, exact boundary, clamp to the format maximum, and every front end installs the limit before init
//@file ruzstd/src/decoding/scratch.rs
//@module
#[cfg(any(kani, killingspark_zstd_rs_verif))]
#[allow(dead_code, unreachable_pub, static_mut_refs)]
pub(crate) mod verif_h4s {
    use super::*;
    /// ghost state for the callee precondition "window_size <= limit in force"
    pub(crate) static mut GHOST_LIMIT: u64 = 0;
    pub(crate) static mut ALLOC_CALLS: u32 = 0;
    pub(crate) static mut ALLOC_WINDOW: usize = 0;

    /// a scratch that owns no window allocation (struct literal on purpose: a new field makes this unit undecided until its contract is extended)
    pub(crate) fn cheap_scratch(window_size: usize) -> DecoderScratch {
        DecoderScratch {
            huf: HuffmanScratch { table: HuffmanTable::new() },
            fse: FSEScratch {
                offsets: FSETable::new(MAX_OFFSET_CODE),
                of_rle: None,
                literal_lengths: FSETable::new(MAX_LITERAL_LENGTH_CODE),
                ll_rle: None,
                match_lengths: FSETable::new(MAX_MATCH_LENGTH_CODE),
                ml_rle: None,
            },
            buffer: DecodeBuffer::new(window_size),
            offset_hist: [1, 4, 8],
            literals_buffer: Vec::new(),
            sequences: Vec::new(),
            block_content_buffer: Vec::new(),
        }
    }

    /// contract stub of DecoderScratch::new: `requires window_size <= limit in force` (the allocation the property protects)
    pub(crate) fn stub_new(window_size: usize) -> DecoderScratch {
        unsafe {
            assert!(window_size as u64 <= GHOST_LIMIT, "H4: DecoderScratch::new (window allocation) reached with a window above the limit");
            ALLOC_CALLS += 1;
            ALLOC_WINDOW = window_size;
        }
        cheap_scratch(window_size)
    }
    /// contract stub of DecoderScratch::reset
    pub(crate) fn stub_reset(s: &mut DecoderScratch, window_size: usize) {
        unsafe {
            assert!(window_size as u64 <= GHOST_LIMIT, "H4: DecoderScratch::reset (window allocation) reached with a window above the limit");
            ALLOC_CALLS += 1;
            ALLOC_WINDOW = window_size;
        }
        s.buffer.window_size = window_size;
    }
}
//@end
//@file ruzstd/src/decoding/frame_decoder.rs
//@module
#[cfg(any(kani, killingspark_zstd_rs_verif))]
#[allow(dead_code, unreachable_pub, static_mut_refs)]
pub(crate) mod verif_h4 {
    use super::*;
    use crate::decoding::scratch::verif_h4s::*;
    use crate::verif_spec::hdr::*;
    use crate::verif_spec::vk;

    fn spec_window(b: &[u8; 20], len: usize) -> Option<u64> {
        let mut b18 = [0u8; 18];
        let mut i = 0;
        while i < 18 { if i < len { b18[i] = b[i]; } i += 1; }
        match spec_frame_header(b18, if len > 18 { 18 } else { len }) {
            SpecFrame::Header { single_segment, window_descriptor, fcs, .. } => {
                if single_segment { Some(fcs) } else {
                    let w = spec_window_from_descriptor(window_descriptor.unwrap_or(0));
                    if w >= WINDOW_MIN && w <= WINDOW_MAX { Some(w) } else { None }
                }
            }
            _ => None,
        }
    }

    /// (a) exact boundary of the comparison, all (window, limit) pairs
    #[cfg_attr(kani, kani::proof)]
    #[cfg_attr(killingspark_zstd_rs_verif, no_mangle)]
    pub fn h4_check_window_size() {
        let w: u64 = vk::any();
        let max: u64 = vk::any();
        let r = FrameDecoderState::check_window_size(w, max);
        if w > max {
            assert!(matches!(r, Err(FrameDecoderError::WindowSizeTooBig { requested, max: m }) if requested == w && m == max),
                "H4: a window above the limit must be rejected, reporting the requested size and the limit in force");
        } else {
            assert!(r.is_ok(), "H4: a window at or below the limit must be accepted");
        }
    }

    /// (b) first-use path: FrameDecoderState::new on every <= 20 byte source and every limit, real callees throughout.
    /// (DecoderScratch::new performs no window-sized allocation - the ring buffer starts with capacity 0 - so on this path the
    /// obligation is the decision itself; the allocation-order clause lives on the reuse path (c), where reset() reserves the window.)
    #[cfg_attr(kani, kani::proof)]
    #[cfg_attr(kani, kani::unwind(20))]
    #[cfg_attr(killingspark_zstd_rs_verif, no_mangle)]
    pub fn h4_state_new() {
        let bytes: [u8; 20] = vk::any();
        let len: usize = vk::any();
        vk::assume(len <= 20);
        let max: u64 = vk::any();
        let r = FrameDecoderState::new(&bytes[..len], max);
        match spec_window(&bytes, len) {
            Some(w) if w > max => {
                assert!(matches!(r, Err(FrameDecoderError::WindowSizeTooBig { requested, max: m }) if requested == w && m == max),
                    "H4: first frame on a decoder: a window above the limit must be rejected with (requested, max)");
            }
            Some(w) => {
                assert!(r.is_ok(), "H4: first frame on a decoder: a window at or below the limit must be accepted");
                if let Ok(st) = &r {
                    assert!(st.decoder_scratch.buffer.window_size as u64 == w, "H4: the scratch is created for the declared window");
                    assert!(st.decoder_scratch.buffer.len() == 0 && !st.frame_finished && st.block_counter == 0, "H4: fresh frame state");
                }
            }
            None => assert!(r.is_err(), "H4: an invalid header cannot initialise a frame"),
        }
        core::mem::forget(r); // no drop glue (io::Error / scratch buffers) in the proof
    }

    /// (c) reuse path: FrameDecoderState::reset, same statement, DecoderScratch::reset as contract stub; a rejected frame leaves the state untouched
    #[cfg_attr(kani, kani::proof)]
    #[cfg_attr(kani, kani::unwind(20))]
    #[cfg_attr(kani, kani::stub(crate::decoding::scratch::DecoderScratch::reset, crate::decoding::scratch::verif_h4s::stub_reset))]
    #[cfg_attr(killingspark_zstd_rs_verif, no_mangle)]
    pub fn h4_state_reset() {
        let bytes: [u8; 20] = vk::any();
        let len: usize = vk::any();
        vk::assume(len <= 20);
        let max: u64 = vk::any();
        let old_desc: u8 = vk::any();
        let old_counter: u64 = vk::any();
        let mut st = FrameDecoderState {
            frame_header: frame::read_frame_header(&[0x28u8, 0xB5, 0x2F, 0xFD, 0x20, 0x00][..]).unwrap().0,
            decoder_scratch: cheap_scratch(7),
            frame_finished: vk::any(),
            block_counter: 3,
            bytes_read_counter: old_counter,
            check_sum: Some(5),
            using_dict: Some(9),
        };
        st.frame_header.descriptor.0 = old_desc;
        unsafe { GHOST_LIMIT = max; ALLOC_CALLS = 0; }
        let r = st.reset(&bytes[..len], max);
        match spec_window(&bytes, len) {
            Some(w) if w > max => {
                assert!(matches!(r, Err(FrameDecoderError::WindowSizeTooBig { requested, max: m }) if requested == w && m == max),
                    "H4: reused decoder: a window above the limit must be rejected with (requested, max)");
                assert!(unsafe { ALLOC_CALLS } == 0, "H4: no window allocation before the rejection (reuse path)");
                assert!(st.bytes_read_counter == old_counter && st.frame_header.descriptor.0 == old_desc && st.block_counter == 3,
                    "H4: a rejected frame leaves the previous frame's state in place");
            }
            Some(w) => {
                assert!(r.is_ok(), "H4: reused decoder: a window at or below the limit must be accepted");
                #[cfg(kani)]
                assert!(unsafe { ALLOC_CALLS == 1 && ALLOC_WINDOW as u64 == w }, "H4: the scratch is reset for the declared window");
                let _ = w;
            }
            None => assert!(r.is_err(), "H4: an invalid header cannot initialise a frame"),
        }
        core::mem::forget(r);
        core::mem::forget(st);
    }

    pub(crate) static mut SEEN_LIMIT: u64 = 0;
    pub(crate) static mut SEEN_CALLS: u32 = 0;
    fn stub_state_new<R: Read>(_source: R, max_window_size: u64) -> Result<FrameDecoderState, FrameDecoderError> {
        unsafe { SEEN_LIMIT = max_window_size; SEEN_CALLS += 1; }
        Err(FrameDecoderError::NotYetInitialized)
    }
    fn stub_state_reset<R: Read>(_s: &mut FrameDecoderState, _source: R, max_window_size: u64) -> Result<(), FrameDecoderError> {
        unsafe { SEEN_LIMIT = max_window_size; SEEN_CALLS += 1; }
        Err(FrameDecoderError::NotYetInitialized)
    }

    /// (d) clamp + the decoder hands exactly its configured limit to both paths
    #[cfg(kani)]
    #[kani::proof]
    #[kani::stub(FrameDecoderState::new, stub_state_new)]
    #[kani::stub(FrameDecoderState::reset, stub_state_reset)]
    fn h4_limit_plumbing() {
        let mut d = FrameDecoder::new();
        assert!(d.max_window_size() == 128 * 1024 * 1024, "H4: default limit is 128 MiB");
        let x: u64 = kani::any();
        let set: bool = kani::any();
        let want = if set { d.set_max_window_size(x); if x > WINDOW_MAX { WINDOW_MAX } else { x } } else { 128 * 1024 * 1024 };
        assert!(d.max_window_size() == want, "H4: set_max_window_size stores min(arg, format maximum)");
        if kani::any() {
            // reuse path: the decoder already has a state
            d.state = Some(FrameDecoderState {
                frame_header: frame::read_frame_header(&[0x28u8, 0xB5, 0x2F, 0xFD, 0x20, 0x00][..]).unwrap().0,
                decoder_scratch: cheap_scratch(7),
                frame_finished: true, block_counter: 0, bytes_read_counter: 0, check_sum: None, using_dict: None,
            });
        }
        unsafe { SEEN_CALLS = 0; }
        let src = [0u8; 4];
        let r = if kani::any() { d.reset(&src[..]) } else { d.init(&src[..]) };
        assert!(r.is_err());
        assert!(unsafe { SEEN_CALLS == 1 && SEEN_LIMIT == want }, "H4: reset/init must pass the configured limit to the frame initialisation");
    }

    pub(crate) static mut INIT_LIMIT: u64 = 0;
    pub(crate) static mut INIT_CALLS: u32 = 0;
    fn stub_init<R: Read>(d: &mut FrameDecoder, _source: R) -> Result<(), FrameDecoderError> {
        unsafe { INIT_LIMIT = d.max_window_size; INIT_CALLS += 1; }
        Err(FrameDecoderError::NotYetInitialized)
    }

    /// (e) front ends: the streaming constructors install the limit before the first frame is initialised
    #[cfg(kani)]
    #[kani::proof]
    #[kani::stub(FrameDecoder::init, stub_init)]
    fn h4_streaming_front_ends() {
        use crate::decoding::StreamingDecoder;
        let src = [0u8; 4];
        let x: u64 = kani::any();
        let which: u8 = kani::any();
        unsafe { INIT_CALLS = 0; }
        let want;
        if which == 0 {
            want = 128 * 1024 * 1024;
            assert!(StreamingDecoder::new(&src[..]).is_err());
        } else if which == 1 {
            want = if x > WINDOW_MAX { WINDOW_MAX } else { x };
            assert!(StreamingDecoder::new_with_max_window_size(&src[..], x).is_err());
        } else {
            let mut d = FrameDecoder::new();
            d.set_max_window_size(x);
            want = if x > WINDOW_MAX { WINDOW_MAX } else { x };
            assert!(StreamingDecoder::new_with_decoder(&src[..], &mut d).is_err());
        }
        assert!(unsafe { INIT_CALLS == 1 && INIT_LIMIT == want }, "H4: streaming constructors must initialise the frame with the configured limit in force");
    }

    #[cfg(kani)]
    #[kani::proof]
    #[kani::unwind(20)]
    #[kani::stub(crate::decoding::scratch::DecoderScratch::reset, crate::decoding::scratch::verif_h4s::stub_reset)]
    fn h4_cover() {
        let bytes: [u8; 20] = kani::any();
        let max: u64 = kani::any();
        let mut st = FrameDecoderState {
            frame_header: frame::read_frame_header(&[0x28u8, 0xB5, 0x2F, 0xFD, 0x20, 0x00][..]).unwrap().0,
            decoder_scratch: cheap_scratch(7),
            frame_finished: false, block_counter: 3, bytes_read_counter: 0, check_sum: Some(5), using_dict: Some(9),
        };
        unsafe { GHOST_LIMIT = max; ALLOC_CALLS = 0; }
        let r = st.reset(&bytes[..], max);
        kani::cover!(matches!(r, Err(FrameDecoderError::WindowSizeTooBig { requested, max: m }) if requested == m + 1));
        kani::cover!(r.is_ok() && spec_window(&bytes, 20) == Some(max));
        kani::cover!(r.is_ok() && max == WINDOW_MAX && bytes[5] == 0xFF);
        kani::cover!(matches!(r, Err(FrameDecoderError::ReadFrameHeaderError(_))));
        core::mem::forget(r);
        core::mem::forget(st);
    }

    /// canary: false claim "a window equal to the limit is rejected"
    #[cfg(kani)]
    #[kani::proof]
    fn h4_canary() {
        let w: u64 = kani::any();
        let max: u64 = kani::any();
        if w >= max {
            assert!(FrameDecoderState::check_window_size(w, max).is_err());
        }
    }
}
//@end
//@harness h4_check_window_size kind=proof fn=FrameDecoderState::check_window_size props=C11 tier=quick complete=yes witness=h4_check_window_size
//@harness h4_state_new kind=proof fn=FrameDecoderState::new,FrameHeader::window_size,read_frame_header props=C11,C05 tier=quick complete=yes witness=h4_state_new timeout=1200
//@harness h4_state_reset kind=proof fn=FrameDecoderState::reset,FrameHeader::window_size,read_frame_header props=C11,C05,C07 tier=quick complete=yes witness=h4_state_reset native=no timeout=1200
//@harness h4_limit_plumbing kind=proof fn=FrameDecoder::new,FrameDecoder::set_max_window_size,FrameDecoder::max_window_size,FrameDecoder::reset,FrameDecoder::init props=C11 tier=quick complete=yes
//@harness h4_streaming_front_ends kind=proof fn=StreamingDecoder::new,StreamingDecoder::new_with_max_window_size,StreamingDecoder::new_with_decoder props=C11 tier=quick complete=yes
//@harness h4_cover kind=cover props=C11 tier=quick
//@harness h4_canary kind=canary props=C11 tier=quick
//@assume DecoderScratch::reset is replaced by its contract stub in h4_state_reset (their bodies are the window allocation the property is about; the stub asserts the precondition window <= limit)
//@assume FrameDecoderState::new/reset and FrameDecoder::init are replaced by recording stubs in h4_limit_plumbing / h4_streaming_front_ends (only the limit that reaches them is examined there)
