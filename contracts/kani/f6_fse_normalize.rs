//@unit F6 : FSE encoder normalisation (build_table_from_counts / build_table_from_data): total for every histogram with at least one counted symbol, the normalised distribution is a valid one (sums to 2^accuracy_log, accuracy log within 5..=max_log, counted symbols keep probability >= 1, zero-bit avoidance respected)
//@needs H6
//@file ruzstd/src/fse/fse_encoder.rs
//@module
#[cfg(any(kani, killingspark_zstd_rs_verif))]
#[allow(dead_code, unreachable_pub, static_mut_refs)]
pub(crate) mod verif_f6 {
    use super::*;
    use super::verif_fse_dummy::dummy;
    use crate::verif_spec::vk;

    pub(crate) static mut P_CALLS: u32 = 0;
    pub(crate) static mut P_LEN: usize = 0;
    pub(crate) static mut P_PROBS: [i32; 4] = [0; 4];
    pub(crate) static mut P_LOG: u8 = 0;

    /// contract stub of build_table_from_probabilities: records the distribution it is handed (its own contract - the table is the
    /// decoder's table for that distribution - is F5, not built); asserts the precondition "a valid normalised distribution"
    pub(crate) fn stub_build_from_probs(probs: &[i32], acc_log: u8) -> FSETable {
        unsafe {
            P_CALLS += 1;
            P_LEN = probs.len();
            P_LOG = acc_log;
            assert!(probs.len() <= 4);
            let mut sum: i64 = 0;
            let mut i = 0;
            while i < probs.len() {
                P_PROBS[i] = probs[i];
                assert!(probs[i] >= -1, "F6: probability below -1 handed to the table builder");
                sum += if probs[i] == -1 { 1 } else { probs[i] as i64 };
                i += 1;
            }
            assert!(acc_log >= 5 && acc_log <= 20, "F6: accuracy log out of range");
            assert!(sum == 1i64 << acc_log, "F6: normalised probabilities must sum to 2^accuracy_log");
        }
        dummy()
    }

    /// F6: histograms of N symbols (N concrete per harness: a symbolic slice length makes every iterator loop bound symbolic and
    /// exhausts CBMC) with symbolic counts <= 40, at least one non-zero; production parameters (zero-bit avoidance on)
    pub(crate) fn f6_body<const N: usize, const MAXLOG: u8>() {
        let counts: [usize; N] = vk::any();
        let mut i = 0;
        let mut some = false;
        while i < N { vk::assume(counts[i] <= 40); if counts[i] > 0 { some = true; } i += 1; }
        vk::assume(some);
        unsafe { P_CALLS = 0; }
        let t = build_table_from_counts(&counts[..], MAXLOG, true);
        core::mem::forget(t);
        unsafe {
            assert!(P_CALLS == 1 && P_LEN == N && P_LOG <= MAXLOG, "F6: accuracy log must not exceed the maximum for this code type");
            let mut i = 0;
            let mut maxp = 0i32;
            while i < N {
                if counts[i] > 0 { assert!(P_PROBS[i] >= 1, "F6: a symbol that occurs must keep probability >= 1"); }
                if P_PROBS[i] > maxp { maxp = P_PROBS[i]; }
                i += 1;
            }
            assert!(maxp <= 1 << (P_LOG - 1), "F6: zero-bit avoidance: no probability above half the table");
        }
    }
    macro_rules! f6 {
        ($name:ident, $n:expr, $ml:expr) => {
            #[cfg(kani)]
            #[kani::proof]
            #[kani::unwind(8)]
            #[kani::stub(super::build_table_from_probabilities, stub_build_from_probs)]
            fn $name() { f6_body::<$n, $ml>(); }
        };
    }
    f6!(f6_counts2_log5, 2, 5);
    f6!(f6_counts2_log6, 2, 6);
    f6!(f6_counts3_log5, 3, 5);
    f6!(f6_counts3_log9, 3, 9);

    pub(crate) static mut C_CALLS: u32 = 0;
    pub(crate) static mut C_LEN: usize = 0;
    pub(crate) static mut C_COUNTS: [usize; 4] = [0; 4];
    /// contract stub of build_table_from_counts: asserts its precondition - a histogram of AT LEAST TWO symbols (with a single symbol the
    /// zero-bit-avoidance step has nowhere to move probability to and panics: defect F4) - and records what it got
    pub(crate) fn stub_from_counts(counts: &[usize], _max_log: u8, _avoid: bool) -> FSETable {
        unsafe {
            C_CALLS += 1;
            C_LEN = counts.len();
            assert!(counts.len() >= 2, "F6/F4: build_table_from_counts needs a histogram of at least two symbols");
            let mut i = 0;
            while i < 4 && i < counts.len() { C_COUNTS[i] = counts[i]; i += 1; }
        }
        dummy()
    }

    /// build_table_from_data: histogram of the data, cut after the largest used symbol but never below two symbols (F4 regression:
    /// data that only uses symbol 0, e.g. all literal lengths 0). Data is CONCRETE per harness (symbolic data makes the 256-entry
    /// histogram symbolic and exhausts CBMC): a bounded execution of the real function against the callee's contract stub
    pub(crate) fn data_body<const SYM: u8, const N: usize>() {
        let data = [SYM; N];
        unsafe { C_CALLS = 0; }
        let t = build_table_from_data(data.iter().copied(), 9, true);
        core::mem::forget(t);
        unsafe {
            assert!(C_CALLS == 1 && C_LEN == if SYM < 1 { 2 } else { SYM as usize + 1 }, "F6: the histogram is cut after the largest used symbol, never below two symbols");
            let mut i = 0;
            while i < C_LEN { assert!(C_COUNTS[i] == if i == SYM as usize { N } else { 0 }, "F6: histogram counts"); i += 1; }
        }
    }
    macro_rules! f6d {
        ($name:ident, $s:expr, $n:expr) => {
            #[cfg(kani)]
            #[kani::proof]
            #[kani::unwind(258)]
            #[kani::stub(super::build_table_from_counts, stub_from_counts)]
            fn $name() { data_body::<$s, $n>(); }
        };
    }
    f6d!(f6_data_only_symbol0, 0, 3);
    f6d!(f6_data_only_symbol2, 2, 1);
}
//@end
//@harness f6_counts2_log5 kind=proof fn=fse_encoder::build_table_from_counts props=C12,C16,C02 tier=quick bound="2 symbols, symbolic counts <= 40, max_log 5, zero-bit avoidance on" timeout=1500
//@harness f6_counts2_log6 kind=proof fn=fse_encoder::build_table_from_counts props=C12,C16,C02 tier=quick bound="2 symbols, symbolic counts <= 40, max_log 6, zero-bit avoidance on" timeout=1500
//@harness f6_counts3_log5 kind=proof fn=fse_encoder::build_table_from_counts props=C12,C16,C02 tier=quick bound="3 symbols, symbolic counts <= 40, max_log 5, zero-bit avoidance on" timeout=1500
//@harness f6_counts3_log9 kind=proof fn=fse_encoder::build_table_from_counts props=C12,C16,C02 tier=quick bound="3 symbols, symbolic counts <= 40, max_log 9, zero-bit avoidance on" timeout=1500
//@assume build_table_from_probabilities (encoder state table construction) is replaced by a recording contract stub in f6_*: F5 (encoder tables equal decoder tables) is not built
//@assume in f6_data_* build_table_from_counts is a contract stub (precondition: at least two symbols, F4); its own obligations are f6_counts*
//@harness f6_data_only_symbol0 kind=proof fn=fse_encoder::build_table_from_data props=C16,C12 tier=quick bound="CONCRETE data: three symbols 0 (the F4 regression input); callee build_table_from_counts is a contract stub asserting its precondition (>= 2 symbols)" timeout=1500
//@harness f6_data_only_symbol2 kind=proof fn=fse_encoder::build_table_from_data props=C16,C12 tier=quick bound="CONCRETE data: one symbol 2; callee is a contract stub" timeout=1500
