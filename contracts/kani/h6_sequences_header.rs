//@unit H6 : SequencesHeader::parse_from_header / CompressionModes equal RFC 8878 3.1.1.3.2.1 for every 4-byte prefix and source length; encode_seqnum and encode_fse_table_modes are their right inverses
//@file ruzstd/src/blocks/sequence_section.rs
//@module
#[cfg(any(kani, killingspark_zstd_rs_verif))]
#[allow(dead_code, unreachable_pub)]
pub(crate) mod verif_h6 {
    use super::*;
    use crate::verif_spec::hdr::*;
    use crate::verif_spec::vk;

    pub(crate) fn mode_num(m: ModeType) -> u8 {
        match m { ModeType::Predefined => 0, ModeType::RLE => 1, ModeType::FSECompressed => 2, ModeType::Repeat => 3 }
    }

    /// H6: every source of length 0..=6 (the parser looks at no more than 4 bytes)
    #[cfg_attr(kani, kani::proof)]
    #[cfg_attr(killingspark_zstd_rs_verif, no_mangle)]
    pub fn h6_parse_sequences_header() {
        let bytes: [u8; 6] = vk::any();
        let len: usize = vk::any();
        vk::assume(len <= 6);
        let mut h = SequencesHeader::new();
        let r = h.parse_from_header(&bytes[..len]);
        let mut b4 = [0u8; 4];
        let mut i = 0;
        while i < 4 { if i < len { b4[i] = bytes[i]; } i += 1; }
        match spec_seq_header(b4, len) {
            None => assert!(matches!(r, Err(SequencesHeaderParseError::NotEnoughBytes { .. })), "H6: truncated sequences header must be rejected"),
            Some(s) => {
                let n = match r { Ok(n) => n, Err(_) => { assert!(false, "H6: complete sequences header rejected"); return; } };
                assert!(n as usize == s.consumed, "H6: bytes consumed by the sequences header");
                assert!(h.num_sequences == s.num, "H6: Number_of_Sequences");
                match s.modes_at {
                    None => assert!(h.modes.is_none(), "H6: no modes byte when there are no sequences"),
                    Some(at) => {
                        let m = match h.modes { Some(m) => m, None => { assert!(false, "H6: modes byte missing"); return; } };
                        let b = bytes[at];
                        assert!(mode_num(m.ll_mode()) == b >> 6, "H7: Literals_Lengths_Mode is bits 7-6");
                        assert!(mode_num(m.of_mode()) == (b >> 4) & 3, "H7: Offsets_Mode is bits 5-4");
                        assert!(mode_num(m.ml_mode()) == (b >> 2) & 3, "H7: Match_Lengths_Mode is bits 3-2");
                    }
                }
            }
        }
    }

    #[cfg(kani)]
    #[kani::proof]
    fn h6_cover() {
        let bytes: [u8; 4] = kani::any();
        let len: usize = kani::any();
        kani::assume(len <= 4);
        let mut h = SequencesHeader::new();
        let r = h.parse_from_header(&bytes[..len]);
        kani::cover!(r.is_err() && len == 3);
        kani::cover!(matches!(r, Ok(4)) && h.num_sequences == 0x7F00 + 0xFFFF);
        kani::cover!(matches!(r, Ok(3)) && h.num_sequences == 0x7EFF);
        kani::cover!(matches!(r, Ok(2)) && h.num_sequences == 0 && bytes[0] == 128);
        kani::cover!(matches!(r, Ok(1)));
    }

    /// canary: false claim "the long form is big-endian"
    #[cfg(kani)]
    #[kani::proof]
    fn h6_canary() {
        let bytes: [u8; 4] = kani::any();
        let mut h = SequencesHeader::new();
        if h.parse_from_header(&bytes[..]).is_ok() && bytes[0] == 255 {
            assert!(h.num_sequences == ((bytes[1] as u32) << 8) + bytes[2] as u32 + 0x7F00);
        }
    }
}
//@end
//@file ruzstd/src/encoding/blocks/compressed.rs
//@module
#[cfg(any(kani, killingspark_zstd_rs_verif))]
#[allow(dead_code, unreachable_pub)]
pub(crate) mod verif_h6e {
    use super::*;
    use crate::blocks::sequence_section::{SequencesHeader, verif_h6::mode_num};
    use crate::verif_spec::vk;

    /// H6': for every sequence count a block can hold (1 ..= 0xFFFF + 0x7F00) the bytes written by encode_seqnum,
    /// followed by a modes byte, parse back to the same count, consuming exactly the bytes written plus the modes byte
    #[cfg_attr(kani, kani::proof)]
    #[cfg_attr(kani, kani::unwind(10))]
    #[cfg_attr(killingspark_zstd_rs_verif, no_mangle)]
    pub fn h6_encode_seqnum_roundtrip() {
        let n: usize = vk::any();
        vk::assume(n >= 1 && n <= 0xFFFF + 0x7F00);
        let modes: u8 = vk::any();
        let mut out: Vec<u8> = Vec::new();
        {
            let mut w = BitWriter::from(&mut out);
            encode_seqnum(n, &mut w);
            w.write_bits(modes, 8);
            w.flush();
        }
        let mut h = SequencesHeader::new();
        let r = h.parse_from_header(&out);
        match r {
            Ok(used) => {
                assert!(h.num_sequences as usize == n, "H6': sequence count written by the compressor does not parse back");
                assert!(used as usize == out.len(), "H6': sequences header length mismatch between writer and parser");
            }
            Err(_) => assert!(false, "H6': sequences header written by the compressor is rejected"),
        }
    }

    fn pick3() -> (u8, u8, u8) {
        let (a, b, c): (u8, u8, u8) = (vk::any(), vk::any(), vk::any());
        vk::assume(a < 3 && b < 3 && c < 3);
        (a, b, c)
    }

    /// H7': the modes byte written for (ll, of, ml) decodes to the same three modes
    #[cfg_attr(kani, kani::proof)]
    #[cfg_attr(kani, kani::unwind(4))]
    #[cfg_attr(killingspark_zstd_rs_verif, no_mangle)]
    pub fn h7_modes_roundtrip() {
        use crate::fse::fse_encoder::verif_fse_dummy::dummy;
        // all 27 combinations of (Predefined | RepeatLast | Encoded)^3, enumerated concretely (exhaustive);
        // under native replay the single recorded choice is replayed instead
        let t = dummy();
        let (a, b, c): (u8, u8, u8) = pick3();
        let mk = |k: u8| -> FseTableMode<'_> {
            match k {
                0 => FseTableMode::Predefined(&t),
                1 => FseTableMode::RepeateLast(&t),
                // bitwise duplicate of an empty table; never dropped (forgotten below)
                _ => FseTableMode::Encoded(unsafe { core::ptr::read(&t) }),
            }
        };
        let (ll, ml, of) = (mk(a), mk(b), mk(c));
        let byte = encode_fse_table_modes(&ll, &ml, &of);
        core::mem::forget(ll);
        core::mem::forget(ml);
        core::mem::forget(of);
        let bytes = [1u8, byte];
        let mut h = SequencesHeader::new();
        assert!(h.parse_from_header(&bytes).is_ok());
        let m = h.modes.unwrap();
        let want = |k: u8| -> u8 { match k { 0 => 0, 1 => 3, _ => 2 } };
        assert!(mode_num(m.ll_mode()) == want(a), "H7': literal-length mode does not round-trip");
        assert!(mode_num(m.ml_mode()) == want(b), "H7': match-length mode does not round-trip");
        assert!(mode_num(m.of_mode()) == want(c), "H7': offset mode does not round-trip");
        assert!(byte & 3 == 0, "H7': reserved bits of the modes byte must be zero");
        core::mem::forget(t);
    }
}
//@end
//@file ruzstd/src/fse/fse_encoder.rs
//@module
#[cfg(any(kani, killingspark_zstd_rs_verif))]
#[allow(dead_code, unreachable_pub)]
pub(crate) mod verif_fse_dummy {
    use super::*;
    /// an empty encoder table (no states) for harnesses that only need a value of the type; built from a const so that no
    /// 256-iteration initialisation loop enters the proofs
    const EMPTY_STATES: SymbolStates = SymbolStates { states: Vec::new(), probability: 0 };
    pub(crate) fn dummy() -> FSETable {
        FSETable { states: [EMPTY_STATES; 256], table_size: 0 }
    }
}
//@end
//@harness h6_parse_sequences_header kind=proof fn=SequencesHeader::parse_from_header,CompressionModes::ll_mode,CompressionModes::of_mode,CompressionModes::ml_mode,CompressionModes::decode_mode props=C14,C01,C03 tier=quick complete=yes witness=h6_parse_sequences_header
//@harness h6_cover kind=cover props=C14 tier=quick
//@harness h6_canary kind=canary props=C14 tier=quick
//@harness h6_encode_seqnum_roundtrip kind=proof fn=encode_seqnum,SequencesHeader::parse_from_header props=C14,C16,C02 tier=quick complete=yes witness=h6_encode_seqnum_roundtrip
//@harness h7_modes_roundtrip kind=proof fn=encode_fse_table_modes,CompressionModes::decode_mode props=C14,C02 tier=quick complete=yes witness=h7_modes_roundtrip
