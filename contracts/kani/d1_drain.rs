//@unit D1 : every path that removes bytes from the window (drain_to and its users) hands out a prefix of the queue in order, removes exactly the bytes the sink accepted (also on the error path), and feeds the hasher exactly those bytes
//@needs R2
//@file ruzstd/src/decoding/decode_buffer.rs
//@module
#[cfg(any(kani, killingspark_zstd_rs_verif))]
#[allow(dead_code, unreachable_pub, unused_imports)]
pub(crate) mod verif_d1 {
    use super::*;
    use super::super::ringbuffer::verif_r2::{any_rb, cap_of, head_of, old_get, qget, qlen, wf};
    use crate::verif_spec::vk;
    use crate::io::ErrorKind;

    pub(crate) const LOG: usize = 16;

    /// an arbitrary DecodeBuffer over a ring of capacity CAP in an arbitrary invariant state, fresh hasher
    pub(crate) fn any_db<const CAP: usize>() -> (DecodeBuffer, [u8; CAP]) {
        let (rb, mem) = any_rb::<CAP>();
        let db = DecodeBuffer {
            buffer: rb,
            dict_content: Vec::new(),
            window_size: vk::any(),
            total_output_counter: vk::any(),
            #[cfg(feature = "hash")]
            hash: twox_hash::XxHash64::with_seed(0),
        };
        (db, mem)
    }
    pub(crate) fn view0<const CAP: usize>(mem: &[u8; CAP], head: usize, i: usize) -> u8 {
        old_get(mem, head, i)
    }

    /// the hasher is in exactly the state of a fresh XXH64 (seed 0) hasher that absorbed the first k bytes of the old view in one
    /// piece. State equality (twox-hash derives PartialEq: seed, accumulators, 32-byte buffer, length) implies equal digests and
    /// avoids XXH64's 64-bit multiplications in the proof; for < 32 absorbed bytes the state is independent of how writes were chunked.
    #[cfg(feature = "hash")]
    pub(crate) fn hash_is<const CAP: usize>(h: &twox_hash::XxHash64, mem: &[u8; CAP], head: usize, k: usize) -> bool {
        let mut lin = [0u8; CAP];
        let mut i = 0;
        while i < k {
            lin[i] = old_get(mem, head, i);
            i += 1;
        }
        let mut r = twox_hash::XxHash64::with_seed(0);
        r.write(&lin[..k]);
        *h == r
    }

    /// D1: drain_to with a sink that accepts k1 <= n1 bytes (and may fail), then - only after a complete first part - k2 <= n2
    pub(crate) fn d1_body<const CAP: usize>() {
        let (mut db, mem) = any_db::<CAP>();
        let (h0, l0) = (head_of(&db.buffer), qlen(&db.buffer));
        let amount: usize = vk::any();
        vk::assume(amount <= l0);
        let (acc1, acc2): (usize, usize) = (vk::any(), vk::any());
        let (fail1, fail2): (bool, bool) = (vk::any(), vk::any());
        let mut log = [0u8; LOG];
        let mut logged = 0usize;
        let mut calls = 0usize;
        let mut offered = [0usize; 2];
        let r = db.drain_to(amount, |buf: &[u8]| {
            let (acc, fail) = if calls == 0 { (acc1, fail1) } else { (acc2, fail2) };
            if calls < 2 {
                offered[calls] = buf.len();
            }
            calls += 1;
            let k = if acc < buf.len() { acc } else { buf.len() };
            if logged + k <= LOG {
                log[logged..logged + k].copy_from_slice(&buf[..k]);
            }
            logged += k;
            (k, if fail { Err(Error::from(ErrorKind::Other)) } else { Ok(()) })
        });
        // what the two ring segments are
        let s1 = if cap_of(&db.buffer) == 0 { 0 } else if h0 + l0 <= CAP { l0 } else { CAP - h0 };
        let n1 = if s1 < amount { s1 } else { amount };
        let n2 = amount - n1;
        assert!(calls <= 2, "D1: the sink is called at most once per ring segment");
        if amount == 0 {
            assert!(calls == 0 && matches!(r, Ok(0)), "D1: draining nothing must not touch the sink");
        } else {
            assert!(calls >= 1 && offered[0] == n1, "D1: first offer must be the first ring segment, capped by amount");
            let k1 = if acc1 < n1 { acc1 } else { n1 };
            let second = !fail1 && k1 == n1 && n2 != 0;
            assert!((calls == 2) == second, "D1: the second segment is offered only after the first was taken completely and without error");
            let k2 = if second { if acc2 < n2 { acc2 } else { n2 } } else { 0 };
            if second {
                assert!(offered[1] == n2, "D1: second offer must be the second ring segment, capped by the remaining amount");
            }
            let k = k1 + k2;
            assert!(logged == k, "D1: bytes taken by the sink");
            let failed = fail1 || (second && fail2);
            if failed {
                assert!(r.is_err(), "D1: a sink error must be reported");
            } else {
                assert!(matches!(r, Ok(x) if x == k), "D1: drain_to must return the number of bytes the sink accepted");
            }
            // exactly the accepted bytes leave the window - also on the error path (the drain guard)
            assert!(wf(&db.buffer) && qlen(&db.buffer) == l0 - k, "D1: exactly the accepted bytes must be dropped from the front, also when the sink fails");
            let i: usize = vk::any();
            if i < k {
                assert!(log[i] == view0(&mem, h0, i), "D1: the sink must receive the queue's bytes in order");
            }
            let j: usize = vk::any();
            if j < l0 - k {
                assert!(qget(&db.buffer, j) == view0(&mem, h0, k + j), "D1: the bytes that stay must be view[k..]");
            }
            #[cfg(feature = "hash")]
            assert!(hash_is(&db.hash, &mem, h0, k), "D1: the hasher must absorb exactly the bytes handed out, in order");
        }
        core::mem::forget(r);
    }

    /// D2: the public drains in terms of the same statement (sinks that take everything)
    pub(crate) fn d2_body<const CAP: usize, const WHICH: u8>() {
        let (mut db, mem) = any_db::<CAP>();
        let (h0, l0) = (head_of(&db.buffer), qlen(&db.buffer));
        let w = db.window_size;
        let which: u8 = WHICH;
        let i: usize = vk::any();
        let over = if l0 > w { l0 - w } else { 0 };
        assert!(db.can_drain() == l0, "D2: can_drain");
        assert!(db.can_drain_to_window_size() == if l0 > w { Some(l0 - w) } else { None }, "D2: can_drain_to_window_size");
        assert!(db.len() == l0, "D2: len");
        let mut target = [0u8; CAP];
        let tl: usize = vk::any();
        vk::assume(tl <= CAP);
        let k;
        if which == 0 {
            // full drain
            let v = db.drain();
            k = l0;
            assert!(v.len() == l0, "D2: drain returns the whole view");
            if i < k { assert!(v[i] == view0(&mem, h0, i), "D2: drain returns the view in order"); }
            core::mem::forget(v);
        } else if which == 1 {
            let v = db.drain_to_window_size();
            k = over;
            if l0 > w {
                let v = match v { Some(v) => v, None => { assert!(false, "D2: drain_to_window_size must return the excess"); return; } };
                assert!(v.len() == over, "D2: drain_to_window_size returns len - window bytes");
                if i < k { assert!(v[i] == view0(&mem, h0, i), "D2: drain_to_window_size returns a prefix of the view"); }
                core::mem::forget(v);
            } else {
                assert!(v.is_none(), "D2: nothing to drain while len <= window");
            }
        } else if which == 2 {
            // Read impl: never below the window
            let r = db.read(&mut target[..tl]);
            k = if over < tl { over } else { tl };
            assert!(matches!(r, Ok(x) if x == k), "D2: read returns min(excess over window, target length)");
            if i < k { assert!(target[i] == view0(&mem, h0, i), "D2: read copies a prefix of the view"); }
            core::mem::forget(r);
        } else {
            let r = db.read_all(&mut target[..tl]);
            k = if l0 < tl { l0 } else { tl };
            assert!(matches!(r, Ok(x) if x == k), "D2: read_all returns min(len, target length)");
            if i < k { assert!(target[i] == view0(&mem, h0, i), "D2: read_all copies a prefix of the view"); }
            core::mem::forget(r);
        }
        assert!(wf(&db.buffer) && qlen(&db.buffer) == l0 - k, "D2: exactly the returned bytes leave the window");
        if which == 1 || which == 2 {
            assert!(qlen(&db.buffer) >= if l0 < w { l0 } else { w }, "D2: window-retaining drains keep min(len, window) bytes");
        }
        let j: usize = vk::any();
        if j < l0 - k {
            assert!(qget(&db.buffer, j) == view0(&mem, h0, k + j), "D2: the bytes that stay are view[k..]");
        }
        #[cfg(feature = "hash")]
        assert!(hash_is(&db.hash, &mem, h0, k), "D2: the hasher absorbs exactly the returned bytes (both ring segments)");
    }

    /// writer-based drains with a sink that accepts `chunk` bytes per call and fails after `ok_calls` calls
    pub(crate) struct Sink {
        pub log: [u8; LOG],
        pub n: usize,
        pub chunk: usize,
        pub ok_calls: usize,
        pub calls: usize,
    }
    impl crate::io::Write for Sink {
        fn write(&mut self, buf: &[u8]) -> Result<usize, Error> {
            if self.calls >= self.ok_calls {
                return Err(Error::from(ErrorKind::Other));
            }
            self.calls += 1;
            let k = if self.chunk < buf.len() { self.chunk } else { buf.len() };
            if self.n + k <= LOG {
                self.log[self.n..self.n + k].copy_from_slice(&buf[..k]);
            }
            self.n += k;
            Ok(k)
        }
        fn flush(&mut self) -> Result<(), Error> { Ok(()) }
    }
    pub(crate) fn d2w_body<const CAP: usize>() {
        let (mut db, mem) = any_db::<CAP>();
        let (h0, l0) = (head_of(&db.buffer), qlen(&db.buffer));
        let w = db.window_size;
        let mut sink = Sink { log: [0; LOG], n: 0, chunk: vk::any(), ok_calls: vk::any(), calls: 0 };
        vk::assume(sink.chunk >= 1 && sink.chunk <= CAP && sink.ok_calls <= CAP && sink.chunk * 3 >= CAP); // at most 3 writes per segment
        let to_window: bool = vk::any();
        let limit = if to_window { if l0 > w { l0 - w } else { 0 } } else { l0 };
        let r = if to_window { db.drain_to_window_size_writer(&mut sink) } else { db.drain_to_writer(&mut sink) };
        let k = sink.n;
        assert!(k <= limit, "D2: writer drains never hand out more than allowed (window retention)");
        match &r {
            Ok(x) => assert!(*x == k && k == limit, "D2: Ok(n) means all n == limit bytes were written"),
            Err(_) => assert!(k < limit || limit == 0 || sink.calls == sink.ok_calls, "D2: error only when the sink failed"),
        }
        assert!(wf(&db.buffer) && qlen(&db.buffer) == l0 - k, "D2: exactly the bytes the writer took leave the window, also on error");
        let i: usize = vk::any();
        if i < k { assert!(sink.log[i] == view0(&mem, h0, i), "D2: the writer receives a prefix of the view in order"); }
        let j: usize = vk::any();
        if j < l0 - k { assert!(qget(&db.buffer, j) == view0(&mem, h0, k + j), "D2: bytes that stay are view[k..]"); }
        // (hash absorption on this path is D1's statement: these two functions only choose `amount` and pass write_all_bytes as the sink)
        core::mem::forget(r);
    }

    macro_rules! harness {
        ($name:ident, $unw:expr, $body:expr) => {
            #[cfg_attr(kani, kani::proof)]
            #[cfg_attr(kani, kani::unwind($unw))]
            #[cfg_attr(killingspark_zstd_rs_verif, no_mangle)]
            pub fn $name() {
                $body
            }
        };
    }
    harness!(d1_drain_to_5, 34, d1_body::<5>());
    harness!(d1_drain_to_9, 34, d1_body::<9>());
    harness!(d2_drain_5, 34, d2_body::<5, 0>());
    harness!(d2_drain_window_5, 34, d2_body::<5, 1>());
    harness!(d2_read_5, 34, d2_body::<5, 2>());
    harness!(d2_read_all_5, 34, d2_body::<5, 3>());
    harness!(d2_drain_9, 34, d2_body::<9, 0>());
    harness!(d2_read_9, 34, d2_body::<9, 2>());
    harness!(d2_writer_drains_5, 7, d2w_body::<5>());

    /// reset / new: empty view, counters zero, no dictionary, fresh hash, window installed - from ANY prior state
    #[cfg_attr(kani, kani::proof)]
    #[cfg_attr(kani, kani::unwind(34))]
    #[cfg_attr(killingspark_zstd_rs_verif, no_mangle)]
    pub fn d2_reset() {
        let (mut db, _mem) = any_db::<5>();
        db.dict_content = alloc::vec![vk::any(), vk::any()];
        #[cfg(feature = "hash")]
        {
            let junk: [u8; 3] = vk::any();
            db.hash.write(&junk);
        }
        let w: usize = vk::any();
        vk::assume(w <= 20);
        db.reset(w);
        assert!(db.window_size == w && db.total_output_counter == 0 && db.dict_content.is_empty(), "D2: reset must clear counters and dictionary and install the window");
        assert!(wf(&db.buffer) && db.len() == 0, "D2: reset must empty the window");
        assert!(db.buffer.free() >= w, "D2: reset reserves the window");
        #[cfg(feature = "hash")]
        assert!(db.hash == twox_hash::XxHash64::with_seed(0), "D2: reset must start a fresh hash");
        let fresh = DecodeBuffer::new(w);
        assert!(fresh.window_size == w && fresh.total_output_counter == 0 && fresh.dict_content.is_empty() && fresh.len() == 0, "D2: new");
    }

    #[cfg(kani)]
    #[kani::proof]
    #[kani::unwind(12)]
    fn d1_cover() {
        let (mut db, _mem) = any_db::<9>();
        let (h0, l0) = (head_of(&db.buffer), qlen(&db.buffer));
        let amount: usize = kani::any();
        kani::assume(amount <= l0);
        let mut calls = 0;
        let fail2: bool = kani::any();
        let r = db.drain_to(amount, |buf: &[u8]| {
            calls += 1;
            (buf.len(), if calls == 2 && fail2 { Err(Error::from(ErrorKind::Other)) } else { Ok(()) })
        });
        kani::cover!(calls == 2 && r.is_ok() && amount == 8, "both segments, full drain");
        kani::cover!(calls == 2 && r.is_err(), "error on the second segment");
        kani::cover!(calls == 1 && h0 + l0 > 9, "wrapped but amount within first segment");
        core::mem::forget(r);
    }

    /// canary: false claim that a failing sink leaves the window untouched
    #[cfg(kani)]
    #[kani::proof]
    #[kani::unwind(8)]
    fn d1_canary() {
        let (mut db, _mem) = any_db::<5>();
        let l0 = qlen(&db.buffer);
        let r = db.drain_to(l0, |buf: &[u8]| (buf.len(), Err(Error::from(ErrorKind::Other))));
        assert!(qlen(&db.buffer) == l0);
        core::mem::forget(r);
    }
}
//@end
//@harness d1_drain_to_5 kind=proof fn=DecodeBuffer::drain_to,DrainGuard::drop props=C06,C08 tier=quick bound="ring capacity 5" witness=d1_drain_to_5 timeout=900
//@harness d1_drain_to_9 kind=proof fn=DecodeBuffer::drain_to,DrainGuard::drop props=C06,C08 tier=thorough bound="ring capacity 9" witness=d1_drain_to_9 timeout=1200
//@harness d2_drain_5 kind=proof fn=DecodeBuffer::drain,DecodeBuffer::can_drain,DecodeBuffer::len props=C06,C08 tier=quick bound="ring capacity 5" witness=d2_drain_5 timeout=900
//@harness d2_drain_window_5 kind=proof fn=DecodeBuffer::drain_to_window_size,DecodeBuffer::can_drain_to_window_size props=C06,C08,C05 tier=quick bound="ring capacity 5" witness=d2_drain_window_5 timeout=900
//@harness d2_read_5 kind=proof fn=DecodeBuffer::read props=C06,C08,C05 tier=quick bound="ring capacity 5" witness=d2_read_5 timeout=900
//@harness d2_read_all_5 kind=proof fn=DecodeBuffer::read_all props=C06,C08 tier=quick bound="ring capacity 5" witness=d2_read_all_5 timeout=900
//@harness d2_drain_9 kind=proof fn=DecodeBuffer::drain props=C06,C08 tier=thorough bound="ring capacity 9" witness=d2_drain_9 timeout=1800
//@harness d2_read_9 kind=proof fn=DecodeBuffer::read props=C06,C08 tier=thorough bound="ring capacity 9" witness=d2_read_9 timeout=1800
//@harness d2_writer_drains_5 kind=proof fn=DecodeBuffer::drain_to_writer,DecodeBuffer::drain_to_window_size_writer,write_all_bytes props=C06,C08 tier=thorough bound="ring capacity 5, writer that takes `chunk` bytes per call and fails after a symbolic number of calls" witness=d2_writer_drains_5 timeout=900
//@harness d2_reset kind=proof fn=DecodeBuffer::reset,DecodeBuffer::new props=C07,C08,C09 tier=quick bound="ring capacity 5, window <= 20" witness=d2_reset timeout=900
//@harness d1_cover kind=cover props=C06,C08 tier=quick
//@harness d1_canary kind=canary props=C06,C08 tier=quick
//@assume twox-hash computes XXH64 (it is the reference the hasher state is compared with)
