//@unit FD3 : FrameDecoder::decode_all / decode_all_to_vec: frames and skippable frames are consumed in order and exactly, the total written is returned, an undersized target and a truncated skippable frame are errors, decode_all_to_vec never changes the vector's length on error nor its capacity
//@needs H4 FD4
//@file ruzstd/src/decoding/frame_decoder.rs
//@module
#[cfg(any(kani, killingspark_zstd_rs_verif))]
#[allow(dead_code, unreachable_pub, static_mut_refs)]
pub(crate) mod verif_fd3 {
    use super::*;
    use crate::decoding::errors::ReadFrameHeaderError;
    use crate::verif_spec::vk;

    pub(crate) const NF: usize = 2;
    // script: what the next "frames" in the input are
    pub(crate) static mut F_SKIP: [bool; NF] = [false; NF];   // skippable frame?
    pub(crate) static mut F_SKIPLEN: [u32; NF] = [0; NF];     // its declared length
    pub(crate) static mut F_HDR: [usize; NF] = [0; NF];       // header bytes init() consumes (regular frame)
    pub(crate) static mut F_BODY: [usize; NF] = [0; NF];      // bytes one decode_blocks call consumes
    pub(crate) static mut F_OUT: [usize; NF] = [0; NF];       // bytes that call makes available
    pub(crate) static mut F_BADHDR: [bool; NF] = [false; NF]; // init fails with a non-skip error
    // ghost state of the stubbed decoder
    pub(crate) static mut G_FRAME: usize = 0;      // next frame index for init
    pub(crate) static mut G_AVAIL: usize = 0;      // bytes waiting in the decode buffer
    pub(crate) static mut G_FINISHED: bool = true;
    pub(crate) static mut G_INITS: usize = 0;

    fn take<R: Read>(mut r: R, n: usize) -> bool {
        let mut tmp = [0u8; 16];
        r.read_exact(&mut tmp[..n]).is_ok()
    }
    fn stub_init<R: Read>(_d: &mut FrameDecoder, source: R) -> Result<(), FrameDecoderError> {
        unsafe {
            let i = G_FRAME;
            assert!(i < NF);
            assert!(G_FINISHED && G_AVAIL == 0, "FD3: a new frame may only be started after the previous one was finished and drained");
            G_INITS += 1;
            if F_SKIP[i] {
                if !take(source, 8) { return Err(FrameDecoderError::NotYetInitialized); }
                G_FRAME += 1;
                return Err(FrameDecoderError::ReadFrameHeaderError(ReadFrameHeaderError::SkipFrame { magic_number: 0x184D2A50, length: F_SKIPLEN[i] }));
            }
            if F_BADHDR[i] { return Err(FrameDecoderError::NotYetInitialized); }
            if !take(source, F_HDR[i]) { return Err(FrameDecoderError::NotYetInitialized); }
            G_FINISHED = false;
            Ok(())
        }
    }
    fn stub_decode_blocks<R: Read>(_d: &mut FrameDecoder, source: R, _s: BlockDecodingStrategy) -> Result<bool, FrameDecoderError> {
        unsafe {
            let i = G_FRAME;
            assert!(!G_FINISHED, "FD3: decode_blocks on a finished frame");
            if !take(source, F_BODY[i]) { return Err(FrameDecoderError::NotYetInitialized); }
            G_AVAIL += F_OUT[i];
            G_FINISHED = true; // one call finishes the scripted frame
            G_FRAME += 1;
            Ok(true)
        }
    }
    fn stub_read(_d: &mut FrameDecoder, target: &mut [u8]) -> Result<usize, Error> {
        unsafe {
            let n = if G_AVAIL < target.len() { G_AVAIL } else { target.len() };
            let mut k = 0;
            while k < n { target[k] = 0xAB; k += 1; }
            G_AVAIL -= n;
            Ok(n)
        }
    }
    fn stub_can_collect(_d: &FrameDecoder) -> usize { unsafe { G_AVAIL } }
    fn stub_is_finished(_d: &FrameDecoder) -> bool { unsafe { G_FINISHED } }

    #[cfg(kani)]
    #[kani::proof]
    #[kani::unwind(10)]
    #[kani::stub(FrameDecoder::init, stub_init)]
    #[kani::stub(FrameDecoder::decode_blocks, stub_decode_blocks)]
    #[kani::stub(<crate::decoding::frame_decoder::FrameDecoder as crate::io::Read>::read, stub_read)]
    #[kani::stub(FrameDecoder::can_collect, stub_can_collect)]
    #[kani::stub(FrameDecoder::is_finished, stub_is_finished)]
    fn fd3_decode_all() {
        unsafe {
            let mut i = 0;
            while i < NF {
                F_SKIP[i] = kani::any(); F_SKIPLEN[i] = kani::any(); F_HDR[i] = kani::any(); F_BODY[i] = kani::any(); F_OUT[i] = kani::any(); F_BADHDR[i] = kani::any();
                kani::assume(F_SKIPLEN[i] <= 2 && F_HDR[i] >= 1 && F_HDR[i] <= 2 && F_BODY[i] >= 1 && F_BODY[i] <= 2 && F_OUT[i] <= 2);
                i += 1;
            }
            G_FRAME = 0; G_AVAIL = 0; G_FINISHED = true; G_INITS = 0;
        }
        let src = [0u8; 14];
        let len: usize = kani::any();
        kani::assume(len <= 14);
        let mut target = [0u8; 3];
        let tl: usize = kani::any();
        kani::assume(tl <= 3);
        let mut d = FrameDecoder::new();
        let r = d.decode_all(&src[..len], &mut target[..tl]);
        // ---- specification from the script ----
        let mut pos = 0usize;
        let mut written = 0usize;
        let mut err = false;
        let mut i = 0;
        while i < NF && pos < len && !err {
            if unsafe { F_SKIP[i] } {
                if len - pos < 8 { err = true; break; }
                pos += 8;
                let l = unsafe { F_SKIPLEN[i] } as usize;
                if len - pos < l { err = true; break; } // truncated skippable frame
                pos += l;
            } else {
                if unsafe { F_BADHDR[i] } { err = true; break; }
                let (h, b, o) = unsafe { (F_HDR[i], F_BODY[i], F_OUT[i]) };
                if len - pos < h { err = true; break; }
                pos += h;
                if len - pos < b { err = true; break; }
                pos += b;
                if tl - written < o { err = true; break; } // target too small
                written += o;
            }
            i += 1;
        }
        if !err && pos < len { /* more than NF frames: out of the bounded script */ kani::assume(false); }
        assert!(r.is_err() == err, "FD3: decode_all fails exactly on a bad/truncated frame, a truncated skippable frame or an undersized target");
        if !err {
            assert!(matches!(r, Ok(n) if n == written), "FD3: decode_all returns the exact number of bytes written");
            let k: usize = kani::any();
            if k < written { assert!(target[k] == 0xAB, "FD3: output is written contiguously from the start of the target"); }
            if k >= written && k < 3 { assert!(target[k] == 0, "FD3: nothing is written beyond the returned count"); }
        }
        core::mem::forget(r);
        core::mem::forget(d);
    }

    /// decode_all_to_vec: on Err the length is unchanged, on Ok it grows by exactly the bytes written, the capacity never changes
    fn stub_decode_all(_d: &mut FrameDecoder, _input: &[u8], output: &mut [u8]) -> Result<usize, FrameDecoderError> {
        unsafe {
            assert!(output.len() == G_AVAIL, "FD3: decode_all_to_vec must offer exactly the spare capacity");
            if G_FINISHED { Ok(G_FRAME) } else { Err(FrameDecoderError::TargetTooSmall) }
        }
    }
    #[cfg(kani)]
    #[kani::proof]
    #[kani::unwind(10)]
    #[kani::stub(FrameDecoder::decode_all, stub_decode_all)]
    fn fd3_decode_all_to_vec() {
        let mut v: Vec<u8> = Vec::with_capacity(6);
        let l0: usize = kani::any();
        kani::assume(l0 <= 6);
        let mut k = 0;
        while k < l0 { v.push(7); k += 1; }
        let cap = v.capacity();
        let ok: bool = kani::any();
        let n: usize = kani::any();
        kani::assume(n <= cap - l0);
        unsafe { G_AVAIL = cap - l0; G_FINISHED = ok; G_FRAME = n; }
        let mut d = FrameDecoder::new();
        let r = d.decode_all_to_vec(&[0u8; 1], &mut v);
        assert!(v.capacity() == cap, "FD3: decode_all_to_vec must not reallocate");
        if ok {
            assert!(r.is_ok() && v.len() == l0 + n, "FD3: on success the length grows by exactly the bytes written");
        } else {
            assert!(r.is_err() && v.len() == l0, "FD3: on error the length is unchanged");
        }
        let j: usize = kani::any();
        if j < l0 { assert!(v[j] == 7, "FD3: existing content is preserved"); }
        core::mem::forget(r);
        core::mem::forget(d);
    }
}
//@end
//@harness fd3_decode_all_to_vec kind=proof fn=FrameDecoder::decode_all_to_vec props=C10 tier=quick bound="vector capacity 6" timeout=1800
//@assume in fd3_* harnesses FrameDecoder::init / decode_blocks / read / can_collect / is_finished (resp. decode_all) are scripted contract stubs: only the multi-frame driver's own logic is examined (their contracts: FD4, FD1, D2, FD7)
//@assume NOT RUN: harness fd3_decode_all (scripted multi-frame input) exhausts CBMC's memory and is not registered; decode_all is PROVED in Verus unit FD3V for every input. Only decode_all_to_vec (Vec::capacity / cmp::min are outside Verus' std specs) is checked here
