//@unit E7 : Kani obligations, on the real functions, for the three contracts Verus unit E7V assumes of code outside Verus' reach: SuffixStore get/insert/contains_key/key (only stored indices come back, insert adds nothing but idx, key in range), common_prefix_len (length, equality, maximality), add_suffixes_till (frame + stored indices in [suffix_idx, idx))
//@file ruzstd/src/encoding/match_generator.rs
//@module
#[cfg(any(kani, killingspark_zstd_rs_verif))]
#[allow(dead_code, unreachable_pub)]
pub(crate) mod verif_e7 {
    use super::*;
    use crate::encoding::{CompressionLevel, Matcher};
    use crate::verif_spec::vk;

    pub(crate) const BLK: usize = 6;
    pub(crate) const HIST: usize = 3 * BLK;

    /// runs one block through the matcher and checks every reported sequence against the reconstruction; returns nothing, panics on violation
    fn one_block(mg: &mut MatchGenerator, hist: &mut [u8; HIST], hist_len: &mut usize, data: &[u8], skip: bool, slots: usize) {
        mg.add_data(data.to_vec(), SuffixStore::with_capacity(slots), |_d, _s| {});
        assert!(mg.window_size <= mg.max_window_size, "E7: retained window exceeds the maximum window");
        let retained_before = mg.window_size - data.len(); // bytes of earlier blocks still in the window
        if skip {
            mg.skip_matching();
        } else {
            let mut recon = [0u8; BLK];
            let mut rlen = 0usize;
            let max_w = mg.max_window_size;
            let base = *hist_len;
            let h: &[u8; HIST] = hist;
            let mut rounds = 0;
            while mg.next_sequence(|seq| {
                let (lits, m) = match seq {
                    Sequence::Literals { literals } => (literals, None),
                    Sequence::Triple { literals, offset, match_len } => (literals, Some((offset, match_len))),
                };
                assert!(rlen + lits.len() <= BLK, "E7: literal runs overrun the block");
                recon[rlen..rlen + lits.len()].copy_from_slice(lits);
                rlen += lits.len();
                if let Some((offset, match_len)) = m {
                    assert!(match_len >= MIN_MATCH_LEN, "E7: reported match shorter than the minimum match length");
                    assert!(offset >= 1 && offset <= max_w, "E7: match distance outside 1..=max_window_size");
                    assert!(offset <= retained_before + rlen, "E7: match reaches before the data retained in the window");
                    assert!(rlen + match_len <= BLK, "E7: match overruns the block");
                    let mut k = 0;
                    while k < match_len {
                        // byte at distance `offset` before the current position, in (history ++ reconstruction so far)
                        let p = base + rlen; // absolute position of the byte being produced
                        let src = p - offset;
                        let b = if src < base { h[src] } else { recon[src - base] };
                        recon[rlen] = b;
                        rlen += 1;
                        k += 1;
                    }
                }
            }) {
                rounds += 1;
                assert!(rounds <= BLK + 1, "E7: more sequences than bytes");
            }
            assert!(rlen == data.len(), "E7: literal runs and matches must tile the block exactly");
            let i: usize = vk::any();
            if i < rlen {
                assert!(recon[i] == data[i], "E7: replaying the reported sequences must reproduce the block (a reported match is not a true match)");
            }
        }
        hist[*hist_len..*hist_len + data.len()].copy_from_slice(data);
        *hist_len += data.len();
    }

    fn any_block() -> ([u8; BLK], usize) {
        let bits: u8 = vk::any();
        let mut d = [0u8; BLK];
        let mut i = 0;
        while i < BLK { d[i] = (bits >> i) & 1; i += 1; } // alphabet {0, 1}: collisions and matches are frequent
        // block lengths are concrete (symbolic lengths make every slice/iterator loop bound symbolic and exhaust CBMC)
        (d, BLK)
    }

    /// two blocks, window of 2 blocks: matches across the block boundary, 8-slot suffix store (hash collisions)
    #[cfg_attr(kani, kani::proof)]
    #[cfg_attr(kani, kani::unwind(10))]
    #[cfg_attr(killingspark_zstd_rs_verif, no_mangle)]
    pub fn e7_two_blocks() {
        let mut mg = MatchGenerator::new(2 * BLK);
        let mut hist = [0u8; HIST];
        let mut hl = 0usize;
        let (d1, n1) = any_block();
        let (d2, n2) = any_block();
        one_block(&mut mg, &mut hist, &mut hl, &d1[..n1], vk::any(), 8);
        one_block(&mut mg, &mut hist, &mut hl, &d2[..n2], false, 8);
        core::mem::forget(mg);
    }

    /// three blocks with a window of ONE block and a bit: eviction happens; then reset and one more block
    #[cfg_attr(kani, kani::proof)]
    #[cfg_attr(kani, kani::unwind(10))]
    #[cfg_attr(killingspark_zstd_rs_verif, no_mangle)]
    pub fn e7_eviction_reset() {
        let mut mg = MatchGenerator::new(BLK + 3);
        let mut hist = [0u8; HIST];
        let mut hl = 0usize;
        let (d1, n1) = any_block();
        let (d2, n2) = any_block();
        one_block(&mut mg, &mut hist, &mut hl, &d1[..n1], true, 8);
        one_block(&mut mg, &mut hist, &mut hl, &d2[..n2], false, 8);
        mg.reset(|_d, _s| {});
        assert!(mg.window.is_empty() && mg.window_size == 0 && mg.suffix_idx == 0 && mg.last_idx_in_sequence == 0, "E7: reset must forget the window");
        let mut hist2 = [0u8; HIST];
        let mut hl2 = 0usize;
        let (d3, n3) = any_block();
        one_block(&mut mg, &mut hist2, &mut hl2, &d3[..n3], false, 8);
        core::mem::forget(mg);
    }

    // ---- the three contracts unit E7V (Verus) assumes of code outside Verus' reach, checked here on the real functions ----

    fn any_store<const CAP: usize>() -> SuffixStore {
        let mut st = SuffixStore::with_capacity(CAP);
        // arbitrary content in two arbitrary slots (the operations touch exactly one slot)
        let p1: usize = vk::any();
        let p2: usize = vk::any();
        vk::assume(p1 < CAP && p2 < CAP);
        let v1: usize = vk::any();
        let v2: usize = vk::any();
        st.slots[p1] = NonZeroUsize::new(v1);
        st.slots[p2] = NonZeroUsize::new(v2);
        st
    }
    fn store_holds(st: &SuffixStore, i: usize, probe: usize) -> bool {
        // `holds(i)`: some slot stores i (+1); `probe` is an arbitrary slot so the check is loop-free
        i != usize::MAX && st.slots[probe] == NonZeroUsize::new(i + 1)
    }

    /// SuffixStore::get returns only stored indices; insert adds nothing but `idx`; neither panics (key stays in range)
    pub(crate) fn suffix_store_body<const CAP: usize>() {
        let mut st = any_store::<CAP>();
        let suffix: [u8; 5] = vk::any();
        let k = st.key(&suffix);
        assert!(k < CAP, "E7: SuffixStore::key out of range");
        if let Some(i) = st.get(&suffix) {
            assert!(store_holds(&st, i, k), "E7: SuffixStore::get returned an index that is not stored");
        }
        assert!(st.contains_key(&suffix) == st.get(&suffix).is_some(), "E7: contains_key disagrees with get");
        let probe: usize = vk::any();
        vk::assume(probe < CAP);
        let before = st.slots[probe];
        let idx: usize = vk::any();
        vk::assume(idx < usize::MAX);
        st.insert(&suffix, idx);
        let after = st.slots[probe];
        assert!(after == before || after == NonZeroUsize::new(idx + 1), "E7: SuffixStore::insert changed a slot to something other than idx");
        assert!(st.get(&suffix) == Some(idx), "E7: SuffixStore::get after insert");
        core::mem::forget(st);
    }
    #[cfg_attr(kani, kani::proof)]
    #[cfg_attr(kani, kani::unwind(12))]
    #[cfg_attr(killingspark_zstd_rs_verif, no_mangle)]
    pub fn e7_suffix_store_8() { suffix_store_body::<8>(); }

    /// common_prefix_len(a, b) = r: r <= both lengths, the first r bytes agree, and r is maximal
    pub(crate) fn common_prefix_body<const A: usize, const B: usize>() {
        let a: [u8; A] = vk::any();
        let b: [u8; B] = vk::any();
        let r = MatchGenerator::common_prefix_len(&a, &b);
        assert!(r <= A && r <= B, "E7: common_prefix_len longer than an operand");
        let i: usize = vk::any();
        if i < r { assert!(a[i] == b[i], "E7: common_prefix_len counts bytes that differ"); }
        if r < A && r < B { assert!(a[r] != b[r], "E7: common_prefix_len stops early"); }
    }
    macro_rules! cp {
        ($name:ident, $a:expr, $b:expr) => {
            #[cfg_attr(kani, kani::proof)]
            #[cfg_attr(kani, kani::unwind(20))]
            #[cfg_attr(killingspark_zstd_rs_verif, no_mangle)]
            pub fn $name() { common_prefix_body::<$a, $b>(); }
        };
    }
    cp!(e7_common_prefix_3_10, 3, 10);
    cp!(e7_common_prefix_10_9, 10, 9);
    cp!(e7_common_prefix_17_16, 17, 16);
    cp!(e7_common_prefix_0_4, 0, 4);

    /// add_suffixes_till(idx): touches nothing but the newest entry's suffix store, and only adds indices in [suffix_idx, idx)
    pub(crate) fn add_suffixes_body<const LEN: usize>() {
        let data: [u8; LEN] = vk::any();
        let mut mg = MatchGenerator::new(64);
        mg.add_data(alloc::vec![1u8, 2, 3], SuffixStore::with_capacity(8), |_d, _s| {});
        mg.skip_matching();
        mg.add_data(data.to_vec(), SuffixStore::with_capacity(8), |_d, _s| {});
        let from: usize = vk::any();
        let idx: usize = vk::any();
        vk::assume(from <= idx && idx <= LEN);
        mg.suffix_idx = from;
        mg.add_suffixes_till(idx);
        assert!(mg.suffix_idx == from && mg.window.len() == 2 && mg.window_size == 3 + LEN && mg.window[0].base_offset == 3 && mg.window[1].base_offset == 0,
            "E7: add_suffixes_till changed window bookkeeping");
        let probe: usize = vk::any();
        vk::assume(probe < 8);
        assert!(mg.window[0].suffixes.slots[probe].is_none(), "E7: add_suffixes_till touched an older entry's store");
        if let Some(v) = mg.window[1].suffixes.slots[probe] {
            let i = <NonZeroUsize as Into<usize>>::into(v) - 1;
            assert!(from <= i && i < idx && i + MIN_MATCH_LEN <= idx, "E7: add_suffixes_till stored an index outside [suffix_idx, idx)");
        }
        let j: usize = vk::any();
        if j < LEN { assert!(mg.window[1].data[j] == data[j], "E7: add_suffixes_till changed data"); }
        core::mem::forget(mg);
    }
    #[cfg_attr(kani, kani::proof)]
    #[cfg_attr(kani, kani::unwind(12))]
    #[cfg_attr(killingspark_zstd_rs_verif, no_mangle)]
    pub fn e7_add_suffixes_till_7() { add_suffixes_body::<7>(); }
    #[cfg_attr(kani, kani::proof)]
    #[cfg_attr(kani, kani::unwind(12))]
    #[cfg_attr(killingspark_zstd_rs_verif, no_mangle)]
    pub fn e7_add_suffixes_till_4() { add_suffixes_body::<4>(); }

    /// MatchGeneratorDriver recycling (the precondition E7V.add_data states: a fresh or RECYCLED suffix store must be empty, and the
    /// recycled data buffer has full length): three blocks through a one-slice window, so the third block gets the first block's
    /// store back from the pool; then reset and one more block. Concrete data: a bounded execution.
    #[cfg_attr(kani, kani::proof)]
    #[cfg_attr(kani, kani::unwind(1030))]
    #[cfg_attr(killingspark_zstd_rs_verif, no_mangle)]
    pub fn e7_driver_recycling() {
        let mut drv = MatchGeneratorDriver::new(8, 1);
        let probe: usize = vk::any();
        vk::assume(probe < 1024);
        let mut round = 0u8;
        while round < 4 {
            if round == 3 { drv.reset(CompressionLevel::Fastest); }
            let mut space = drv.get_next_space();
            assert!(space.len() == 8, "E7: get_next_space must hand out a buffer of slice_size bytes (also a recycled one)");
            let mut k = 0;
            while k < 8 { space[k] = round.wrapping_mul(8).wrapping_add(k as u8); k += 1; }
            drv.commit_space(space);
            let last = drv.match_generator.window.last().unwrap();
            assert!(last.suffixes.slots.len() >= 1024 && last.suffixes.slots[probe].is_none(), "E7: the suffix store given to a new block must be empty (recycled stores are cleared)");
            assert!(drv.match_generator.window.len() == 1 && drv.match_generator.window_size == 8, "E7: one-slice window holds exactly the newest block");
            drv.skip_matching();
            round += 1;
        }
        assert!(drv.suffix_pool.len() + drv.match_generator.window.len() <= 3 && drv.vec_pool.len() <= 2, "E7: buffers are recycled, not leaked into ever-growing pools");
        core::mem::forget(drv);
    }

    #[cfg(kani)]
    #[kani::proof]
    #[kani::unwind(10)]
    fn e7_cover() {
        let mut mg = MatchGenerator::new(2 * BLK);
        let (d1, n1) = any_block();
        let (d2, n2) = any_block();
        mg.add_data(d1[..n1].to_vec(), SuffixStore::with_capacity(8), |_d, _s| {});
        mg.skip_matching();
        mg.add_data(d2[..n2].to_vec(), SuffixStore::with_capacity(8), |_d, _s| {});
        let mut saw_match = false;
        let mut big_offset = false;
        while mg.next_sequence(|seq| {
            if let Sequence::Triple { offset, .. } = seq { saw_match = true; if offset > BLK { big_offset = true; } }
        }) {}
        kani::cover!(saw_match, "a match is found");
        kani::cover!(big_offset, "a match reaches into the previous block");
        core::mem::forget(mg);
    }
}
//@end
//@harness e7_two_blocks kind=proof fn=MatchGenerator::next_sequence,MatchGenerator::add_data,MatchGenerator::reserve,MatchGenerator::skip_matching,MatchGenerator::add_suffixes_till,SuffixStore::insert,SuffixStore::get,SuffixStore::key props=C17,C15,C02 tier=thorough profile=rel bound="2 blocks of 6 bytes over the alphabet {0,1} (all 2^12 contents), window 12 bytes, 8-slot suffix store" witness=e7_two_blocks timeout=3000 heavy=yes
//@harness e7_eviction_reset kind=proof fn=MatchGenerator::next_sequence,MatchGenerator::add_data,MatchGenerator::reserve,MatchGenerator::reset props=C17 tier=thorough profile=rel bound="blocks of 6 bytes over {0,1}, window 9 bytes (eviction), reset and reuse" witness=e7_eviction_reset timeout=3000 heavy=yes
//@harness e7_cover kind=cover props=C17 tier=thorough profile=rel timeout=3000 heavy=yes
//@harness e7_suffix_store_8 kind=proof fn=SuffixStore::get,SuffixStore::insert,SuffixStore::contains_key,SuffixStore::key props=C17 tier=quick profile=rel bound="8-slot store, two arbitrary slots pre-filled with arbitrary values, every 5-byte key and every index (loop-free: complete for this capacity)" witness=e7_suffix_store_8 timeout=900
//@harness e7_common_prefix_3_10 kind=proof fn=MatchGenerator::common_prefix_len,MatchGenerator::mismatch_chunks props=C17 tier=quick profile=rel bound="operand lengths 3 and 10, all contents" witness=e7_common_prefix_3_10 timeout=900
//@harness e7_common_prefix_10_9 kind=proof fn=MatchGenerator::common_prefix_len,MatchGenerator::mismatch_chunks props=C17 tier=quick profile=rel bound="operand lengths 10 and 9, all contents" witness=e7_common_prefix_10_9 timeout=900
//@harness e7_common_prefix_17_16 kind=proof fn=MatchGenerator::common_prefix_len,MatchGenerator::mismatch_chunks props=C17 tier=quick profile=rel bound="operand lengths 17 and 16 (two full 8-byte chunks), all contents" witness=e7_common_prefix_17_16 timeout=900
//@harness e7_common_prefix_0_4 kind=proof fn=MatchGenerator::common_prefix_len,MatchGenerator::mismatch_chunks props=C17 tier=quick profile=rel bound="operand lengths 0 and 4" witness=e7_common_prefix_0_4 timeout=900
//@harness e7_add_suffixes_till_7 kind=proof fn=MatchGenerator::add_suffixes_till props=C17 tier=quick profile=rel bound="newest entry of 7 bytes (all contents), every 0 <= suffix_idx <= idx <= 7, 8-slot stores" witness=e7_add_suffixes_till_7 timeout=900
//@harness e7_add_suffixes_till_4 kind=proof fn=MatchGenerator::add_suffixes_till props=C17 tier=quick profile=rel bound="newest entry of 4 bytes (shorter than a key: early return), 8-slot stores" witness=e7_add_suffixes_till_4 timeout=900
//@harness e7_driver_recycling kind=proof fn=MatchGeneratorDriver::commit_space,MatchGeneratorDriver::get_next_space,MatchGeneratorDriver::reset,MatchGeneratorDriver::skip_matching props=C17 tier=thorough profile=rel bound="CONCRETE trace: 4 blocks of 8 bytes through a one-slice window with 1024-slot stores, reset before the 4th; probe slot symbolic" witness=e7_driver_recycling timeout=1800
