//@unit E7 : Kani obligations, on the real functions, for the three contracts Verus unit E7V assumes of code outside Verus' reach: SuffixStore get/insert/contains_key/key (only stored indices come back, insert adds nothing but idx, key in range), common_prefix_len (length, equality, maximality), add_suffixes_till (frame + stored indices in [suffix_idx, idx))
//@file ruzstd/src/encoding/match_generator.rs
//@module
#[cfg(any(kani, killingspark_zstd_rs_verif))]
#[allow(dead_code, unreachable_pub)]
pub(crate) mod verif_e7 {
    use super::*;
    use crate::encoding::{CompressionLevel, Matcher};
    use crate::verif_spec::vk;

    // ---- the three contracts unit E7V (Verus) assumes of code outside Verus' reach, checked here on the real functions ----

    fn any_store<const CAP: usize>() -> SuffixStore {
        let mut st = SuffixStore::with_capacity(CAP);
        // arbitrary content in two arbitrary slots (the operations touch exactly one slot)
        let p1: usize = vk::any();
        let p2: usize = vk::any();
        vk::assume(p1 < CAP && p2 < CAP);
        let v1: usize = vk::any();
        let v2: usize = vk::any();
        st.slots[p1] = NonZeroUsize::new(v1);
        st.slots[p2] = NonZeroUsize::new(v2);
        st
    }
    fn store_holds(st: &SuffixStore, i: usize, probe: usize) -> bool {
        // `holds(i)`: some slot stores i (+1); `probe` is an arbitrary slot so the check is loop-free
        i != usize::MAX && st.slots[probe] == NonZeroUsize::new(i + 1)
    }

    /// SuffixStore::get returns only stored indices; insert adds nothing but `idx`; neither panics (key stays in range)
    pub(crate) fn suffix_store_body<const CAP: usize>() {
        let mut st = any_store::<CAP>();
        let suffix: [u8; 5] = vk::any();
        let k = st.key(&suffix);
        assert!(k < CAP, "E7: SuffixStore::key out of range");
        if let Some(i) = st.get(&suffix) {
            assert!(store_holds(&st, i, k), "E7: SuffixStore::get returned an index that is not stored");
        }
        assert!(st.contains_key(&suffix) == st.get(&suffix).is_some(), "E7: contains_key disagrees with get");
        let probe: usize = vk::any();
        vk::assume(probe < CAP);
        let before = st.slots[probe];
        let idx: usize = vk::any();
        vk::assume(idx < usize::MAX);
        st.insert(&suffix, idx);
        let after = st.slots[probe];
        assert!(after == before || after == NonZeroUsize::new(idx + 1), "E7: SuffixStore::insert changed a slot to something other than idx");
        assert!(st.get(&suffix) == Some(idx), "E7: SuffixStore::get after insert");
        core::mem::forget(st);
    }
    #[cfg_attr(kani, kani::proof)]
    #[cfg_attr(kani, kani::unwind(12))]
    #[cfg_attr(killingspark_zstd_rs_verif, no_mangle)]
    pub fn e7_suffix_store_8() { suffix_store_body::<8>(); }

    /// common_prefix_len(a, b) = r: r <= both lengths, the first r bytes agree, and r is maximal
    pub(crate) fn common_prefix_body<const A: usize, const B: usize>() {
        let a: [u8; A] = vk::any();
        let b: [u8; B] = vk::any();
        let r = MatchGenerator::common_prefix_len(&a, &b);
        assert!(r <= A && r <= B, "E7: common_prefix_len longer than an operand");
        let i: usize = vk::any();
        if i < r { assert!(a[i] == b[i], "E7: common_prefix_len counts bytes that differ"); }
        if r < A && r < B { assert!(a[r] != b[r], "E7: common_prefix_len stops early"); }
    }
    macro_rules! cp {
        ($name:ident, $a:expr, $b:expr) => {
            #[cfg_attr(kani, kani::proof)]
            #[cfg_attr(kani, kani::unwind(20))]
            #[cfg_attr(killingspark_zstd_rs_verif, no_mangle)]
            pub fn $name() { common_prefix_body::<$a, $b>(); }
        };
    }
    cp!(e7_common_prefix_3_10, 3, 10);
    cp!(e7_common_prefix_10_9, 10, 9);
    cp!(e7_common_prefix_17_16, 17, 16);
    cp!(e7_common_prefix_0_4, 0, 4);

    /// add_suffixes_till(idx): touches nothing but the newest entry's suffix store, and only adds indices in [suffix_idx, idx)
    pub(crate) fn add_suffixes_body<const LEN: usize>() {
        let data: [u8; LEN] = vk::any();
        let mut mg = MatchGenerator::new(64);
        mg.add_data(alloc::vec![1u8, 2, 3], SuffixStore::with_capacity(8), |_d, _s| {});
        mg.skip_matching();
        mg.add_data(data.to_vec(), SuffixStore::with_capacity(8), |_d, _s| {});
        let from: usize = vk::any();
        let idx: usize = vk::any();
        vk::assume(from <= idx && idx <= LEN);
        mg.suffix_idx = from;
        mg.add_suffixes_till(idx);
        assert!(mg.suffix_idx == from && mg.window.len() == 2 && mg.window_size == 3 + LEN && mg.window[0].base_offset == 3 && mg.window[1].base_offset == 0,
            "E7: add_suffixes_till changed window bookkeeping");
        let probe: usize = vk::any();
        vk::assume(probe < 8);
        assert!(mg.window[0].suffixes.slots[probe].is_none(), "E7: add_suffixes_till touched an older entry's store");
        if let Some(v) = mg.window[1].suffixes.slots[probe] {
            let i = <NonZeroUsize as Into<usize>>::into(v) - 1;
            assert!(from <= i && i < idx && i + MIN_MATCH_LEN <= idx, "E7: add_suffixes_till stored an index outside [suffix_idx, idx)");
        }
        let j: usize = vk::any();
        if j < LEN { assert!(mg.window[1].data[j] == data[j], "E7: add_suffixes_till changed data"); }
        core::mem::forget(mg);
    }
    #[cfg_attr(kani, kani::proof)]
    #[cfg_attr(kani, kani::unwind(12))]
    #[cfg_attr(killingspark_zstd_rs_verif, no_mangle)]
    pub fn e7_add_suffixes_till_7() { add_suffixes_body::<7>(); }
    #[cfg_attr(kani, kani::proof)]
    #[cfg_attr(kani, kani::unwind(12))]
    #[cfg_attr(killingspark_zstd_rs_verif, no_mangle)]
    pub fn e7_add_suffixes_till_4() { add_suffixes_body::<4>(); }
}
//@end
//@harness e7_suffix_store_8 kind=proof fn=SuffixStore::get,SuffixStore::insert,SuffixStore::contains_key,SuffixStore::key props=C17 tier=quick profile=rel bound="8-slot store, two arbitrary slots pre-filled with arbitrary values, every 5-byte key and every index (loop-free: complete for this capacity)" witness=e7_suffix_store_8 timeout=900
//@harness e7_common_prefix_3_10 kind=proof fn=MatchGenerator::common_prefix_len,MatchGenerator::mismatch_chunks props=C17 tier=quick profile=rel bound="operand lengths 3 and 10, all contents" witness=e7_common_prefix_3_10 timeout=900
//@harness e7_common_prefix_10_9 kind=proof fn=MatchGenerator::common_prefix_len,MatchGenerator::mismatch_chunks props=C17 tier=quick profile=rel bound="operand lengths 10 and 9, all contents" witness=e7_common_prefix_10_9 timeout=900
//@harness e7_common_prefix_17_16 kind=proof fn=MatchGenerator::common_prefix_len,MatchGenerator::mismatch_chunks props=C17 tier=quick profile=rel bound="operand lengths 17 and 16 (two full 8-byte chunks), all contents" witness=e7_common_prefix_17_16 timeout=900
//@harness e7_common_prefix_0_4 kind=proof fn=MatchGenerator::common_prefix_len,MatchGenerator::mismatch_chunks props=C17 tier=quick profile=rel bound="operand lengths 0 and 4" witness=e7_common_prefix_0_4 timeout=900
//@harness e7_add_suffixes_till_7 kind=proof fn=MatchGenerator::add_suffixes_till props=C17 tier=quick profile=rel bound="newest entry of 7 bytes (all contents), every 0 <= suffix_idx <= idx <= 7, 8-slot stores" witness=e7_add_suffixes_till_7 timeout=900
//@harness e7_add_suffixes_till_4 kind=proof fn=MatchGenerator::add_suffixes_till props=C17 tier=quick profile=rel bound="newest entry of 4 bytes (shorter than a key: early return), 8-slot stores" witness=e7_add_suffixes_till_4 timeout=900
//@assume NOT RUN: the earlier bounded harnesses of the whole matcher (two blocks over a 2-letter alphabet, eviction + reset, MatchGeneratorDriver pool recycling) never completed in CBMC (out of memory / 30 min) and are not registered; kept in contracts/notes/. MatchGeneratorDriver's recycling closures (they must hand back CLEARED suffix stores, the precondition of E7V.add_data) are therefore not covered by any check
