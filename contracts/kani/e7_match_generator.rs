//@unit E7 : built-in match finder (bounded): the sequences reported for a block concatenate to the block; every match is at least 5 bytes, refers to bytes that really precede it at the stated distance inside the retained window and never beyond the maximum window
//@file ruzstd/src/encoding/match_generator.rs
//@module
#[cfg(any(kani, killingspark_zstd_rs_verif))]
#[allow(dead_code, unreachable_pub)]
pub(crate) mod verif_e7 {
    use super::*;
    use crate::verif_spec::vk;

    pub(crate) const BLK: usize = 6;
    pub(crate) const HIST: usize = 3 * BLK;

    /// runs one block through the matcher and checks every reported sequence against the reconstruction; returns nothing, panics on violation
    fn one_block(mg: &mut MatchGenerator, hist: &mut [u8; HIST], hist_len: &mut usize, data: &[u8], skip: bool, slots: usize) {
        mg.add_data(data.to_vec(), SuffixStore::with_capacity(slots), |_d, _s| {});
        assert!(mg.window_size <= mg.max_window_size, "E7: retained window exceeds the maximum window");
        let retained_before = mg.window_size - data.len(); // bytes of earlier blocks still in the window
        if skip {
            mg.skip_matching();
        } else {
            let mut recon = [0u8; BLK];
            let mut rlen = 0usize;
            let max_w = mg.max_window_size;
            let base = *hist_len;
            let h: &[u8; HIST] = hist;
            let mut rounds = 0;
            while mg.next_sequence(|seq| {
                let (lits, m) = match seq {
                    Sequence::Literals { literals } => (literals, None),
                    Sequence::Triple { literals, offset, match_len } => (literals, Some((offset, match_len))),
                };
                assert!(rlen + lits.len() <= BLK, "E7: literal runs overrun the block");
                recon[rlen..rlen + lits.len()].copy_from_slice(lits);
                rlen += lits.len();
                if let Some((offset, match_len)) = m {
                    assert!(match_len >= MIN_MATCH_LEN, "E7: reported match shorter than the minimum match length");
                    assert!(offset >= 1 && offset <= max_w, "E7: match distance outside 1..=max_window_size");
                    assert!(offset <= retained_before + rlen, "E7: match reaches before the data retained in the window");
                    assert!(rlen + match_len <= BLK, "E7: match overruns the block");
                    let mut k = 0;
                    while k < match_len {
                        // byte at distance `offset` before the current position, in (history ++ reconstruction so far)
                        let p = base + rlen; // absolute position of the byte being produced
                        let src = p - offset;
                        let b = if src < base { h[src] } else { recon[src - base] };
                        recon[rlen] = b;
                        rlen += 1;
                        k += 1;
                    }
                }
            }) {
                rounds += 1;
                assert!(rounds <= BLK + 1, "E7: more sequences than bytes");
            }
            assert!(rlen == data.len(), "E7: literal runs and matches must tile the block exactly");
            let i: usize = vk::any();
            if i < rlen {
                assert!(recon[i] == data[i], "E7: replaying the reported sequences must reproduce the block (a reported match is not a true match)");
            }
        }
        hist[*hist_len..*hist_len + data.len()].copy_from_slice(data);
        *hist_len += data.len();
    }

    fn any_block() -> ([u8; BLK], usize) {
        let bits: u8 = vk::any();
        let mut d = [0u8; BLK];
        let mut i = 0;
        while i < BLK { d[i] = (bits >> i) & 1; i += 1; } // alphabet {0, 1}: collisions and matches are frequent
        // block lengths are concrete (symbolic lengths make every slice/iterator loop bound symbolic and exhaust CBMC)
        (d, BLK)
    }

    /// two blocks, window of 2 blocks: matches across the block boundary, 8-slot suffix store (hash collisions)
    #[cfg_attr(kani, kani::proof)]
    #[cfg_attr(kani, kani::unwind(10))]
    #[cfg_attr(killingspark_zstd_rs_verif, no_mangle)]
    pub fn e7_two_blocks() {
        let mut mg = MatchGenerator::new(2 * BLK);
        let mut hist = [0u8; HIST];
        let mut hl = 0usize;
        let (d1, n1) = any_block();
        let (d2, n2) = any_block();
        one_block(&mut mg, &mut hist, &mut hl, &d1[..n1], vk::any(), 8);
        one_block(&mut mg, &mut hist, &mut hl, &d2[..n2], false, 8);
        core::mem::forget(mg);
    }

    /// three blocks with a window of ONE block and a bit: eviction happens; then reset and one more block
    #[cfg_attr(kani, kani::proof)]
    #[cfg_attr(kani, kani::unwind(10))]
    #[cfg_attr(killingspark_zstd_rs_verif, no_mangle)]
    pub fn e7_eviction_reset() {
        let mut mg = MatchGenerator::new(BLK + 3);
        let mut hist = [0u8; HIST];
        let mut hl = 0usize;
        let (d1, n1) = any_block();
        let (d2, n2) = any_block();
        one_block(&mut mg, &mut hist, &mut hl, &d1[..n1], true, 8);
        one_block(&mut mg, &mut hist, &mut hl, &d2[..n2], false, 8);
        mg.reset(|_d, _s| {});
        assert!(mg.window.is_empty() && mg.window_size == 0 && mg.suffix_idx == 0 && mg.last_idx_in_sequence == 0, "E7: reset must forget the window");
        let mut hist2 = [0u8; HIST];
        let mut hl2 = 0usize;
        let (d3, n3) = any_block();
        one_block(&mut mg, &mut hist2, &mut hl2, &d3[..n3], false, 8);
        core::mem::forget(mg);
    }

    #[cfg(kani)]
    #[kani::proof]
    #[kani::unwind(10)]
    fn e7_cover() {
        let mut mg = MatchGenerator::new(2 * BLK);
        let (d1, n1) = any_block();
        let (d2, n2) = any_block();
        mg.add_data(d1[..n1].to_vec(), SuffixStore::with_capacity(8), |_d, _s| {});
        mg.skip_matching();
        mg.add_data(d2[..n2].to_vec(), SuffixStore::with_capacity(8), |_d, _s| {});
        let mut saw_match = false;
        let mut big_offset = false;
        while mg.next_sequence(|seq| {
            if let Sequence::Triple { offset, .. } = seq { saw_match = true; if offset > BLK { big_offset = true; } }
        }) {}
        kani::cover!(saw_match, "a match is found");
        kani::cover!(big_offset, "a match reaches into the previous block");
        core::mem::forget(mg);
    }
}
//@end
//@harness e7_two_blocks kind=proof fn=MatchGenerator::next_sequence,MatchGenerator::add_data,MatchGenerator::reserve,MatchGenerator::skip_matching,MatchGenerator::add_suffixes_till,SuffixStore::insert,SuffixStore::get,SuffixStore::key props=C17,C15,C02 tier=thorough profile=dbg bound="2 blocks of 6 bytes over the alphabet {0,1} (all 2^12 contents), window 12 bytes, 8-slot suffix store" witness=e7_two_blocks timeout=3000 heavy=yes
//@harness e7_eviction_reset kind=proof fn=MatchGenerator::next_sequence,MatchGenerator::add_data,MatchGenerator::reserve,MatchGenerator::reset props=C17 tier=thorough profile=dbg bound="blocks of 6 bytes over {0,1}, window 9 bytes (eviction), reset and reuse" witness=e7_eviction_reset timeout=3000 heavy=yes
//@harness e7_cover kind=cover props=C17 tier=thorough profile=dbg timeout=3000 heavy=yes
