//@unit SD1 : StreamingDecoder::read (the io::Read front end): returns Ok(0) only when the frame is finished and drained, otherwise decodes until the request can be served or the frame ends, asks decode_blocks for at most the missing amount, delivers min(request, available) bytes, and a short read happens only at the end of the frame; a decode error is passed on
//@file ruzstd/src/decoding/streaming_decoder.rs
//@module
#[cfg(any(kani, killingspark_zstd_rs_verif))]
#[allow(dead_code, unreachable_pub, static_mut_refs)]
pub(crate) mod verif_sd1 {
    use super::*;
    use crate::verif_spec::vk;

    pub(crate) const NC: usize = 3;
    // script of the decode_blocks calls
    pub(crate) static mut S_OUT: [usize; NC] = [0; NC];
    pub(crate) static mut S_FIN: [bool; NC] = [false; NC];
    pub(crate) static mut S_FAIL: [bool; NC] = [false; NC];
    // ghost state of the stubbed FrameDecoder
    pub(crate) static mut G_AVAIL: usize = 0;
    pub(crate) static mut G_FIN: bool = false;
    pub(crate) static mut G_CALLS: usize = 0;
    pub(crate) static mut G_WANT: usize = 0;       // the request size of the read under test
    pub(crate) static mut G_READS: usize = 0;

    fn stub_can_collect(_d: &FrameDecoder) -> usize { unsafe { G_AVAIL } }
    fn stub_is_finished(_d: &FrameDecoder) -> bool { unsafe { G_FIN } }
    fn stub_decode_blocks<R: Read>(_d: &mut FrameDecoder, _source: R, strat: BlockDecodingStrategy) -> Result<bool, FrameDecoderError> {
        unsafe {
            let i = G_CALLS;
            assert!(i < NC);
            assert!(!G_FIN && G_AVAIL < G_WANT, "SD1: decode_blocks is only called while the request cannot be served and the frame is not finished");
            assert!(matches!(strat, BlockDecodingStrategy::UptoBytes(n) if n >= 1 && n <= G_WANT - G_AVAIL), "SD1 (C05): decode_blocks is asked for at most the missing amount (and for something)");
            G_CALLS += 1;
            if S_FAIL[i] { return Err(FrameDecoderError::NotYetInitialized); }
            G_AVAIL += S_OUT[i];
            G_FIN = S_FIN[i];
            Ok(G_FIN)
        }
    }
    fn stub_read(_d: &mut FrameDecoder, target: &mut [u8]) -> Result<usize, Error> {
        unsafe {
            G_READS += 1;
            let n = if G_AVAIL < target.len() { G_AVAIL } else { target.len() };
            let mut k = 0;
            while k < n { target[k] = 0xCD; k += 1; }
            G_AVAIL -= n;
            Ok(n)
        }
    }

    pub(crate) fn body<const WANT: usize>() {
        unsafe {
            S_OUT = vk::any(); S_FIN = vk::any(); S_FAIL = vk::any();
            let mut i = 0;
            while i < NC { vk::assume(S_OUT[i] <= 3); i += 1; }
            vk::assume(S_FIN[NC - 1] || S_FAIL[NC - 1]);   // the scripted frame ends within NC calls
            G_AVAIL = vk::any(); vk::assume(G_AVAIL <= 4);
            G_FIN = vk::any();
            G_CALLS = 0; G_READS = 0; G_WANT = WANT;
        }
        let (avail0, fin0) = unsafe { (G_AVAIL, G_FIN) };
        let src = [0u8; 1];
        let mut sd = StreamingDecoder { decoder: FrameDecoder::new(), source: &src[..] };
        let mut buf = [0u8; WANT];
        let r = sd.read(&mut buf);
        // ---- specification from the script ----
        let mut avail = avail0;
        let mut fin = fin0;
        let mut calls = 0usize;
        let mut err = false;
        if !(fin && avail == 0) {
            while avail < WANT && !fin {
                if unsafe { S_FAIL[calls] } { err = true; calls += 1; break; }
                avail += unsafe { S_OUT[calls] };
                fin = unsafe { S_FIN[calls] };
                calls += 1;
            }
        }
        unsafe { assert!(G_CALLS == calls, "SD1: number of decode_blocks calls"); }
        match &r {
            Ok(n) => {
                assert!(!err, "SD1: a decode error must be reported");
                let expect = if avail < WANT { avail } else { WANT };
                assert!(*n == expect, "SD1: read delivers min(request, available)");
                assert!(*n == WANT || fin, "SD1: a short read happens only when the frame is finished");
                if fin0 && avail0 == 0 { assert!(*n == 0 && unsafe { G_READS } == 0, "SD1: finished and drained => Ok(0) without touching the decoder"); }
                let k: usize = vk::any();
                if k < *n { assert!(buf[k] == 0xCD, "SD1: delivered bytes are at the front of the caller's buffer"); }
            }
            Err(_) => assert!(err, "SD1: read failed although decoding did not"),
        }
        core::mem::forget(r);
        core::mem::forget(sd);
    }
    macro_rules! sd1 {
        ($name:ident, $w:expr) => {
            #[cfg_attr(kani, kani::proof)]
            #[cfg_attr(kani, kani::unwind(8))]
            #[cfg_attr(kani, kani::stub(FrameDecoder::decode_blocks, stub_decode_blocks))]
            #[cfg_attr(kani, kani::stub(<crate::decoding::frame_decoder::FrameDecoder as crate::io::Read>::read, stub_read))]
            #[cfg_attr(kani, kani::stub(FrameDecoder::can_collect, stub_can_collect))]
            #[cfg_attr(kani, kani::stub(FrameDecoder::is_finished, stub_is_finished))]
            #[cfg_attr(killingspark_zstd_rs_verif, no_mangle)]
            pub fn $name() { body::<$w>(); }
        };
    }
    sd1!(sd1_read_0, 0);
    sd1!(sd1_read_1, 1);
    sd1!(sd1_read_5, 5);
}
//@end
//@harness sd1_read_0 kind=proof fn=StreamingDecoder::read props=C06,C05,C10 tier=quick bound="request of 0 bytes; <= 3 decode_blocks calls adding <= 3 bytes each, any outcome; <= 4 bytes pending" timeout=1200
//@harness sd1_read_1 kind=proof fn=StreamingDecoder::read props=C06,C05,C10 tier=quick bound="request of 1 byte; <= 3 decode_blocks calls adding <= 3 bytes each, any outcome; <= 4 bytes pending" timeout=1200
//@harness sd1_read_5 kind=proof fn=StreamingDecoder::read props=C06,C05,C10 tier=quick bound="request of 5 bytes; <= 3 decode_blocks calls adding <= 3 bytes each, any outcome; <= 4 bytes pending" timeout=1200
//@assume in sd1_* FrameDecoder::decode_blocks / read / can_collect / is_finished are scripted contract stubs (their contracts: FD1, D1/D2, FD7); only the front end's own control flow is examined
