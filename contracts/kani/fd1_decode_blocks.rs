//@unit FD1 : FrameDecoder::decode_blocks / decode_from_to / decode_all: exact byte accounting, blocks strictly in order, strategy only decides when to return, checksum bytes, truncation is an error, multi-frame and skippable frames
//@needs H4 FD4
//@file ruzstd/src/decoding/block_decoder.rs
//@module
#[cfg(any(kani, killingspark_zstd_rs_verif))]
#[allow(dead_code, unreachable_pub, static_mut_refs)]
pub(crate) mod verif_fd1b {
    use super::*;
    pub(crate) const NB: usize = 4;
    // the script: what the next blocks look like (chosen by the harness, symbolic)
    pub(crate) static mut S_LAST: [bool; NB] = [false; NB];
    pub(crate) static mut S_BODY: [u32; NB] = [0; NB];
    pub(crate) static mut S_OUT: [usize; NB] = [0; NB];
    pub(crate) static mut S_HERR: [bool; NB] = [false; NB];
    pub(crate) static mut S_BERR: [bool; NB] = [false; NB];
    // ghost progress
    pub(crate) static mut G_HDR: usize = 0;
    pub(crate) static mut G_BODY: usize = 0;
    pub(crate) static mut G_LEN: usize = 0;

    /// contract stub of read_block_header (its own contract is H1): takes exactly 3 bytes, hands out the scripted header
    pub(crate) fn stub_read_block_header<R: Read>(_this: &mut BlockDecoder, mut r: R) -> Result<(BlockHeader, u8), BlockHeaderReadError> {
        unsafe {
            assert!(G_HDR == G_BODY, "FD1: a new block header may only be read after the previous block's body was decoded");
            let i = G_HDR;
            assert!(i < NB);
            let mut b = [0u8; 3];
            if let Err(e) = r.read_exact(&mut b) {
                return Err(BlockHeaderReadError::ReadError(e));
            }
            if S_HERR[i] {
                return Err(BlockHeaderReadError::FoundReservedBlock);
            }
            G_HDR += 1;
            Ok((BlockHeader { last_block: S_LAST[i], block_type: BlockType::Raw, decompressed_size: S_OUT[i] as u32, content_size: S_BODY[i] }, 3))
        }
    }
    /// contract stub of decode_block_content (its own contract is B1): takes exactly content_size bytes, grows the output by the scripted amount
    pub(crate) fn stub_decode_block_content<R: Read>(
        _this: &mut BlockDecoder, header: &BlockHeader, _workspace: &mut DecoderScratch, mut source: R,
    ) -> Result<u64, DecodeBlockContentError> {
        unsafe {
            assert!(G_BODY + 1 == G_HDR, "FD1: a block body must follow its own header: no block skipped or repeated");
            let i = G_BODY;
            assert!(header.content_size == S_BODY[i] && header.last_block == S_LAST[i], "FD1: the body must be decoded with the header that was just read");
            let mut buf = [0u8; 4];
            if let Err(e) = source.read_exact(&mut buf[..header.content_size as usize]) {
                return Err(DecodeBlockContentError::ReadError { step: BlockType::Raw, source: e });
            }
            if S_BERR[i] {
                return Err(DecodeBlockContentError::DecoderStateIsFailed);
            }
            G_BODY += 1;
            G_LEN += S_OUT[i];
            Ok(u64::from(header.content_size))
        }
    }
}
//@end
//@file ruzstd/src/decoding/decode_buffer.rs
//@module
#[cfg(any(kani, killingspark_zstd_rs_verif))]
#[allow(dead_code, unreachable_pub, static_mut_refs)]
pub(crate) mod verif_fd1d {
    use super::*;
    /// ghost stand-in for DecodeBuffer::len in the driver harnesses (output growth is scripted, not produced)
    pub(crate) fn stub_len(_b: &DecodeBuffer) -> usize {
        unsafe { crate::decoding::block_decoder::verif_fd1b::G_LEN }
    }
}
//@end
//@file ruzstd/src/decoding/frame_decoder.rs
//@module
#[cfg(any(kani, killingspark_zstd_rs_verif))]
#[allow(dead_code, unreachable_pub, static_mut_refs)]
pub(crate) mod verif_fd1 {
    use super::*;
    use crate::decoding::block_decoder::verif_fd1b::*;
    use crate::decoding::scratch::verif_h4s::cheap_scratch;
    use crate::verif_spec::vk;

    pub(crate) const SRC: usize = 20;

    fn script() {
        unsafe {
            let mut i = 0;
            while i < NB {
                S_LAST[i] = kani_any_bool();
                S_BODY[i] = vk::any();
                S_OUT[i] = vk::any();
                S_HERR[i] = kani_any_bool();
                S_BERR[i] = kani_any_bool();
                vk::assume(S_BODY[i] <= 4 && S_OUT[i] <= 3);
                i += 1;
            }
            // at most 3 blocks per call in this bounded harness
            S_LAST[2] = true;
            G_HDR = 0;
            G_BODY = 0;
            G_LEN = vk::any();
            vk::assume(G_LEN <= 1000);
        }
    }
    fn kani_any_bool() -> bool { vk::any() }

    fn state(flag: bool) -> FrameDecoderState {
        let mut st = FrameDecoderState {
            frame_header: frame::read_frame_header(&[0x28u8, 0xB5, 0x2F, 0xFD, 0x20, 0x00][..]).unwrap().0,
            decoder_scratch: cheap_scratch(8),
            frame_finished: false,
            block_counter: vk::any(),
            bytes_read_counter: vk::any(),
            check_sum: None,
            using_dict: None,
        };
        vk::assume(st.block_counter < (1 << 40) && st.bytes_read_counter < (1 << 40));
        st.frame_header.descriptor.0 = if flag { 0x24 } else { 0x20 };
        st
    }

    /// FD1: decode_blocks against the scripted blocks, every strategy, every source length (truncation at every point)
    #[cfg(kani)]
    fn fd1_body<const MAXB: usize, const SRCN: usize>() {
        script();
        unsafe { S_LAST[MAXB - 1] = true; }
        let flag: bool = kani::any();
        let src: [u8; SRCN] = kani::any();
        let len: usize = kani::any();
        kani::assume(len <= SRCN);
        let mut d = FrameDecoder::new();
        let st0 = state(flag);
        let (c0, b0, l0) = (st0.bytes_read_counter, st0.block_counter, unsafe { G_LEN });
        d.state = Some(st0);
        let sk: u8 = kani::any();
        let n: usize = kani::any();
        let strat = match sk { 0 => BlockDecodingStrategy::All, 1 => BlockDecodingStrategy::UptoBlocks(n), _ => BlockDecodingStrategy::UptoBytes(n) };
        let mut s: &[u8] = &src[..len];
        let r = d.decode_blocks(&mut s, strat);
        // ---- the specification, computed from the script ----
        let mut pos = 0usize;        // source bytes accounted for
        let mut blocks = 0usize;
        let mut out = 0usize;
        let mut finished = false;
        let mut cks: Option<u32> = None;
        let mut err = false;
        let mut i = 0;
        while i < MAXB {
            if len - pos < 3 { err = true; break; }
            if unsafe { S_HERR[i] } { err = true; break; }
            pos += 3;
            let body = unsafe { S_BODY[i] } as usize;
            if len - pos < body { err = true; break; }
            if unsafe { S_BERR[i] } { err = true; break; }
            pos += body;
            blocks += 1;
            out += unsafe { S_OUT[i] };
            if unsafe { S_LAST[i] } {
                finished = true;
                if flag {
                    if len - pos < 4 { err = true; break; }
                    cks = Some(u32::from_le_bytes([src[pos], src[pos + 1], src[pos + 2], src[pos + 3]]));
                    pos += 4;
                }
                break;
            }
            let stop = match sk { 0 => false, 1 => blocks >= n, _ => out >= n };
            if stop { break; }
            i += 1;
        }
        let st = d.state.as_ref().unwrap();
        assert!(r.is_err() == err, "FD1: decode_blocks fails exactly when a header/body/checksum is truncated or a block is rejected");
        assert!(st.block_counter == b0 + blocks, "FD1: block counter counts exactly the blocks whose body was decoded");
        assert!(unsafe { G_BODY } == blocks && unsafe { G_LEN } == l0 + out, "FD1: blocks consumed in order, none skipped or repeated");
        assert!(st.frame_finished == finished, "FD1: frame_finished iff a last block was processed");
        assert!(st.check_sum == cks, "FD1: stored checksum = the 4 bytes after the last block (little-endian), only when flagged");
        assert!(st.bytes_read_counter == c0 + pos as u64, "FD1: consumed-bytes counter = sum of (3 + body) plus 4 checksum bytes");
        if !err {
            assert!(matches!(r, Ok(f) if f == finished), "FD1: return value reports whether the frame is finished");
            assert!(len - s.len() == pos, "FD1: exactly the counted bytes are taken from the source; following data is untouched");
            assert!(d.is_finished() == finished, "FD7: finished needs the last block and, when flagged, the checksum");
        } else {
            assert!(!d.is_finished(), "FD1: a truncated or rejected frame never reports finished");
        }
        core::mem::forget(r);
        core::mem::forget(d);
    }

    macro_rules! fd1 {
        ($name:ident, $b:expr, $s:expr) => {
            #[cfg(kani)]
            #[kani::proof]
            #[kani::unwind(6)]
            #[kani::stub(crate::decoding::block_decoder::BlockDecoder::read_block_header, crate::decoding::block_decoder::verif_fd1b::stub_read_block_header)]
            #[kani::stub(crate::decoding::block_decoder::BlockDecoder::decode_block_content, crate::decoding::block_decoder::verif_fd1b::stub_decode_block_content)]
            #[kani::stub(crate::decoding::decode_buffer::DecodeBuffer::len, crate::decoding::decode_buffer::verif_fd1d::stub_len)]
            fn $name() { fd1_body::<$b, $s>(); }
        };
    }
    fd1!(fd1_decode_blocks_2, 2, 14);
    fd1!(fd1_decode_blocks_3, 3, 20);

    /// stand-in for the final drain inside decode_from_to (draining is D1/D2's statement; here only source accounting matters)
    fn stub_fd_read(_d: &mut FrameDecoder, _target: &mut [u8]) -> Result<usize, Error> {
        Ok(0)
    }

    /// the decoder in fd2 always has a state; init must not be reached (and is kept out of the proof)
    fn stub_fd_init<R: Read>(_d: &mut FrameDecoder, _source: R) -> Result<(), FrameDecoderError> {
        assert!(false, "FD2: decode_from_to must not re-initialise a decoder that has a frame in progress");
        Err(FrameDecoderError::NotYetInitialized)
    }

    /// keeps core's formatting machinery (dyn Debug dispatch) out of the proof; still a failing check if it is ever reached
    fn stub_unwrap_failed(_msg: &str, _error: &dyn core::fmt::Debug) -> ! {
        panic!("Result::unwrap()/expect() on an Err value")
    }

    /// FD2: decode_from_to over a source slice: consumed <= given, consumed == counter delta, a block is consumed only if entirely present,
    /// a checksum-only call consumes 4 bytes iff 4 are present (else 0)
    #[cfg(kani)]
    #[kani::proof]
    #[kani::unwind(6)]
    #[kani::stub(crate::decoding::block_decoder::BlockDecoder::read_block_header, crate::decoding::block_decoder::verif_fd1b::stub_read_block_header)]
    #[kani::stub(crate::decoding::block_decoder::BlockDecoder::decode_block_content, crate::decoding::block_decoder::verif_fd1b::stub_decode_block_content)]
    #[kani::stub(<crate::decoding::frame_decoder::FrameDecoder as crate::io::Read>::read, stub_fd_read)]
    #[kani::stub(FrameDecoder::init, stub_fd_init)]
    #[kani::stub(core::result::unwrap_failed, stub_unwrap_failed)]
    fn fd2_decode_from_to() {
        script();
        unsafe { S_OUT = [0; NB]; S_HERR = [false; NB]; S_BERR = [false; NB]; S_LAST[0] = true; }
        let flag: bool = kani::any();
        let src: [u8; 12] = kani::any();
        let len: usize = kani::any();
        kani::assume(len <= 12);
        let mut d = FrameDecoder::new();
        let mut st0 = state(flag);
        let pending_checksum: bool = kani::any(); // the previous call ended right before the checksum
        if pending_checksum { st0.frame_finished = true; }
        let (c0, b0) = (st0.bytes_read_counter, st0.block_counter);
        d.state = Some(st0);
        let mut target = [0u8; 0]; // draining is D1/D2's statement; here only source accounting
        let r = d.decode_from_to(&src[..len], &mut target);
        let (read, _written) = match r { Ok(x) => x, Err(_) => { assert!(false, "FD2: scripted blocks are all acceptable"); return; } };
        let st = d.state.as_ref().unwrap();
        assert!(read <= len, "FD2: decode_from_to must never report more source bytes than it was given");
        assert!(st.bytes_read_counter == c0 + read as u64, "FD2: reported consumption == consumed-bytes counter delta");
        // spec
        let mut pos = 0usize;
        let mut blocks = 0usize;
        let mut finished = pending_checksum;
        let mut cks = None;
        if pending_checksum {
            if flag {
                if len >= 4 { cks = Some(u32::from_le_bytes([src[0], src[1], src[2], src[3]])); pos = 4; }
            }
        } else {
            let mut i = 0;
            while i < 1 {
                if len - pos < 3 { break; }
                let body = unsafe { S_BODY[i] } as usize;
                if len - pos - 3 < body { break; } // block not entirely present: not consumed at all
                pos += 3 + body;
                blocks += 1;
                if unsafe { S_LAST[i] } {
                    finished = true;
                    if flag && len - pos >= 4 {
                        cks = Some(u32::from_le_bytes([src[pos], src[pos + 1], src[pos + 2], src[pos + 3]]));
                        pos += 4;
                    }
                    break;
                }
                i += 1;
            }
        }
        assert!(read == pos, "FD2: whole blocks only; checksum consumed iff all 4 bytes are present");
        assert!(st.block_counter == b0 + blocks && st.frame_finished == finished && st.check_sum == cks, "FD2: progress fields");
        core::mem::forget(d);
    }
}
//@end
//@harness fd1_decode_blocks_2 kind=proof fn=FrameDecoder::decode_blocks props=C10,C06,C05,C03,C08 tier=thorough bound="<= 2 blocks per call, block bodies <= 4 bytes, source <= 14 bytes (every truncation point)" timeout=2400
//@assume NOT RUN: harness fd1_decode_blocks_3 (3 blocks, 20-byte source) was never completed and is not registered; fd1_decode_blocks_2 takes ~10 min and is in the thorough tier
//@assume NOT RUN: harness fd2_decode_from_to (decode_from_to accounting) exhausts CBMC memory (14 GB) in every variant tried; it is kept in the file but not registered. decode_from_to's accounting (and the DF1 repair) is PROVED in Verus unit FD1V instead; decode_blocks for every number of blocks likewise, so fd1_decode_blocks_2 is only a bounded cross-check of the same statement with a concrete block decoder stub
//@assume in fd1_/fd2_ harnesses BlockDecoder::read_block_header and ::decode_block_content are contract stubs handing out scripted (symbolic) blocks; their own contracts are H1 and B1; DecodeBuffer::len is a ghost counter in fd1_decode_blocks
