//@unit S2 : do_offset_history equals RFC 8878 3.1.1.5 for every (offset_value >= 1, lit_len, history); frame = the 3-slot history only
//@file ruzstd/src/decoding/sequence_execution.rs
//@attrs fn=do_offset_history
#[cfg_attr(kani, kani::requires(offset_value >= 1))]
#[cfg_attr(kani, kani::modifies(scratch))]
#[cfg_attr(kani, kani::ensures(|r: &u32| {
    let (o, h) = crate::verif_spec::rfc::spec_offset_history(offset_value, lit_len, old(*scratch));
    *r == o && *scratch == h
}))]
//@end
//@module
#[cfg(any(kani, killingspark_zstd_rs_verif))]
#[allow(dead_code)]
mod verif_s2 {
    use super::do_offset_history;
    use crate::verif_spec::rfc::spec_offset_history;
    use crate::verif_spec::vk;

    /// modular proof of the in-place contract (all u32 x u32 x [u32;3], loop-free => complete)
    #[cfg(kani)]
    #[kani::proof_for_contract(do_offset_history)]
    fn s2_contract() {
        let mut h: [u32; 3] = kani::any();
        let of: u32 = kani::any();
        let ll: u32 = kani::any();
        do_offset_history(of, ll, &mut h);
    }

    /// witness harness: same statement as requires/ensures, assume/assert form; used for counterexamples and native replay
    #[cfg_attr(kani, kani::proof)]
    #[cfg_attr(killingspark_zstd_rs_verif, no_mangle)]
    pub fn s2_witness() {
        let mut h: [u32; 3] = vk::any();
        let of: u32 = vk::any();
        let ll: u32 = vk::any();
        vk::assume(of >= 1);
        let h0 = h;
        let r = do_offset_history(of, ll, &mut h);
        let (o, hs) = spec_offset_history(of, ll, h0);
        assert!(r == o, "S2: returned offset differs from RFC 3.1.1.5");
        assert!(h == hs, "S2: history after the sequence differs from RFC 3.1.1.5");
    }

    /// vacuity guard: the precondition is satisfiable and every rule is reachable
    #[cfg(kani)]
    #[kani::proof]
    fn s2_cover() {
        let mut h: [u32; 3] = kani::any();
        let of: u32 = kani::any();
        let ll: u32 = kani::any();
        kani::assume(of >= 1);
        let r = do_offset_history(of, ll, &mut h);
        kani::cover!(of > 3);
        kani::cover!(of == 3 && ll == 0 && r == 0);
        kani::cover!(of == 2 && ll > 0);
        kani::cover!(of == 1 && ll == 0);
    }

    /// canary: a deliberately false contract (slots 1 and 2 swapped) must be refuted
    #[cfg(kani)]
    #[kani::proof]
    fn s2_canary() {
        let mut h: [u32; 3] = kani::any();
        let of: u32 = kani::any();
        let ll: u32 = kani::any();
        kani::assume(of >= 1);
        let h0 = h;
        do_offset_history(of, ll, &mut h);
        let (_, hs) = spec_offset_history(of, ll, h0);
        assert!(h == [hs[0], hs[2], hs[1]]);
    }
}
//@end
//@harness s2_contract kind=contract fn=do_offset_history props=C14,C01,C03,C09 tier=quick profile=rel complete=yes witness=s2_witness
//@harness s2_witness kind=witness
//@harness s2_cover kind=cover props=C14 tier=quick profile=rel
//@harness s2_canary kind=canary props=C14 tier=quick profile=rel
