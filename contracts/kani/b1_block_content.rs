//@unit B1 : BlockDecoder::decode_block_content: header/body alternation, per block type exactly the right number of source bytes is consumed and reported (RLE: 1, raw: size, compressed: content size), the right buffer operation is invoked, a short source is an error
//@needs H4
//@file ruzstd/src/decoding/decode_buffer.rs
//@module
#[cfg(any(kani, killingspark_zstd_rs_verif))]
#[allow(dead_code, unreachable_pub, static_mut_refs)]
pub(crate) mod verif_b1d {
    use super::*;
    pub(crate) static mut FILL_CALLS: u32 = 0;
    pub(crate) static mut FILL_BYTE: u8 = 0;
    pub(crate) static mut FILL_LEN: usize = 0;
    pub(crate) static mut READER_CALLS: u32 = 0;
    pub(crate) static mut READER_LEN: usize = 0;

    /// contract stub of DecodeBuffer::extend_and_fill (R2/D0 prove the real one appends [b; n])
    pub(crate) fn stub_extend_and_fill(_b: &mut DecodeBuffer, fill_with: u8, fill_length: usize) {
        unsafe { FILL_CALLS += 1; FILL_BYTE = fill_with; FILL_LEN = fill_length; }
    }
    /// contract stub of DecodeBuffer::extend_from_reader (R2: takes exactly n bytes or fails)
    pub(crate) fn stub_extend_from_reader<R: Read>(_b: &mut DecodeBuffer, mut read: R, fill_length: usize) -> Result<(), crate::io::Error> {
        unsafe { READER_CALLS += 1; READER_LEN = fill_length; }
        let mut tmp = [0u8; 8];
        read.read_exact(&mut tmp[..fill_length])
    }
}
//@end
//@file ruzstd/src/decoding/block_decoder.rs
//@module
#[cfg(any(kani, killingspark_zstd_rs_verif))]
#[allow(dead_code, unreachable_pub, static_mut_refs)]
pub(crate) mod verif_b1 {
    use super::*;
    use crate::decoding::decode_buffer::verif_b1d::*;
    use crate::decoding::scratch::verif_h4s::cheap_scratch;

    pub(crate) static mut DEC_CALLS: u32 = 0;
    /// contract stub of decompress_block (Verus unit B2): takes exactly content_size bytes
    fn stub_decompress_block<R: Read>(_this: &mut BlockDecoder, header: &BlockHeader, _workspace: &mut DecoderScratch, mut source: R) -> Result<(), DecompressBlockError> {
        unsafe { DEC_CALLS += 1; }
        let mut tmp = [0u8; 8];
        source.read_exact(&mut tmp[..header.content_size as usize])?;
        Ok(())
    }

    #[cfg(kani)]
    #[kani::proof]
    #[kani::unwind(10)]
    #[kani::stub(crate::decoding::decode_buffer::DecodeBuffer::extend_and_fill, crate::decoding::decode_buffer::verif_b1d::stub_extend_and_fill)]
    #[kani::stub(crate::decoding::decode_buffer::DecodeBuffer::extend_from_reader, crate::decoding::decode_buffer::verif_b1d::stub_extend_from_reader)]
    #[kani::stub(BlockDecoder::decompress_block, stub_decompress_block)]
    fn b1_decode_block_content() {
        let t: u8 = kani::any();
        kani::assume(t < 3); // H1: read_block_header never hands out a Reserved header (the panic! arm is unreachable)
        let size: u32 = kani::any();
        kani::assume(size <= 6);
        let bt = match t { 0 => BlockType::Raw, 1 => BlockType::RLE, _ => BlockType::Compressed };
        // header shape as H1 produces it
        let header = BlockHeader {
            last_block: kani::any(),
            block_type: bt,
            decompressed_size: if t == 2 { 0 } else { size },
            content_size: if t == 1 { 1 } else { size },
        };
        let mut dec = new();
        let st: u8 = kani::any();
        dec.internal_state = match st { 0 => DecoderState::ReadyToDecodeNextBody, 1 => DecoderState::ReadyToDecodeNextHeader, _ => DecoderState::Failed };
        let mut ws = cheap_scratch(8);
        let bytes: [u8; 8] = kani::any();
        let len: usize = kani::any();
        kani::assume(len <= 8);
        let mut src: &[u8] = &bytes[..len];
        unsafe { FILL_CALLS = 0; READER_CALLS = 0; DEC_CALLS = 0; }
        let r = dec.decode_block_content(&header, &mut ws, &mut src);
        if st != 0 {
            assert!(r.is_err() && src.len() == len, "B1: a body may only be decoded right after its header; nothing is consumed otherwise");
            assert!(unsafe { FILL_CALLS + READER_CALLS + DEC_CALLS } == 0, "B1: no output in the wrong state");
        } else {
            let need = header.content_size as usize;
            if len < need {
                assert!(r.is_err(), "B1: a truncated block body must be an error");
            } else {
                assert!(matches!(r, Ok(n) if n == need as u64), "B1: reports the body size: 1 for RLE, Block_Size otherwise");
                assert!(src.len() == len - need, "B1: exactly the block body is taken from the source");
                assert!(matches!(dec.internal_state, DecoderState::ReadyToDecodeNextHeader), "B1: a header is expected next");
                match t {
                    1 => assert!(unsafe { FILL_CALLS == 1 && FILL_BYTE == bytes[0] && FILL_LEN == size as usize && READER_CALLS == 0 && DEC_CALLS == 0 },
                        "B1: an RLE block appends Block_Size copies of its single byte"),
                    0 => assert!(unsafe { READER_CALLS == 1 && READER_LEN == size as usize && FILL_CALLS == 0 && DEC_CALLS == 0 },
                        "B1: a raw block appends Block_Size bytes read from the source"),
                    _ => assert!(unsafe { DEC_CALLS == 1 && FILL_CALLS == 0 && READER_CALLS == 0 }, "B1: a compressed block goes to decompress_block"),
                }
            }
        }
        core::mem::forget(r);
        core::mem::forget(ws);
    }
}
//@end
//@harness b1_decode_block_content kind=proof fn=BlockDecoder::decode_block_content props=C10,C01,C03,C05 tier=quick bound="block sizes <= 6 bytes, source <= 8 bytes (the dispatch is size-agnostic)" timeout=1800
//@assume in b1_decode_block_content DecodeBuffer::extend_and_fill / extend_from_reader and BlockDecoder::decompress_block are recording contract stubs (their contracts: R2, D0, B2)
