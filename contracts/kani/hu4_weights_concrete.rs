//@unit HU4C : huff0_encoder weight assignment on concrete alphabet sizes (bounded executions of the real distribute_weights + redistribute_weights): the final weights stay Kraft-complete (sum of 2^weight is a power of two), start at 1, and no code is longer than the limit the caller passes (ilog2(n) + 2, at most 10 here, below the format's 11)
//@file ruzstd/src/huff0/huff0_encoder.rs
//@module
#[cfg(any(kani, killingspark_zstd_rs_verif))]
#[allow(dead_code, unreachable_pub)]
pub(crate) mod verif_hu4c {
    use super::*;

    pub(crate) fn body<const AMOUNT: usize>() {
        let mut weights = distribute_weights(AMOUNT);
        let limit = weights.len().ilog2() as usize + 2;
        redistribute_weights(&mut weights, limit);
        assert!(weights.len() == AMOUNT, "HU4: one weight per used symbol");
        let mut sum: u128 = 0;
        let mut maxw = 0usize;
        let mut i = 0;
        while i < AMOUNT {
            assert!(weights[i] >= 1 && weights[i] <= 64, "HU4: weights are at least 1");
            sum += 1u128 << weights[i];
            if weights[i] > maxw { maxw = weights[i]; }
            i += 1;
        }
        assert!(sum.is_power_of_two(), "HU4: the weights must stay Kraft-complete after redistribution");
        // number of bits of the longest code = log2(sum of 2^(w-1)) - min weight + 1 = log2(sum) - 1
        let depth = (sum.trailing_zeros() as usize) - 1;
        assert!(depth <= limit && depth <= 11, "HU4: no code longer than the limit (and never above the format's 11 bits)");
        assert!(weights[0] == 1, "HU4: weights are normalised to start at 1");
        core::mem::forget(weights);
    }
    macro_rules! hu4c {
        ($name:ident, $a:expr) => {
            #[cfg_attr(kani, kani::proof)]
            #[cfg_attr(kani, kani::unwind(260))]
            #[cfg_attr(killingspark_zstd_rs_verif, no_mangle)]
            pub fn $name() { body::<$a>(); }
        };
    }
    hu4c!(hu4c_weights_2, 2);
    hu4c!(hu4c_weights_3, 3);
    hu4c!(hu4c_weights_5, 5);
}
//@end
//@harness hu4c_weights_2 kind=proof fn=huff0_encoder::distribute_weights,huff0_encoder::redistribute_weights props=C13 tier=quick bound="CONCRETE: alphabet of 2 used symbols; a bounded execution" witness=hu4c_weights_2 timeout=1200
//@harness hu4c_weights_3 kind=proof fn=huff0_encoder::distribute_weights,huff0_encoder::redistribute_weights props=C13 tier=quick bound="CONCRETE: alphabet of 3 used symbols" witness=hu4c_weights_3 timeout=1200
//@harness hu4c_weights_5 kind=proof fn=huff0_encoder::distribute_weights,huff0_encoder::redistribute_weights props=C13 tier=quick bound="CONCRETE: alphabet of 5 used symbols" witness=hu4c_weights_5 timeout=1200
//@assume NOT RUN: alphabet sizes 17, 100 and 256 do not finish in CBMC within 20 min (concrete execution of nested Vec loops) and are not registered; distribute_weights is proved for every size in Verus unit HU4D, redistribute_weights only on these three sizes
