//@unit H5 : LiteralsSection::parse_from_header equals RFC 8878 3.1.1.3.1.1 for every 5-byte prefix and every source length; the panic arms are unreachable
//@file ruzstd/src/blocks/literals_section.rs
//@module
#[cfg(any(kani, killingspark_zstd_rs_verif))]
#[allow(dead_code, unreachable_pub)]
pub(crate) mod verif_h5 {
    use super::*;
    use crate::verif_spec::hdr::*;
    use crate::verif_spec::vk;

    fn same_type(a: &LiteralsSectionType, b: SpecLitType) -> bool {
        matches!(
            (a, b),
            (LiteralsSectionType::Raw, SpecLitType::Raw) | (LiteralsSectionType::RLE, SpecLitType::Rle)
                | (LiteralsSectionType::Compressed, SpecLitType::Compressed) | (LiteralsSectionType::Treeless, SpecLitType::Treeless)
        )
    }

    #[cfg_attr(kani, kani::proof)]
    #[cfg_attr(kani, kani::unwind(9))]
    #[cfg_attr(killingspark_zstd_rs_verif, no_mangle)]
    pub fn h5_parse_literals_header() {
        let bytes: [u8; 7] = vk::any();
        let len: usize = vk::any();
        vk::assume(len <= 7);
        let mut sec = LiteralsSection::new();
        let r = sec.parse_from_header(&bytes[..len]);
        let mut b5 = [0u8; 5];
        let mut i = 0;
        while i < 5 { if i < len { b5[i] = bytes[i]; } i += 1; }
        match spec_lit_header(b5, len) {
            None => assert!(r.is_err(), "H5: truncated literals section header must be rejected"),
            Some(s) => {
                let n = match r { Ok(n) => n, Err(_) => { assert!(false, "H5: complete literals section header rejected"); return; } };
                assert!(n as usize == s.header_len, "H5: literals section header length");
                assert!(same_type(&sec.ls_type, s.ltype), "H5: Literals_Block_Type");
                assert!(sec.regenerated_size == s.regenerated, "H5: Regenerated_Size");
                assert!(sec.compressed_size == s.compressed, "H5: Compressed_Size");
                assert!(sec.num_streams == s.streams, "H5: number of streams");
                assert!(matches!(sec.header_bytes_needed(bytes[0]), Ok(k) if k as usize == s.header_len), "H5: header_bytes_needed");
            }
        }
    }

    #[cfg(kani)]
    #[kani::proof]
    #[kani::unwind(9)]
    fn h5_cover() {
        let bytes: [u8; 5] = kani::any();
        let len: usize = kani::any();
        kani::assume(len <= 5);
        let mut sec = LiteralsSection::new();
        let r = sec.parse_from_header(&bytes[..len]);
        kani::cover!(matches!(r, Ok(5)) && sec.regenerated_size == 0x3FFFF && sec.compressed_size == Some(0x3FFFF));
        kani::cover!(matches!(r, Ok(3)) && sec.num_streams == Some(1));
        kani::cover!(matches!(r, Ok(3)) && sec.compressed_size.is_none() && sec.regenerated_size == 0xFFFFF);
        kani::cover!(matches!(r, Ok(1)) && sec.regenerated_size == 31);
        kani::cover!(r.is_err() && len == 4);
        kani::cover!(r.is_err() && len == 0);
    }

    /// canary: false claim that the 14-bit format stores Compressed_Size before Regenerated_Size
    #[cfg(kani)]
    #[kani::proof]
    #[kani::unwind(9)]
    fn h5_canary() {
        let bytes: [u8; 5] = kani::any();
        let mut sec = LiteralsSection::new();
        if let Ok(4) = sec.parse_from_header(&bytes[..]) {
            let v = u32::from_le_bytes([bytes[0], bytes[1], bytes[2], bytes[3]]);
            assert!(sec.compressed_size == Some((v >> 4) & 0x3FFF));
        }
    }
}
//@end
//@harness h5_parse_literals_header kind=proof fn=LiteralsSection::parse_from_header,LiteralsSection::header_bytes_needed,LiteralsSection::section_type props=C14,C01,C03 tier=quick complete=yes witness=h5_parse_literals_header
//@harness h5_cover kind=cover props=C14 tier=quick
//@harness h5_canary kind=canary props=C14 tier=quick
