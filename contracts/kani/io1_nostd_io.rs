//@unit IO1 : the no_std replacements of std::io (read_exact, Read for &[u8] / &mut T / Take, write_all, Write for &mut [u8] / Vec<u8> / &mut T) satisfy the documented contract of the std items they replace
//@file ruzstd/src/io_nostd.rs
//@module
#[cfg(any(kani, killingspark_zstd_rs_verif))]
#[allow(dead_code, unreachable_pub)]
pub(crate) mod verif_io1 {
    use super::*;
    use crate::verif_spec::vk;

    /// a reader that hands out `data` in scripted steps: each step is a chunk size, an Interrupted error, another error, or EOF
    pub(crate) struct Scripted {
        pub data: [u8; 8],
        pub pos: usize,
        pub end: usize,
        pub steps: [u8; 6], // 0 => Interrupted, 255 => Other error, k => at most k bytes
        pub step: usize,
    }
    impl Read for Scripted {
        fn read(&mut self, buf: &mut [u8]) -> Result<usize, Error> {
            let s = if self.step < 6 { self.steps[self.step] } else { 8 };
            self.step += 1;
            if s == 0 {
                return Err(Error::from(ErrorKind::Interrupted));
            }
            if s == 255 {
                return Err(Error::from(ErrorKind::Other));
            }
            let mut n = s as usize;
            if n > buf.len() { n = buf.len(); }
            if n > self.end - self.pos { n = self.end - self.pos; }
            buf[..n].copy_from_slice(&self.data[self.pos..self.pos + n]);
            self.pos += n;
            Ok(n)
        }
    }

    /// IO1: default read_exact == std::io::Read::read_exact's documented contract
    #[cfg_attr(kani, kani::proof)]
    #[cfg_attr(kani, kani::unwind(9))]
    #[cfg_attr(killingspark_zstd_rs_verif, no_mangle)]
    pub fn io1_read_exact() {
        let mut r = Scripted { data: vk::any(), pos: 0, end: vk::any(), steps: vk::any(), step: 0 };
        vk::assume(r.end <= 8);
        let mut i = 0;
        while i < 6 { vk::assume(r.steps[i] == 255 || r.steps[i] <= 8); i += 1; }
        let want: usize = vk::any();
        vk::assume(want <= 6);
        let mut buf = [0u8; 6];
        let res = r.read_exact(&mut buf[..want]);
        // spec: walk the script
        let mut got = 0usize;
        let mut st = 0usize;
        let mut hard = false;
        while got < want && st < 8 {
            let s = if st < 6 { r.steps[st] } else { 8 };
            st += 1;
            if s == 0 { continue; }
            if s == 255 { hard = true; break; }
            let mut n = s as usize;
            if n > want - got { n = want - got; }
            if n > r.end - got { n = r.end - got; }
            if n == 0 { break; } // EOF
            got += n;
        }
        if hard {
            assert!(matches!(&res, Err(e) if e.kind() == ErrorKind::Other), "IO1: read_exact must propagate a non-interrupt error");
        } else if got == want {
            assert!(res.is_ok(), "IO1: read_exact must succeed once the buffer is full (Interrupted is retried)");
            assert!(r.pos == want, "IO1: read_exact must take exactly buf.len() bytes");
        } else {
            assert!(matches!(&res, Err(e) if e.kind() == ErrorKind::UnexpectedEof), "IO1: EOF before the buffer is full must be UnexpectedEof");
        }
        let k: usize = vk::any();
        if k < got && !hard {
            assert!(buf[k] == r.data[k], "IO1: read_exact must fill the buffer with the next bytes in order");
        }
        core::mem::forget(res);
    }

    /// IO2: Read for &[u8], &mut T and Take
    #[cfg_attr(kani, kani::proof)]
    #[cfg_attr(kani, kani::unwind(9))]
    #[cfg_attr(killingspark_zstd_rs_verif, no_mangle)]
    pub fn io2_slice_take() {
        let data: [u8; 8] = vk::any();
        let len: usize = vk::any();
        let want: usize = vk::any();
        vk::assume(len <= 8 && want <= 8);
        let mut buf = [0u8; 8];
        let k: usize = vk::any();
        {
            let mut src: &[u8] = &data[..len];
            let n = (&mut src).read(&mut buf[..want]).unwrap();
            let m = if len < want { len } else { want };
            assert!(n == m && src.len() == len - m, "IO2: slice read returns min(len, buf.len()) and advances the slice");
            if k < m { assert!(buf[k] == data[k], "IO2: slice read copies the bytes"); }
        }
        {
            let limit: u64 = vk::any();
            let mut t = (&data[..len]).take(limit);
            let mut buf2 = [0u8; 8];
            let n = t.read(&mut buf2[..want]).unwrap();
            let mut m = if len < want { len } else { want };
            if (m as u64) > limit { m = limit as usize; }
            assert!(n == m && t.limit() == limit - m as u64, "IO2: Take::read returns at most limit bytes and decreases the limit by what was read");
            assert!(t.get_ref().len() == len - m, "IO2: Take::read advances the inner reader by what was read");
            if k < m { assert!(buf2[k] == data[k], "IO2: Take::read copies the bytes"); }
        }
    }

    /// a writer that accepts scripted amounts
    pub(crate) struct SinkW {
        pub log: [u8; 8],
        pub n: usize,
        pub steps: [u8; 6], // 0 => Interrupted, 255 => Other error, 254 => Ok(0), k => accepts at most k
        pub step: usize,
    }
    impl Write for SinkW {
        fn write(&mut self, buf: &[u8]) -> Result<usize, Error> {
            let s = if self.step < 6 { self.steps[self.step] } else { 8 };
            self.step += 1;
            if s == 0 { return Err(Error::from(ErrorKind::Interrupted)); }
            if s == 255 { return Err(Error::from(ErrorKind::Other)); }
            if s == 254 { return Ok(0); }
            let mut k = s as usize;
            if k > buf.len() { k = buf.len(); }
            if self.n + k <= 8 { self.log[self.n..self.n + k].copy_from_slice(&buf[..k]); }
            self.n += k;
            Ok(k)
        }
        fn flush(&mut self) -> Result<(), Error> { Ok(()) }
    }

    /// IO3: default write_all and the Write impls
    #[cfg_attr(kani, kani::proof)]
    #[cfg_attr(kani, kani::unwind(9))]
    #[cfg_attr(killingspark_zstd_rs_verif, no_mangle)]
    pub fn io3_write_all() {
        let data: [u8; 6] = vk::any();
        let len: usize = vk::any();
        vk::assume(len <= 6);
        let mut w = SinkW { log: [0; 8], n: 0, steps: vk::any(), step: 0 };
        let mut i = 0;
        while i < 6 { vk::assume(w.steps[i] >= 254 || w.steps[i] <= 8); i += 1; }
        let res = (&mut w).write_all(&data[..len]);
        let mut done = 0usize;
        let mut st = 0usize;
        let mut outcome = 0u8; // 0 ok, 1 write-zero, 2 other
        while done < len && st < 8 {
            let s = if st < 6 { w.steps[st] } else { 8 };
            st += 1;
            if s == 0 { continue; }
            if s == 255 { outcome = 2; break; }
            if s == 254 { outcome = 1; break; }
            let mut k = s as usize;
            if k > len - done { k = len - done; }
            done += k;
        }
        match outcome {
            0 => assert!(res.is_ok() && w.n == len, "IO3: write_all writes everything (Interrupted is retried)"),
            1 => assert!(matches!(&res, Err(e) if e.kind() == ErrorKind::WriteAllEof), "IO3: a writer that accepts nothing must be an error (WriteZero equivalent)"),
            _ => assert!(matches!(&res, Err(e) if e.kind() == ErrorKind::Other), "IO3: write_all must propagate a non-interrupt error"),
        }
        assert!(w.n == done, "IO3: exactly the accepted bytes reach the writer");
        let k: usize = vk::any();
        if k < done { assert!(w.log[k] == data[k], "IO3: bytes are written in order"); }
        core::mem::forget(res);
        // &mut [u8] and Vec<u8>
        let mut target = [0u8; 4];
        {
            let mut t: &mut [u8] = &mut target[..];
            let n = t.write(&data[..len]).unwrap();
            let m = if len < 4 { len } else { 4 };
            assert!(n == m && t.len() == 4 - m, "IO3: Write for &mut [u8] writes min(len, space) and shrinks the slice");
        }
        if k < len && k < 4 { assert!(target[k] == data[k], "IO3: Write for &mut [u8] copies the bytes"); }
        let mut v: alloc::vec::Vec<u8> = alloc::vec::Vec::new();
        let n = v.write(&data[..len]).unwrap();
        assert!(n == len && v.len() == len, "IO3: Write for Vec<u8> appends everything");
        if k < len { assert!(v[k] == data[k], "IO3: Write for Vec<u8> appends the bytes"); }
    }

    #[cfg(kani)]
    #[kani::proof]
    #[kani::unwind(9)]
    fn io1_canary() {
        let mut r = Scripted { data: kani::any(), pos: 0, end: 8, steps: [1, 0, 255, 1, 1, 1], step: 0 };
        let mut buf = [0u8; 4];
        // false: claims an error after a partial read is swallowed
        assert!(r.read_exact(&mut buf).is_ok());
    }
}
//@end
//@harness io1_read_exact kind=proof fn=io_nostd::Read::read_exact props=C18,C10 tier=quick features=nostd bound="buffer <= 6 bytes, reader script of 6 steps" witness=io1_read_exact
//@harness io2_slice_take kind=proof fn=io_nostd::Read_for_slice::read,io_nostd::Read_for_mut_ref::read,io_nostd::Take::read,io_nostd::Read::take props=C18 tier=quick features=nostd bound="source <= 8 bytes" witness=io2_slice_take
//@harness io3_write_all kind=proof fn=io_nostd::Write::write_all,io_nostd::Write_for_mut_slice::write,io_nostd::Write_for_Vec::write,io_nostd::Write_for_mut_ref::write props=C18 tier=quick features=nostd bound="data <= 6 bytes, writer script of 6 steps" witness=io3_write_all
//@harness io1_canary kind=canary props=C18 tier=quick features=nostd
