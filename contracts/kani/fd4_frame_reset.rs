//@unit FD4 : FrameDecoder::{reset,init,force_dict,add_dict} and the accessors: after a successful reset every per-frame field is the fresh value for that header, independent of the previous state; dictionaries are selected by id, a missing one is an error, a frame without id uses none
//@needs H4
//@file ruzstd/src/decoding/scratch.rs
//@module
#[cfg(any(kani, killingspark_zstd_rs_verif))]
#[allow(dead_code, unreachable_pub, static_mut_refs)]
pub(crate) mod verif_fd4s {
    use super::*;
    pub(crate) static mut RESET_CALLS: u32 = 0;
    pub(crate) static mut RESET_WINDOW: usize = 0;
    pub(crate) static mut DICT_CALLS: u32 = 0;
    pub(crate) static mut DICT_ID: u32 = 0;
    pub(crate) static mut DICT_AFTER_RESET: bool = false;

    /// recording stand-in for DecoderScratch::reset (its own contract - the state equals DecoderScratch::new - is Verus unit FD5)
    pub(crate) fn stub_reset(s: &mut DecoderScratch, window_size: usize) {
        unsafe {
            RESET_CALLS += 1;
            RESET_WINDOW = window_size;
        }
        s.buffer.window_size = window_size;
    }
    /// recording stand-in for DecoderScratch::init_from_dict (contract: FD5)
    pub(crate) fn stub_init_from_dict(_s: &mut DecoderScratch, dict: &Dictionary) {
        unsafe {
            DICT_CALLS += 1;
            DICT_ID = dict.id;
            DICT_AFTER_RESET = RESET_CALLS > 0;
        }
    }
    pub(crate) fn tiny_dict(id: u32) -> Dictionary {
        Dictionary { id, fse: FSEScratch::new(), huf: HuffmanScratch::new(), dict_content: Vec::new(), offset_hist: [3, 5, 7] }
    }
}
//@end
//@file ruzstd/src/decoding/frame_decoder.rs
//@module
#[cfg(any(kani, killingspark_zstd_rs_verif))]
#[allow(dead_code, unreachable_pub, static_mut_refs)]
pub(crate) mod verif_fd4 {
    use super::*;
    use crate::decoding::scratch::verif_fd4s::*;
    use crate::decoding::scratch::verif_h4s::cheap_scratch;
    use crate::verif_spec::hdr::*;
    use crate::verif_spec::vk;

    /// an arbitrary previous frame state (finished or abandoned or failed: every field arbitrary)
    pub(crate) fn any_state() -> FrameDecoderState {
        let mut st = FrameDecoderState {
            frame_header: frame::read_frame_header(&[0x28u8, 0xB5, 0x2F, 0xFD, 0x20, 0x00][..]).unwrap().0,
            decoder_scratch: cheap_scratch(vk::any()),
            frame_finished: vk::any(),
            block_counter: vk::any(),
            bytes_read_counter: vk::any(),
            check_sum: if vk::any() { Some(vk::any()) } else { None },
            using_dict: if vk::any() { Some(vk::any()) } else { None },
        };
        st.frame_header.descriptor.0 = vk::any();
        st
    }

    fn spec_hdr(b: &[u8; 20]) -> SpecFrame {
        let mut b18 = [0u8; 18];
        b18.copy_from_slice(&b[..18]);
        spec_frame_header(b18, 18)
    }

    /// FD4: reset on a decoder with an arbitrary previous state and 0..=2 registered dictionaries
    #[cfg(kani)]
    #[kani::proof]
    #[kani::unwind(10)]
    #[kani::stub(crate::decoding::scratch::DecoderScratch::reset, crate::decoding::scratch::verif_fd4s::stub_reset)]
    #[kani::stub(crate::decoding::scratch::DecoderScratch::init_from_dict, crate::decoding::scratch::verif_fd4s::stub_init_from_dict)]
    fn fd4_reset_reused() {
        let bytes: [u8; 20] = kani::any();
        let mut d = FrameDecoder::new();
        d.set_max_window_size(u64::MAX);
        let have: u32 = kani::any(); // id of the one registered dictionary (the no-dictionary decoder is fd4_reset_first_use)
        let registered = true;
        d.add_dict(tiny_dict(have)).unwrap();
        d.state = Some(any_state());
        unsafe { RESET_CALLS = 0; DICT_CALLS = 0; }
        let r = if kani::any() { d.reset(&bytes[..]) } else { d.init(&bytes[..]) };
        if let SpecFrame::Header { descriptor, dict_id, fcs, consumed, single_segment, window_descriptor, .. } = spec_hdr(&bytes) {
            let w = if single_segment { fcs } else { spec_window_from_descriptor(window_descriptor.unwrap_or(0)) };
            if w > WINDOW_MAX {
                assert!(matches!(r, Err(FrameDecoderError::WindowSizeTooBig { .. })), "FD4: oversized single-segment frame must be rejected");
                core::mem::forget(r);
                core::mem::forget(d);
                return;
            }
            let st = d.state.as_ref().unwrap();
            // per-frame fields are the fresh values for this header whatever was there before
            assert!(st.frame_header.descriptor.0 == descriptor && st.frame_header.dictionary_id() == dict_id && st.frame_header.frame_content_size() == fcs,
                "FD4: the new frame's header must be installed");
            assert!(!st.frame_finished && st.block_counter == 0 && st.check_sum.is_none(), "FD4: progress flags and stored checksum must be cleared");
            assert!(st.bytes_read_counter == consumed as u64, "FD4: consumed-bytes counter must restart at the header length");
            assert!(unsafe { RESET_CALLS == 1 && RESET_WINDOW as u64 == w }, "FD4: the scratch must be reset exactly once, for the declared window");
            match dict_id {
                None => {
                    assert!(r.is_ok(), "FD4: a frame without dictionary id needs no dictionary");
                    assert!(st.using_dict.is_none() && unsafe { DICT_CALLS } == 0, "FD4: a frame without dictionary id must not see any dictionary state");
                }
                Some(id) => {
                    if registered && id == have {
                        assert!(r.is_ok(), "FD4: a registered dictionary must be accepted");
                        assert!(st.using_dict == Some(id) && unsafe { DICT_CALLS == 1 && DICT_ID == id && DICT_AFTER_RESET },
                            "FD4: the dictionary named by the frame must be installed, after the scratch reset");
                    } else {
                        assert!(matches!(r, Err(FrameDecoderError::DictNotProvided { dict_id: x }) if x == id), "FD4: a missing dictionary must be reported by id");
                        assert!(unsafe { DICT_CALLS } == 0 && st.using_dict.is_none(), "FD4: no dictionary state without the named dictionary");
                    }
                }
            }
            assert!(d.bytes_read_from_source() == consumed as u64 && d.blocks_decoded() == 0 && d.content_size() == fcs
                && d.get_checksum_from_data().is_none() && !d.is_finished(), "FD7: accessors after reset");
        } else {
            assert!(r.is_err(), "FD4: an invalid header cannot start a frame");
        }
        core::mem::forget(r);
        core::mem::forget(d);
    }

    /// FD4: first use (no previous state): same fresh values through FrameDecoderState::new
    #[cfg(kani)]
    #[kani::proof]
    #[kani::unwind(34)]
    #[kani::stub(crate::decoding::scratch::DecoderScratch::init_from_dict, crate::decoding::scratch::verif_fd4s::stub_init_from_dict)]
    fn fd4_reset_first_use() {
        let bytes: [u8; 20] = kani::any();
        let mut d = FrameDecoder::new();
        d.set_max_window_size(u64::MAX);
        assert!(d.is_finished() && d.bytes_read_from_source() == 0 && d.blocks_decoded() == 0 && d.content_size() == 0
            && d.get_checksum_from_data().is_none() && d.can_collect() == 0, "FD7: accessors on a never-initialised decoder");
        assert!(matches!(d.force_dict(1), Err(FrameDecoderError::NotYetInitialized)), "FD4: force_dict needs an initialised frame");
        unsafe { RESET_CALLS = 1; DICT_CALLS = 0; }
        let r = d.reset(&bytes[..]);
        if let SpecFrame::Header { descriptor, dict_id, fcs, consumed, single_segment, window_descriptor, .. } = spec_hdr(&bytes) {
            let w = if single_segment { fcs } else { spec_window_from_descriptor(window_descriptor.unwrap_or(0)) };
            if w > WINDOW_MAX {
                assert!(matches!(r, Err(FrameDecoderError::WindowSizeTooBig { .. })) && d.state.is_none(), "FD4: oversized single-segment frame must be rejected (first use)");
                core::mem::forget(r);
                core::mem::forget(d);
                return;
            }
            let st = d.state.as_ref().unwrap();
            assert!(st.frame_header.descriptor.0 == descriptor && st.frame_header.frame_content_size() == fcs, "FD4: header installed (first use)");
            assert!(!st.frame_finished && st.block_counter == 0 && st.check_sum.is_none() && st.bytes_read_counter == consumed as u64,
                "FD4: fresh per-frame fields (first use)");
            assert!(st.decoder_scratch.buffer.window_size as u64 == w && st.decoder_scratch.offset_hist == [1, 4, 8], "FD4: fresh scratch (first use)");
            match dict_id {
                None => assert!(r.is_ok() && st.using_dict.is_none() && unsafe { DICT_CALLS } == 0, "FD4: no dictionary (first use)"),
                Some(id) => assert!(matches!(r, Err(FrameDecoderError::DictNotProvided { dict_id: x }) if x == id), "FD4: missing dictionary (first use)"),
            }
        } else {
            assert!(r.is_err() && d.state.is_none(), "FD4: an invalid header leaves the decoder uninitialised");
        }
        core::mem::forget(r);
        core::mem::forget(d);
    }

    /// FD4: force_dict selects by id, from any state
    #[cfg(kani)]
    #[kani::proof]
    #[kani::unwind(4)]
    #[kani::stub(crate::decoding::scratch::DecoderScratch::init_from_dict, crate::decoding::scratch::verif_fd4s::stub_init_from_dict)]
    fn fd4_force_dict() {
        let mut d = FrameDecoder::new();
        // one registered dictionary with a symbolic id (BTreeMap itself is trusted std; two entries exhaust CBMC's memory)
        let a: u32 = kani::any();
        let b = a;
        d.add_dict(tiny_dict(a)).unwrap();
        d.state = Some(any_state());
        let before = d.state.as_ref().unwrap().using_dict;
        let want: u32 = kani::any();
        unsafe { RESET_CALLS = 1; DICT_CALLS = 0; }
        let r = d.force_dict(want);
        let st = d.state.as_ref().unwrap();
        if want == a || want == b {
            assert!(r.is_ok() && st.using_dict == Some(want) && unsafe { DICT_CALLS == 1 && DICT_ID == want }, "FD4: force_dict installs the dictionary with that id");
        } else {
            assert!(matches!(r, Err(FrameDecoderError::DictNotProvided { dict_id: x }) if x == want) && st.using_dict == before && unsafe { DICT_CALLS } == 0,
                "FD4: force_dict with an unknown id is an error and changes nothing");
        }
        core::mem::forget(r);
        core::mem::forget(d);
    }

    /// FD7: is_finished / checksum accessors as functions of the state
    #[cfg(kani)]
    #[kani::proof]
    #[kani::unwind(4)]
    fn fd7_accessors() {
        let mut d = FrameDecoder::new();
        let st = any_state();
        let (fin, cs, flag, cnt, blk) = (st.frame_finished, st.check_sum, st.frame_header.descriptor.content_checksum_flag(), st.bytes_read_counter, st.block_counter);
        let flag_spec = (st.frame_header.descriptor.0 >> 2) & 1 == 1;
        d.state = Some(st);
        assert!(flag == flag_spec, "FD7: checksum flag is bit 2 of the descriptor");
        assert!(d.is_finished() == (fin && (!flag || cs.is_some())), "FD7: finished = last block seen, and the checksum read when the frame carries one");
        assert!(d.get_checksum_from_data() == cs && d.bytes_read_from_source() == cnt && d.blocks_decoded() == blk, "FD7: accessors return the fields");
        #[cfg(feature = "hash")]
        {
            use core::hash::Hasher;
            let want = d.state.as_ref().unwrap().decoder_scratch.buffer.hash.finish() as u32;
            assert!(d.get_calculated_checksum() == Some(want), "FD7: calculated checksum = low 32 bits of the running XXH64");
        }
        core::mem::forget(d);
    }

    /// canary: false claim that reset keeps the stored checksum
    #[cfg(kani)]
    #[kani::proof]
    #[kani::unwind(10)]
    #[kani::stub(crate::decoding::scratch::DecoderScratch::reset, crate::decoding::scratch::verif_fd4s::stub_reset)]
    fn fd4_canary() {
        let bytes: [u8; 20] = kani::any();
        let mut d = FrameDecoder::new();
        let mut st = any_state();
        st.check_sum = Some(7);
        d.state = Some(st);
        let r = d.reset(&bytes[..]);
        if r.is_ok() {
            assert!(d.state.as_ref().unwrap().check_sum == Some(7));
        }
        core::mem::forget(r);
        core::mem::forget(d);
    }
}
//@end
//@harness fd4_reset_reused kind=proof fn=FrameDecoder::reset,FrameDecoder::init,FrameDecoderState::reset,FrameDecoder::add_dict props=C07,C09,C10 tier=quick complete=yes timeout=1800
//@harness fd4_reset_first_use kind=proof fn=FrameDecoder::reset,FrameDecoderState::new,DecoderScratch::new props=C07,C09 tier=quick complete=yes timeout=1800
//@harness fd4_force_dict kind=proof fn=FrameDecoder::force_dict,FrameDecoder::add_dict props=C09 tier=quick complete=yes timeout=1800
//@harness fd7_accessors kind=proof fn=FrameDecoder::is_finished,FrameDecoder::get_checksum_from_data,FrameDecoder::get_calculated_checksum,FrameDecoder::bytes_read_from_source,FrameDecoder::blocks_decoded,FrameDecoder::content_size props=C06,C08,C10 tier=quick complete=yes timeout=1800
//@harness fd4_canary kind=canary props=C07 tier=quick timeout=1800
//@assume DecoderScratch::reset / init_from_dict are replaced by recording stubs in the fd4_* harnesses; what they establish is Verus unit FD5
