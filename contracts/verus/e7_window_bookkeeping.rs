//@unit E7V : MatchGenerator window bookkeeping, for every history of blocks and every window size: after reserve / add_data the window holds exactly the most recent blocks in chronological order (a suffix of what it held, plus the new block), window_size is the retained length and never exceeds the maximum, and base_offset of every entry is the distance from its first byte to the first byte of the newest entry (what every reported match distance is computed from); no index / overflow panic and the internal asserts hold
//@props C17,C15
//@tier quick
//@profile rel
//@assume SuffixStore is opaque here (it does not take part in window bookkeeping); add_suffixes_till is abstract with the frame contract `changes nothing but the last entry's suffix store` (its body is covered by the bounded Kani unit E7)
//@assume release configuration: `#[cfg(debug_assertions)]` statements and the debug-only field concat_window are dropped by rule R-cfgdbg
//@assume R-for: the iterator of `for entry in self.window.iter_mut()` is given a name (`it:`) so that the loop invariant can refer to it; spec-only syntax, same loop
//@assume R-type: `let mut candidate = None;` in next_sequence gets its (inferred) type written out, Option<(usize, usize)>, because the loop invariant mentions it before inference can see a use
//@assume R-closure: the closure in `.map(|last| last.data.len())` gets a type annotation and an `ensures` (Verus closures have no inferred postcondition); body unchanged
//@assume max_window_size <= usize::MAX / 2 is a precondition (the only constructor call passes 128 KiB x 1)
//@assume the recycling callback is an arbitrary FnMut whose precondition is `true`; what it does with the evicted buffers is outside this unit
use vstd::prelude::*;
verus! {

global size_of usize == 8;

//@const-check file=ruzstd/src/encoding/match_generator.rs text="const MIN_MATCH_LEN: usize = 5;"
pub const MIN_MATCH_LEN: usize = 5;

#[verifier::external_body]
pub struct SuffixStore { _p: core::marker::PhantomData<u8> }

impl SuffixStore {
    /// abstract content of the hash store: index `i` is held in some slot
    pub uninterp spec fn holds(&self, i: int) -> bool;

    /// contract of the real SuffixStore::get (Kani obligation E7.e7_suffix_store): only stored indices come back
    #[verifier::external_body]
    pub fn get(&self, suffix: &[u8]) -> (r: Option<usize>)
        requires suffix@.len() >= MIN_MATCH_LEN,
        ensures r matches Some(i) ==> self.holds(i as int),
    { unimplemented!() }
    #[verifier::external_body]
    pub fn contains_key(&self, suffix: &[u8]) -> (r: bool)
        requires suffix@.len() >= MIN_MATCH_LEN,
    { unimplemented!() }
    /// contract of the real SuffixStore::insert (Kani obligation E7.e7_suffix_store): nothing but `idx` is added
    #[verifier::external_body]
    pub fn insert(&mut self, suffix: &[u8], idx: usize)
        requires suffix@.len() >= MIN_MATCH_LEN, idx < usize::MAX,
        ensures forall|i: int| #[trigger] final(self).holds(i) ==> old(self).holds(i) || i == idx,
    { unimplemented!() }
}

//@const-check file=ruzstd/src/encoding/mod.rs text="    Triple {\n        literals: &'data [u8],\n        offset: usize,\n        match_len: usize,\n    },"
//@const-check file=ruzstd/src/encoding/mod.rs text="    Literals { literals: &'data [u8] },"
pub enum Sequence<'data> {
    Triple { literals: &'data [u8], offset: usize, match_len: usize },
    Literals { literals: &'data [u8] },
}

//@struct-check file=ruzstd/src/encoding/match_generator.rs name=WindowEntry fields="data: Vec<u8> | suffixes: SuffixStore | base_offset: usize"
pub struct WindowEntry {
    pub data: Vec<u8>,
    pub suffixes: SuffixStore,
    pub base_offset: usize,
}

//@struct-check file=ruzstd/src/encoding/match_generator.rs name=MatchGenerator fields="max_window_size: usize | window: Vec<WindowEntry> | window_size: usize | suffix_idx: usize | last_idx_in_sequence: usize"
pub struct MatchGenerator {
    pub max_window_size: usize,
    pub window: Vec<WindowEntry>,
    pub window_size: usize,
    pub suffix_idx: usize,
    pub last_idx_in_sequence: usize,
}

/// total length of the entries from index `from` on
pub open spec fn len_from(w: Seq<WindowEntry>, from: int) -> int
    decreases w.len() - from,
{
    if from >= w.len() || from < 0 { 0 } else { w[from].data@.len() + len_from(w, from + 1) }
}
/// distance from the first byte of entry i to the first byte of the newest entry
pub open spec fn dist_to_last(w: Seq<WindowEntry>, i: int) -> int {
    len_from(w, i) - w[w.len() - 1].data@.len()
}
/// the blocks held, oldest first
pub open spec fn blocks(w: Seq<WindowEntry>) -> Seq<Seq<u8>> { Seq::new(w.len(), |i: int| w[i].data@) }

pub proof fn lemma_len_from_suffix(w: Seq<WindowEntry>, k: int, from: int)
    requires 0 <= k <= w.len(), 0 <= from,
    ensures len_from(w.subrange(k, w.len() as int), from) == len_from(w, from + k),
    decreases w.len() - from - k,
{
    let s = w.subrange(k, w.len() as int);
    if from >= s.len() {
    } else {
        lemma_len_from_suffix(w, k, from + 1);
    }
}
pub proof fn lemma_len_from_push(w: Seq<WindowEntry>, e: WindowEntry, from: int)
    requires 0 <= from <= w.len(),
    ensures len_from(w.push(e), from) == len_from(w, from) + e.data@.len(),
    decreases w.len() - from,
{
    if from < w.len() {
        lemma_len_from_push(w, e, from + 1);
        assert(w.push(e)[from] == w[from]);
    } else {
        assert(len_from(w.push(e), from + 1) == 0);
    }
}
/// len_from depends on the data lengths only
pub proof fn lemma_len_from_same_lens(a: Seq<WindowEntry>, b: Seq<WindowEntry>, from: int)
    requires a.len() == b.len(), forall|i: int| 0 <= i < a.len() ==> (#[trigger] a[i]).data@.len() == b[i].data@.len(), 0 <= from,
    ensures len_from(a, from) == len_from(b, from),
    decreases a.len() - from,
{
    if from < a.len() {
        lemma_len_from_same_lens(a, b, from + 1);
    }
}
pub proof fn lemma_len_from_mono(w: Seq<WindowEntry>, i: int)
    requires 0 <= i,
    ensures len_from(w, i) <= len_from(w, 0),
    decreases i,
{
    if i > 0 {
        lemma_len_from_mono(w, i - 1);
        lemma_len_from_nonneg(w, i);
        if i - 1 < w.len() { assert(len_from(w, i - 1) == w[i - 1].data@.len() + len_from(w, i)); } else { assert(len_from(w, i) == 0); lemma_len_from_nonneg(w, i - 1); }
    }
}
pub proof fn lemma_len_from_nonneg(w: Seq<WindowEntry>, from: int)
    ensures len_from(w, from) >= 0,
    decreases w.len() - from,
{
    if 0 <= from < w.len() { lemma_len_from_nonneg(w, from + 1); }
}

pub proof fn lemma_len_from_ge_last(w: Seq<WindowEntry>, i: int)
    requires 0 <= i < w.len(),
    ensures len_from(w, i) >= w[w.len() - 1].data@.len(), i < w.len() - 1 ==> len_from(w, i) >= w[i].data@.len() + w[w.len() - 1].data@.len(),
    decreases w.len() - i,
{
    if i < w.len() - 1 { lemma_len_from_ge_last(w, i + 1); } else { assert(len_from(w, i + 1) == 0); }
}

/// distances only depend on the data lengths: they survive changes to the suffix stores
pub proof fn lemma_wf_transfer(w_old: Seq<WindowEntry>, w_new: Seq<WindowEntry>)
    requires same_data(w_new, w_old), forall|i: int| 0 <= i < w_old.len() ==> (#[trigger] w_old[i]).base_offset == dist_to_last(w_old, i),
    ensures forall|i: int| 0 <= i < w_new.len() ==> (#[trigger] w_new[i]).base_offset == dist_to_last(w_new, i), len_from(w_new, 0) == len_from(w_old, 0),
{
    lemma_len_from_same_lens(w_new, w_old, 0);
    assert forall|i: int| 0 <= i < w_new.len() implies (#[trigger] w_new[i]).base_offset == dist_to_last(w_new, i) by {
        lemma_len_from_same_lens(w_new, w_old, i);
        assert(w_old[i].base_offset == dist_to_last(w_old, i));
    }
}

/// a true match: `match_len` bytes starting at `mi` in retained entry `m` equal the bytes starting at `s` in the newest entry, the source range
/// lies inside that entry (starting before `s` if it is the newest entry itself: an overlapping match is a legal LZ77 match), and `offset` is
/// exactly the distance between the two positions
pub open spec fn match_at(w: Seq<WindowEntry>, s: int, offset: int, match_len: int, m: int, mi: int) -> bool {
    let n = w.len() as int;
    let last = w[n - 1].data@;
    &&& 0 <= m < n && 0 <= mi
    &&& (if m == n - 1 { mi < s } else { mi + match_len <= w[m].data@.len() })
    &&& s + match_len <= last.len()
    &&& offset == dist_to_last(w, m) + s - mi
    &&& forall|i: int| 0 <= i < match_len ==> #[trigger] w[m].data@[mi + i] == last[s + i]
}
/// what the match finder may report for the newest block when the previous sequence ended at `from`
pub open spec fn seq_ok(w: Seq<WindowEntry>, from: int, max_window: int, seq: Sequence) -> bool {
    let n = w.len() as int;
    let last = w[n - 1].data@;
    match seq {
        Sequence::Literals { literals } => from <= last.len() && literals@ == last.subrange(from, last.len() as int),
        Sequence::Triple { literals, offset, match_len } => {
            let s = from + literals@.len();
            &&& s + match_len <= last.len() && literals@ == last.subrange(from, s)
            &&& match_len >= MIN_MATCH_LEN
            // the distance stays inside the data still retained, hence inside the advertised window
            &&& 1 <= offset <= len_from(w, 0) - last.len() + s && offset <= max_window
            &&& exists|m: int, mi: int| match_at(w, s, offset as int, match_len as int, m, mi)
        }
    }
}
/// data and distances of two windows agree (only suffix stores may differ)
pub open spec fn same_data(a: Seq<WindowEntry>, b: Seq<WindowEntry>) -> bool {
    a.len() == b.len() && forall|i: int| 0 <= i < a.len() ==> (#[trigger] a[i]).data == b[i].data && a[i].base_offset == b[i].base_offset
}

impl MatchGenerator {
    /// invariant of the suffix stores: every stored index lies inside its entry, and below suffix_idx in the newest entry
    pub open spec fn sfx_ok(&self) -> bool {
        let w = self.window@;
        let n = w.len() as int;
        &&& n > 0 ==> self.last_idx_in_sequence <= self.suffix_idx <= w[n - 1].data@.len()
        &&& forall|m: int, i: int| 0 <= m < n - 1 && #[trigger] w[m].suffixes.holds(i) ==> 0 <= i < w[m].data@.len()
        &&& forall|i: int| n > 0 && #[trigger] w[n - 1].suffixes.holds(i) ==> 0 <= i < self.suffix_idx
    }

    /// contract of common_prefix_len (iterator adapters: outside Verus; Kani obligation E7.e7_common_prefix, bounded lengths)
    #[verifier::external_body]
    pub fn common_prefix_len(a: &[u8], b: &[u8]) -> (r: usize)
        ensures r <= a@.len(), r <= b@.len(), forall|i: int| 0 <= i < r ==> a@[i] == b@[i],
    { unimplemented!() }

    /// representation invariant of the window
    pub open spec fn wf(&self) -> bool {
        let w = self.window@;
        &&& self.window_size == len_from(w, 0)
        &&& self.window_size <= self.max_window_size
        &&& forall|i: int| 0 <= i < w.len() ==> (#[trigger] w[i]).base_offset == dist_to_last(w, i)
    }

    #[verifier::external_body]
    pub fn add_suffixes_till(&mut self, idx: usize)
        requires old(self).window@.len() > 0, old(self).suffix_idx <= idx <= old(self).window@[old(self).window@.len() - 1].data@.len(),
        ensures
            forall|i: int| 0 <= i < old(self).window@.len() - 1 ==> (#[trigger] final(self).window@[i]).suffixes == old(self).window@[i].suffixes,
            forall|i: int| #[trigger] final(self).window@[old(self).window@.len() - 1].suffixes.holds(i)
                ==> old(self).window@[old(self).window@.len() - 1].suffixes.holds(i) || (old(self).suffix_idx <= i < idx),
            final(self).max_window_size == old(self).max_window_size, final(self).window_size == old(self).window_size,
            final(self).suffix_idx == old(self).suffix_idx, final(self).last_idx_in_sequence == old(self).last_idx_in_sequence,
            final(self).window@.len() == old(self).window@.len(),
            forall|i: int| 0 <= i < old(self).window@.len() ==> (#[trigger] final(self).window@[i]).data == old(self).window@[i].data
                && final(self).window@[i].base_offset == old(self).window@[i].base_offset,
    { unimplemented!() }

//@extract file=ruzstd/src/encoding/match_generator.rs impl="^impl MatchGenerator \\{" fn=new
//@spec
        ensures r.wf(), r.window@.len() == 0, r.max_window_size == max_size, r.suffix_idx == 0, r.last_idx_in_sequence == 0,
//@end

//@extract file=ruzstd/src/encoding/match_generator.rs impl="^impl MatchGenerator \\{" fn=skip_matching ret=
//@spec
        requires old(self).wf(), old(self).sfx_ok(), old(self).window@.len() > 0,
        ensures final(self).wf(), final(self).sfx_ok(), blocks(final(self).window@) =~= blocks(old(self).window@), final(self).max_window_size == old(self).max_window_size,
            final(self).suffix_idx == old(self).window@[old(self).window@.len() - 1].data@.len(),
            final(self).last_idx_in_sequence == final(self).suffix_idx,
//@ghost at=end
        proof {
            lemma_len_from_same_lens(self.window@, old(self).window@, 0);
            assert forall|i: int| 0 <= i < self.window@.len() implies (#[trigger] self.window@[i]).base_offset == dist_to_last(self.window@, i) by {
                lemma_len_from_same_lens(self.window@, old(self).window@, i);
                assert(old(self).window@[i].base_offset == dist_to_last(old(self).window@, i));
            }
        }
//@end

//@extract file=ruzstd/src/encoding/match_generator.rs impl="^impl MatchGenerator \\{" fn=next_sequence rewrite="let mut candidate = None;=>let mut candidate: Option<(usize, usize)> = None;"
//@spec
        requires
            old(self).wf(), old(self).sfx_ok(), old(self).window@.len() > 0,
            old(self).max_window_size <= usize::MAX / 2,
            // every sequence handed to the callback is a legitimate one: this is the property, as the callback's precondition
            forall|seq: Sequence| seq_ok(old(self).window@, old(self).last_idx_in_sequence as int, old(self).max_window_size as int, seq) ==> handle_sequence.requires((seq,)),
        ensures
            final(self).wf(), final(self).sfx_ok(), same_data(final(self).window@, old(self).window@), final(self).max_window_size == old(self).max_window_size,
            // progress / completion: a reported sequence ends where the next one starts; `false` only when the whole block has been reported
            r ==> final(self).last_idx_in_sequence > old(self).last_idx_in_sequence && final(self).suffix_idx == final(self).last_idx_in_sequence,
            !r ==> old(self).last_idx_in_sequence == old(self).window@[old(self).window@.len() - 1].data@.len()
                && final(self).last_idx_in_sequence == old(self).last_idx_in_sequence && final(self).suffix_idx == old(self).suffix_idx,
//@ghost at=start
        let ghost w0 = old(self).window@;
        let ghost n = w0.len() as int;
        let ghost from = old(self).last_idx_in_sequence as int;
        let ghost maxw = old(self).max_window_size as int;
        let ghost lastd = w0[n - 1].data@;
        proof { lemma_len_from_ge_last(w0, 0); }
//@loop 1
            invariant
                self.wf(), self.sfx_ok(), same_data(self.window@, w0), self.max_window_size == maxw, maxw <= usize::MAX / 2,
                n == w0.len(), n > 0, lastd == w0[n - 1].data@, w0 == old(self).window@, from == old(self).last_idx_in_sequence, maxw == old(self).max_window_size,
                self.last_idx_in_sequence == from, self.suffix_idx >= old(self).suffix_idx, from <= old(self).suffix_idx,
                old(self).wf(),
                forall|seq: Sequence| seq_ok(w0, from, maxw, seq) ==> handle_sequence.requires((seq,)),
            decreases lastd.len() - self.suffix_idx,
//@loop 2
                invariant
                    self.wf(), self.sfx_ok(), same_data(self.window@, w0), self.max_window_size == maxw, maxw <= usize::MAX / 2,
                    n == w0.len(), n > 0, lastd == w0[n - 1].data@, self.window@.len() == n,
                    forall|i: int| 0 <= i < n ==> (#[trigger] w0[i]).base_offset == dist_to_last(w0, i),
                    len_from(w0, 0) <= maxw,
                    self.suffix_idx + MIN_MATCH_LEN <= lastd.len(),
                    key@.len() == MIN_MATCH_LEN,
                    data_slice@ == lastd.subrange(self.suffix_idx as int, lastd.len() as int),
                    candidate matches Some((o, l)) ==> l >= MIN_MATCH_LEN && match_at(w0, self.suffix_idx as int, o as int, l as int, cm, cmi),
//@ghost before="let mut candidate: Option<(usize, usize)> = None;"
            let ghost mut cm: int = 0;
            let ghost mut cmi: int = 0;
            proof {
                assert forall|i: int| 0 <= i < n implies (#[trigger] w0[i]).base_offset == dist_to_last(w0, i) by {}
                lemma_wf_transfer(w0, self.window@);
            }
//@ghost before="let offset = "
                        let ghost m = match_entry_idx as int;
                        proof {
                            assert(match_entry.base_offset == w0[m].base_offset);
                            assert(match_entry.suffixes.holds(match_index as int));
                            lemma_len_from_mono(w0, m);
                            lemma_len_from_ge_last(w0, m);
                        }
//@ghost before="if let Some((old_offset, old_match_len)) = candidate"
                        proof {
                            assert(match_entry.data@ == w0[m].data@);
                            assert forall|i: int| 0 <= i < match_len implies #[trigger] w0[m].data@[match_index + i] == lastd[self.suffix_idx + i] by {
                                assert(match_slice@[i] == data_slice@[i]);
                            }
                            assert(match_at(w0, self.suffix_idx as int, offset as int, match_len as int, m, match_index as int));
                        }
//@ghost after="candidate = Some((offset, match_len));" nth=1
                                proof { cm = m; cmi = match_index as int; }
//@ghost after="candidate = Some((offset, match_len));" nth=2
                            proof { cm = m; cmi = match_index as int; }
//@ghost before="handle_sequence(Sequence::Literals {" nth=1
                    proof {
                        assert(self.window@[n - 1].data == w0[n - 1].data);
                        assert(literals@ == lastd.subrange(from, lastd.len() as int));
                        assert(seq_ok(w0, from, maxw, Sequence::Literals { literals }));
                    }
//@ghost before="handle_sequence(Sequence::Literals {" nth=2
                proof {
                    assert(self.window@[n - 1].data == w0[n - 1].data);
                    assert(last_entry.data@ == lastd);
                    assert(last_idx_in_sequence == from);
                    assert forall|lit: &[u8]| lit@ == lastd.subrange(from, lastd.len() as int) implies #[trigger] handle_sequence.requires((Sequence::Literals { literals: lit },)) by {
                        assert(seq_ok(w0, from, maxw, Sequence::Literals { literals: lit }));
                    }
                }
//@ghost after="self.add_suffixes_till(self.suffix_idx + match_len);"
                proof {
                    assert(same_data(self.window@, w0));
                    lemma_wf_transfer(w0, self.window@);
                }
                let ghost s0 = self.suffix_idx as int;
//@ghost before="handle_sequence(Sequence::Triple {"
                proof {
                    assert(self.window@[n - 1].data == w0[n - 1].data);
                    assert(literals@ == lastd.subrange(from, s0));
                    assert(match_at(w0, s0, offset as int, match_len as int, cm, cmi));
                    lemma_len_from_mono(w0, cm);
                    lemma_len_from_ge_last(w0, cm);
                    assert(seq_ok(w0, from, maxw, Sequence::Triple { literals, offset, match_len }));
                    // tiling: the reported sequence ends exactly where the next one will start
                    assert(self.last_idx_in_sequence == from + literals@.len() + match_len);
                }
//@ghost endloop=1
            proof {
                assert(same_data(self.window@, w0));
                lemma_wf_transfer(w0, self.window@);
            }
//@end

//@extract file=ruzstd/src/encoding/match_generator.rs impl="^impl MatchGenerator \\{" fn=reserve ret=
//@spec
        requires
            old(self).window_size == len_from(old(self).window@, 0),
            old(self).window_size <= old(self).max_window_size,
            old(self).max_window_size >= amount,
            old(self).max_window_size <= usize::MAX / 2,
            forall|d: Vec<u8>, s: SuffixStore| reuse_space.requires((d, s)),
        ensures
            final(self).max_window_size == old(self).max_window_size,
            final(self).suffix_idx == old(self).suffix_idx, final(self).last_idx_in_sequence == old(self).last_idx_in_sequence,
            // what is kept is a chronological suffix of what was there, entries untouched
            exists|k: int| 0 <= k <= old(self).window@.len() && #[trigger] evicted_to(old(self).window@, final(self).window@, k),
            final(self).window_size == len_from(final(self).window@, 0),
            final(self).window_size + amount <= final(self).max_window_size,
//@loop 1
            invariant
                self.max_window_size == old(self).max_window_size, self.max_window_size >= amount,
                self.suffix_idx == old(self).suffix_idx, self.last_idx_in_sequence == old(self).last_idx_in_sequence,
                0 <= k <= old(self).window@.len(),
                self.window@ =~= old(self).window@.subrange(k as int, old(self).window@.len() as int),
                self.window_size == len_from(old(self).window@, k as int),
                self.window_size <= self.max_window_size, self.max_window_size <= usize::MAX / 2,
                forall|d: Vec<u8>, s: SuffixStore| reuse_space.requires((d, s)),
            decreases old(self).window@.len() - k,
//@ghost at=start
        let ghost mut k: int = 0;
        proof { assert(self.window@ =~= old(self).window@.subrange(0, old(self).window@.len() as int)); }
//@ghost inloop=1
            proof {
                // the window cannot be empty here: an empty window has size 0 and amount <= max
                if k == old(self).window@.len() { assert(len_from(old(self).window@, k) == 0); }
                assert(self.window@.len() > 0);
                assert(self.window@[0] == old(self).window@[k]);
                lemma_len_from_nonneg(old(self).window@, k + 1);
            }
//@ghost endloop=1
            proof {
                k = k + 1;
            }
//@ghost at=end
        proof {
            lemma_len_from_suffix(old(self).window@, k, 0);
            assert(evicted_to(old(self).window@, self.window@, k));
        }
//@end

//@extract file=ruzstd/src/encoding/match_generator.rs impl="^impl MatchGenerator \\{" fn=add_data ret= rewrite="for entry in self.window.iter_mut()=>for entry in it: self.window.iter_mut()||.map(|last| last.data.len())=>.map(|last: &WindowEntry| -> (r: usize) ensures r == last.data@.len() { last.data.len() })"
//@spec
        requires
            old(self).wf(), old(self).sfx_ok(),
            // a fresh or recycled suffix store must be empty (MatchGeneratorDriver clears recycled stores)
            forall|i: int| !suffixes.holds(i),
            old(self).window@.len() == 0 || old(self).suffix_idx == old(self).window@[old(self).window@.len() - 1].data@.len(),
            data@.len() <= old(self).max_window_size,
            old(self).max_window_size <= usize::MAX / 2,
            forall|d: Vec<u8>, s: SuffixStore| reuse_space.requires((d, s)),
        ensures
            final(self).wf(), final(self).sfx_ok(),
            final(self).max_window_size == old(self).max_window_size,
            final(self).suffix_idx == 0, final(self).last_idx_in_sequence == 0,
            // the window now holds a chronological suffix of the old blocks followed by the new block, (how much is evicted is the implementation's choice: the property does not fix a retention policy)
            exists|k: int| 0 <= k <= old(self).window@.len()
                && #[trigger] blocks_after_append(blocks(old(self).window@), blocks(final(self).window@), k, data@),
            final(self).window@[final(self).window@.len() - 1].data == data,
            final(self).window@[final(self).window@.len() - 1].suffixes == suffixes,
//@loop 1
                invariant
                    it.seq().len() == w1.len(),
                    forall|i: int| 0 <= i < w1.len() ==> #[trigger] w1[i].base_offset + last_len <= usize::MAX,
                    forall|i: int| 0 <= i < it.seq().len() ==> *(#[trigger] it.seq()[i]) == w1[i],
                    forall|i: int| 0 <= i < it.index() ==> (#[trigger] final(it.seq()[i])).base_offset == w1[i].base_offset + last_len
                        && final(it.seq()[i]).data == w1[i].data && final(it.seq()[i]).suffixes == w1[i].suffixes,
//@ghost before="if let Some(last_len)"
        let ghost w0 = old(self).window@;
        let ghost w1 = self.window@;
        let ghost k: int = choose|k: int| 0 <= k <= w0.len() && #[trigger] evicted_to(w0, w1, k);
        proof {
            // the entries kept still carry correct distances (their newest entry is unchanged)
            assert forall|i: int| 0 <= i < w1.len() implies (#[trigger] w1[i]).base_offset == dist_to_last(w1, i) by {
                assert(w1[i] == w0[i + k]);
                lemma_len_from_suffix(w0, k, i);
            }
            assert forall|i: int| 0 <= i < w1.len() implies #[trigger] len_from(w1, i) <= len_from(w1, 0) by { lemma_len_from_mono(w1, i); }
        }
//@ghost before="for entry in"
            proof {
                assert(w1.len() > 0);
                assert(last_len == w1[w1.len() - 1].data@.len());
                assert forall|i: int| 0 <= i < w1.len() implies #[trigger] w1[i].base_offset + last_len <= usize::MAX by {
                    assert(w1[i].base_offset == dist_to_last(w1, i));
                    assert(len_from(w1, i) <= len_from(w1, 0));
                }
            }
//@ghost before="let len = data.len();"
        let ghost w2 = self.window@;
        proof {
            assert(w2.len() == w1.len());
            if w1.len() > 0 {
                let last_len = w1[w1.len() - 1].data@.len();
                assert forall|i: int| 0 <= i < w1.len() implies (#[trigger] w2[i]).data == w1[i].data && w2[i].suffixes == w1[i].suffixes && w2[i].base_offset == len_from(w1, i) by {}
            }
        }
//@ghost at=end
        proof {
            let w3 = self.window@;
            let e = w3[w3.len() - 1];
            assert(w3 =~= w2.push(e));
            lemma_len_from_same_lens(w2, w1, 0);
            lemma_len_from_push(w2, e, 0);
            assert forall|i: int| 0 <= i < w3.len() implies (#[trigger] w3[i]).base_offset == dist_to_last(w3, i) by {
                lemma_len_from_push(w2, e, i);
                if i < w2.len() {
                    lemma_len_from_same_lens(w2, w1, i);
                } else {
                    assert(len_from(w2, i) == 0);
                }
            }
            // suffix stores: the kept entries carry theirs unchanged; the former newest entry was fully processed (suffix_idx == its length)
            assert forall|m: int, i: int| 0 <= m < w3.len() - 1 && #[trigger] w3[m].suffixes.holds(i) implies 0 <= i < w3[m].data@.len() by {
                assert(w3[m].suffixes == w0[m + k].suffixes && w3[m].data == w0[m + k].data);
                if m + k == w0.len() - 1 { } else { }
            }
            assert(blocks(w3) =~= blocks(w0).subrange(k, w0.len() as int).push(data@));
            assert(blocks_after_append(blocks(w0), blocks(w3), k, data@));
        }
//@end
}

pub open spec fn evicted_to(old_w: Seq<WindowEntry>, new_w: Seq<WindowEntry>, k: int) -> bool {
    new_w =~= old_w.subrange(k, old_w.len() as int)
}
pub open spec fn blocks_after_append(old_b: Seq<Seq<u8>>, new_b: Seq<Seq<u8>>, k: int, data: Seq<u8>) -> bool {
    new_b =~= old_b.subrange(k, old_b.len() as int).push(data)
}

} // verus!
fn main() {}
