//@unit FD1V : FrameDecoder::decode_blocks on its verbatim body, for every source, every number of blocks and every strategy: the consumed-bytes counter grows by EXACTLY the bytes taken from the source (3 per header + body + 4 checksum bytes iff flagged), blocks are decoded strictly one after the other and counted, the strategy only decides when to return (at least one block per call; UptoBlocks(n): at most max(n,1); UptoBytes(n): the buffer grows by less than n + one maximum block = the C05 bound), `Ok(finished)` reports the last-block flag, the checksum is stored iff flagged, no counter overflow, termination. FrameDecoder::decode_from_to (the slice-to-slice incremental call) on its verbatim body: it never reports more source bytes than it was given, the reported count is exactly the consumed-bytes counter's growth (also when it initialises the frame itself), a block body is decoded only when it is entirely present in the chunk, the `Bug in library` panics are unreachable, termination; is_finished on its verbatim body
//@props C10,C05,C06,C03,C08
//@tier quick
//@profile rel
//@assume callee contracts: BlockDecoder::read_block_header (Kani H1, complete: 3 bytes, header within the format's limits), BlockDecoder::decode_block_content (PROVED in Verus unit B2 on the verbatim body, cross-checked by Kani B1: Ok(n) => exactly n <= 128 KiB + 3 bytes taken from the source, the buffer only grows, by at most 128 KiB), FrameDescriptor::content_checksum_flag (H2), DecodeBuffer::len
//@assume the reader is abstract: `avail()` = bytes still available; read_exact is std's contract (Ok => exactly buf.len() bytes taken). The content of the checksum bytes is not modelled here (u32::from_le_bytes is replaced by an abstract le_u32: the little-endian reading is checked by Kani FD1/FD4)
//@assume in decode_from_to `mt_source[..4].try_into().expect(..)` is replaced by an abstract first4() (requires 4 bytes) and FrameDecoder::init / read are abstract with the contracts of Kani units FD4/H2 resp. D1/D2
//@assume R-impl: the by-value `mut source: impl Read` is specialised to `source: &mut R` and the three `&mut source` arguments become `source` (every call site passes `&mut reader`)
//@assume precondition: counter + bytes still available fit in u64 / usize (the counters count bytes / blocks actually read)
//@assume fields of FrameDecoderState / FrameHeader / DecoderScratch that decode_blocks does not touch are omitted from the mirrored structs (struct-check pins the ones used)
use vstd::prelude::*;
verus! {

global size_of usize == 8;

#[verifier::external_body]
pub fn vpanic() -> !
    requires false,
{ panic!() }

//@const-check file=ruzstd/src/common/mod.rs text="pub const MAX_BLOCK_SIZE: u32 = 128 * 1024;"
pub const MAX_BLOCK_SIZE: u32 = 128 * 1024;

pub struct Error { pub k: u8 }
pub trait Read {
    spec fn avail(&self) -> int;
    /// std contract of `read`: SOME bytes, at most buf.len() (callers that need an exact count must use read_exact)
    fn read(&mut self, buf: &mut [u8]) -> (r: Result<usize, Error>)
        ensures
            final(buf)@.len() == old(buf)@.len(),
            r matches Ok(n) ==> n <= old(buf)@.len() && n <= old(self).avail() && final(self).avail() == old(self).avail() - n,
            r is Err ==> final(self).avail() <= old(self).avail();
    /// ghost mode flag: the reader is a caller-provided chunk of an incremental (slice-to-slice) decode; running out of bytes in the
    /// middle of a block would then turn "need more input" into a hard error, so a block body may only be decoded when it is entirely present
    spec fn incremental() -> bool;
    fn read_exact(&mut self, buf: &mut [u8]) -> (r: Result<(), Error>)
        ensures
            final(buf)@.len() == old(buf)@.len(),
            final(self).avail() >= 0 || old(self).avail() < 0,
            r is Ok ==> final(self).avail() == old(self).avail() - old(buf)@.len() && old(self).avail() >= old(buf)@.len(),
            r is Err ==> final(self).avail() <= old(self).avail();
}
#[verifier::external_body]
pub fn le_u32(b: [u8; 4]) -> (r: u32) { unimplemented!() }
/// `s[..4].try_into().expect(..)`: the first four bytes as an array (slice -> array conversion is outside Verus' std specs)
#[verifier::external_body]
pub fn first4(s: &[u8]) -> (r: [u8; 4])
    requires s@.len() >= 4,
{ unimplemented!() }

/// std / io_nostd: a byte slice is a reader that hands out its prefix and shrinks (Kani IO1 checks the no_std implementation)
impl<'a> Read for &'a [u8] {
    open spec fn avail(&self) -> int { self@.len() as int }
    open spec fn incremental() -> bool { true }
    #[verifier::external_body]
    fn read(&mut self, buf: &mut [u8]) -> (r: Result<usize, Error>) { unimplemented!() }
    #[verifier::external_body]
    fn read_exact(&mut self, buf: &mut [u8]) -> (r: Result<(), Error>) { unimplemented!() }
}

#[derive(Clone, Copy, PartialEq, Eq)]
pub enum BlockType { Raw, RLE, Compressed, Reserved }
//@struct-check file=ruzstd/src/blocks/block.rs name=BlockHeader fields="pub last_block: bool | pub block_type: BlockType | pub decompressed_size: u32 | pub content_size: u32"
pub struct BlockHeader { pub last_block: bool, pub block_type: BlockType, pub decompressed_size: u32, pub content_size: u32 }

pub enum BlockHeaderReadError { Any }
pub enum DecodeBlockContentError { Any }
pub enum FrameDecoderError {
    FailedToReadBlockHeader(BlockHeaderReadError),
    FailedToReadBlockBody(DecodeBlockContentError),
    FailedToReadChecksum(Error),
    FailedToDrainDecodebuffer(Error),
    NotYetInitialized,
    Other,
}

#[verifier::external_body]
pub struct DecodeBuffer { _o: u8 }
impl DecodeBuffer {
    pub uninterp spec fn spec_len(&self) -> int;
    #[verifier::external_body]
    pub fn len(&self) -> (r: usize) ensures r == self.spec_len(), { unimplemented!() }
}
//@struct-check file=ruzstd/src/decoding/scratch.rs name=DecoderScratch fields="pub buffer: DecodeBuffer"
pub struct DecoderScratch { pub buffer: DecodeBuffer }

pub struct FrameDescriptor(pub u8);
impl FrameDescriptor {
    pub uninterp spec fn spec_checksum_flag(&self) -> bool;
    #[verifier::external_body]
    pub fn content_checksum_flag(&self) -> (r: bool) ensures r == self.spec_checksum_flag(), { unimplemented!() }
}
//@struct-check file=ruzstd/src/decoding/frame.rs name=FrameHeader fields="pub descriptor: FrameDescriptor"
pub struct FrameHeader { pub descriptor: FrameDescriptor }

//@struct-check file=ruzstd/src/decoding/frame_decoder.rs name=FrameDecoderState fields="pub frame_header: frame::FrameHeader | decoder_scratch: DecoderScratch | frame_finished: bool | block_counter: usize | bytes_read_counter: u64 | check_sum: Option<u32> | using_dict: Option<u32>"
pub struct FrameDecoderState {
    pub frame_header: FrameHeader,
    pub decoder_scratch: DecoderScratch,
    pub frame_finished: bool,
    pub block_counter: usize,
    pub bytes_read_counter: u64,
    pub check_sum: Option<u32>,
    pub using_dict: Option<u32>,
}
//@struct-check file=ruzstd/src/decoding/frame_decoder.rs name=FrameDecoder fields="state: Option<FrameDecoderState>"
pub struct FrameDecoder { pub state: Option<FrameDecoderState> }

//@const-check file=ruzstd/src/decoding/frame_decoder.rs text="pub enum BlockDecodingStrategy {\n    All,\n    UptoBlocks(usize),\n    UptoBytes(usize),\n}"
pub enum BlockDecodingStrategy { All, UptoBlocks(usize), UptoBytes(usize) }

pub struct BlockDecoder { _o: u8 }
#[verifier::external_body]
pub fn block_decoder_new() -> BlockDecoder { unimplemented!() }
impl BlockDecoder {
    /// H1 (Kani, all 2^24 headers + every truncation)
    #[verifier::external_body]
    pub fn read_block_header<R: Read>(&mut self, r: &mut R) -> (res: Result<(BlockHeader, u8), BlockHeaderReadError>)
        ensures
            final(r).avail() <= old(r).avail(),
            res matches Ok(hs) ==> hs.1 == 3 && final(r).avail() == old(r).avail() - 3 && old(r).avail() >= 3,
    { unimplemented!() }
    /// B1 (Kani) / B2 (Verus): the block body
    #[verifier::external_body]
    pub fn decode_block_content<R: Read>(&mut self, header: &BlockHeader, workspace: &mut DecoderScratch, source: &mut R) -> (res: Result<u64, DecodeBlockContentError>)
        requires R::incremental() ==> old(source).avail() >= header.content_size,
        ensures
            res matches Ok(n) ==> final(source).avail() == old(source).avail() - n && old(source).avail() >= n
                && final(workspace).buffer.spec_len() >= old(workspace).buffer.spec_len()
                && final(workspace).buffer.spec_len() <= old(workspace).buffer.spec_len() + MAX_BLOCK_SIZE,
    { unimplemented!() }
}

pub open spec fn max1(n: int) -> int { if n < 1 { 1 } else { n } }

impl FrameDecoder {
    /// FD4 / H2 / H4 (Kani): a successful init installs a fresh state whose consumed-bytes counter is exactly the header bytes taken
    #[verifier::external_body]
    pub fn init<R: Read>(&mut self, source: &mut R) -> (r: Result<(), FrameDecoderError>)
        ensures
            final(source).avail() <= old(source).avail(),
            r is Ok ==> final(self).state is Some
                && final(self).state->0.bytes_read_counter == old(source).avail() - final(source).avail()
                && !final(self).state->0.frame_finished && final(self).state->0.check_sum is None && final(self).state->0.block_counter == 0,
    { unimplemented!() }
    /// D1/D2 (Kani): draining touches only the decode buffer
    #[verifier::external_body]
    pub fn read(&mut self, target: &mut [u8]) -> (r: Result<usize, Error>)
        ensures
            final(target)@.len() == old(target)@.len(),
            r matches Ok(n) ==> n <= old(target)@.len(),
            final(self).state is Some <==> old(self).state is Some,
            old(self).state matches Some(s0) ==> ({
                let s1 = final(self).state->0;
                s1.bytes_read_counter == s0.bytes_read_counter && s1.block_counter == s0.block_counter && s1.frame_finished == s0.frame_finished
                && s1.check_sum == s0.check_sum && s1.using_dict == s0.using_dict && s1.frame_header == s0.frame_header
            }),
    { unimplemented!() }

//@extract file=ruzstd/src/decoding/frame_decoder.rs impl="^impl FrameDecoder" fn=is_finished
//@spec
        ensures r == self.spec_is_finished(),
//@end

    pub open spec fn spec_is_finished(&self) -> bool {
        match self.state {
            None => true,
            Some(s) => if s.frame_header.descriptor.spec_checksum_flag() { s.frame_finished && s.check_sum is Some } else { s.frame_finished },
        }
    }

#[verifier::loop_isolation(false)]
//@extract file=ruzstd/src/decoding/frame_decoder.rs impl="^impl FrameDecoder" fn=decode_from_to rewrite="decoding::block_decoder::new()=>block_decoder_new()||mt_source[..4].try_into().expect(\"optimized away\")=>first4(mt_source)||u32::from_le_bytes(chksum)=>le_u32(chksum)"
//@spec
        requires
            source@.len() <= usize::MAX,      // true of every slice; stated because the spec-level length is unbounded
            old(self).state matches Some(st) ==> st.bytes_read_counter + source@.len() <= u64::MAX && st.block_counter + source@.len() <= usize::MAX
                && st.decoder_scratch.buffer.spec_len() >= 0,
        ensures
            r matches Ok(rw) ==> ({
                let read = rw.0;
                let written = rw.1;
                // never more than it was given, and exactly what the consumed-bytes counter says
                &&& read <= source@.len() && written <= old(target)@.len()
                &&& final(self).state is Some
                &&& (old(self).state matches Some(s0) ==> final(self).state->0.bytes_read_counter - s0.bytes_read_counter == read)
                &&& (old(self).state is None ==> final(self).state->0.bytes_read_counter == read)
            }),
//@ghost before="loop {"
                let ghost cm0 = state.bytes_read_counter as int;
                let ghost lm0 = mt_source@.len() as int;
                let ghost bm0 = state.block_counter as int;
                proof {
                    if old(self).state is None {
                        assert(cm0 == source@.len() - lm0);
                        assert(bm0 == 0);
                    } else {
                        assert(lm0 == source@.len());
                        assert(cm0 == old(self).state->0.bytes_read_counter);
                        assert(bm0 == old(self).state->0.block_counter);
                    }
                }
//@loop 1
                    invariant
                        mt_source@.len() <= lm0,
                        state.bytes_read_counter - cm0 == lm0 - mt_source@.len(),
                        state.block_counter >= bm0, 3 * (state.block_counter - bm0) <= lm0 - mt_source@.len(),
                        cm0 + lm0 <= u64::MAX, bm0 + lm0 <= usize::MAX,
                    decreases mt_source@.len(),
//@ghost before="break;" nth=1
                        // progress: the block loop may stop for lack of a header only if fewer than 3 bytes are left (a block header is 3
                        // bytes, and an empty last block is nothing but its header)
                        proof { assert(mt_source@.len() < 3); }
//@ghost before="break;" nth=2
                        // ... and for lack of content only if the block body is not entirely present yet
                        proof { assert(mt_source@.len() < block_header.content_size); }
//@end

#[verifier::loop_isolation(false)]
//@extract file=ruzstd/src/decoding/frame_decoder.rs impl="^impl FrameDecoder" fn=decode_blocks sigrewrite="mut source: impl Read=>source: &mut R||pub fn decode_blocks(=>fn decode_blocks<R: Read>(" rewrite="decoding::block_decoder::new()=>block_decoder_new()||.read_block_header(&mut source)=>.read_block_header(source)||&mut state.decoder_scratch, &mut source)=>&mut state.decoder_scratch, source)||u32::from_le_bytes(chksum)=>le_u32(chksum)"
//@spec
//@include contract_decode_blocks.rs
//@ghost at=start
        // the prophesied final value of self.state, named before the field is mutably borrowed (afterwards `final(self)` cannot be mentioned)
        let ghost fstate = final(self).state;
//@ghost before="let buffer_size_before ="
        let ghost s0 = old(self).state->0;
        let ghost a0 = old(source).avail();
        proof {
            assert(old(self).state is Some);
            assert(*state == s0);
            assert(fstate == Some(*final(state)));
        }
//@loop 1
            invariant
                old(self).state is Some, s0 == old(self).state->0, a0 == old(source).avail(),
                fstate == Some(*final(state)),
                a0 >= 0, 0 <= source.avail() <= a0,
                s0.bytes_read_counter + a0 <= u64::MAX, s0.block_counter + a0 <= usize::MAX, !s0.frame_finished,
                state.bytes_read_counter - s0.bytes_read_counter == a0 - source.avail(),
                state.block_counter >= s0.block_counter, 3 * (state.block_counter - s0.block_counter) <= a0 - source.avail(),
                block_counter_before == s0.block_counter, buffer_size_before == s0.decoder_scratch.buffer.spec_len(),
                state.decoder_scratch.buffer.spec_len() >= buffer_size_before,
                state.block_counter == s0.block_counter ==> state.decoder_scratch.buffer.spec_len() == buffer_size_before,
                state.frame_finished == s0.frame_finished, state.check_sum == s0.check_sum, state.using_dict == s0.using_dict,
                state.frame_header == s0.frame_header,
                strat matches BlockDecodingStrategy::UptoBlocks(n) ==> state.block_counter == s0.block_counter || state.block_counter - s0.block_counter < n,
                strat matches BlockDecodingStrategy::UptoBytes(n) ==> state.block_counter == s0.block_counter || state.decoder_scratch.buffer.spec_len() - buffer_size_before < n,
            decreases source.avail(),
//@ghost afterloop=1
        proof {
            let s1 = *state;
            let blocks = s1.block_counter - s0.block_counter;
            let grown = s1.decoder_scratch.buffer.spec_len() - s0.decoder_scratch.buffer.spec_len();
            assert(s1.bytes_read_counter - s0.bytes_read_counter == a0 - source.avail());
            assert(blocks >= 1 && grown >= 0);
            assert(strat matches BlockDecodingStrategy::UptoBlocks(n) ==> blocks <= max1(n as int) && (!s1.frame_finished ==> blocks >= n));
            assert(strat matches BlockDecodingStrategy::UptoBytes(n) ==> grown < n + MAX_BLOCK_SIZE + (if n == 0 { 1int } else { 0int }) && (!s1.frame_finished ==> grown >= n));
            assert(strat is All ==> s1.frame_finished);
            assert(s1.frame_finished && s1.frame_header.descriptor.spec_checksum_flag() ==> s1.check_sum is Some);
            assert(!s1.frame_finished ==> s1.check_sum == s0.check_sum);
            assert(s1.using_dict == s0.using_dict);
        }
//@end
}

} // verus!
fn main() {}
