//@unit L1 : HuffmanDecoder stepping and decode_literals / decompress_literals: with a well-formed Huffman table no literals section makes decoding index out of bounds, overflow, slice-panic or loop forever; Ok => exactly regenerated_size bytes are appended and the bytes-used count is what the block decoder expects
//@props C03,C01,C13
//@tier quick
//@profile rel
//@assume BitReaderReversed is abstract here (contracts = Verus unit BRR1)
//@assume HuffmanTable::build_decoder is abstract here (unit HU1): Ok(n) => n <= source length and huff_wf
//@assume R-for: `for stream in &[stream1, stream2, stream3, stream4] {` is rewritten to an index loop over the same four slices (Verus has no iterator spec for &[T; 4])
use vstd::prelude::*;
verus! {

global size_of usize == 8;

#[verifier::external_body]
pub fn vpanic() -> !
    requires false,
{ panic!() }

//@include brr_abstract.rs

pub enum HuffmanTableError { Any }
pub enum DecompressLiteralsError {
    MissingCompressedSize,
    MissingNumStreams,
    HuffmanTableError(HuffmanTableError),
    UninitializedHuffmanTable,
    MissingBytesForJumpHeader { got: usize },
    MissingBytesForLiterals { got: usize, needed: usize },
    ExtraPadding { skipped_bits: i32 },
    BitstreamReadMismatch { read_til: isize, expected: isize },
    DecodedLiteralCountMismatch { decoded: usize, expected: usize },
}
impl vstd::std_specs::convert::FromSpecImpl<HuffmanTableError> for DecompressLiteralsError {
    open spec fn obeys_from_spec() -> bool { true }
    open spec fn from_spec(v: HuffmanTableError) -> Self { DecompressLiteralsError::HuffmanTableError(v) }
}
impl From<HuffmanTableError> for DecompressLiteralsError {
    fn from(val: HuffmanTableError) -> Self {
        Self::HuffmanTableError(val)
    }
}

//@struct-check file=ruzstd/src/huff0/huff0_decoder.rs name=Entry fields="symbol: u8 | num_bits: u8"
#[derive(Copy, Clone)]
pub struct Entry { pub symbol: u8, pub num_bits: u8 }

//@struct-check file=ruzstd/src/huff0/huff0_decoder.rs name=HuffmanTable fields="decode: Vec<Entry> | pub max_num_bits: u8"
pub struct HuffmanTable {
    pub decode: Vec<Entry>,
    pub max_num_bits: u8,
}
//@const-check file=ruzstd/src/huff0/huff0_decoder.rs text="pub(crate) const MAX_MAX_NUM_BITS: u8 = 11;"

impl HuffmanTable {
    /// what a successful table build establishes (HU1) and stepping relies on; max_num_bits == 0 means "no table yet"
    pub open spec fn huff_wf(&self) -> bool {
        self.max_num_bits != 0 ==> (
            self.max_num_bits <= 11
            && self.decode@.len() == (1u64 << self.max_num_bits)
            && forall|i: int| 0 <= i < self.decode@.len() ==> 1 <= (#[trigger] self.decode@[i]).num_bits <= self.max_num_bits)
    }

    #[verifier::external_body]
    pub fn build_decoder(&mut self, source: &[u8]) -> (r: Result<u32, HuffmanTableError>)
        ensures r matches Ok(n) ==> n <= source@.len() && final(self).huff_wf() && final(self).max_num_bits != 0,
    { unimplemented!() }
}

//@struct-check file=ruzstd/src/huff0/huff0_decoder.rs name=HuffmanDecoder fields="table: &'table HuffmanTable | pub state: u64"
pub struct HuffmanDecoder<'table> {
    pub table: &'table HuffmanTable,
    pub state: u64,
}

pub proof fn lemma_huff_bits()
    ensures
        forall|k: u8| 1 <= k <= 11 ==> (#[trigger] (1u64 << k)) >= 2 && (1u64 << k) <= 2048 && low_mask(k) == (1u64 << k) - 1,
        forall|a: u64, b: u64, k: u8, nb: u8| 1 <= nb <= k <= 11 && b <= low_mask(nb) ==> #[trigger] ((a << nb) & (((1u64 << k) - 1) as u64) | b) <= (((1u64 << k) - 1) as u64),
{
    assert(forall|k: u8| 1 <= k <= 11 ==> (#[trigger] (1u64 << k)) >= 2 && (1u64 << k) <= 2048) by (bit_vector);
    assert(forall|a: u64, b: u64, k: u8, nb: u8| 1 <= nb <= k <= 11 && b <= (((1u64 << nb) - 1) as u64) ==> #[trigger] ((a << nb) & (((1u64 << k) - 1) as u64) | b) <= (((1u64 << k) - 1) as u64)) by (bit_vector);
}

impl<'t> HuffmanDecoder<'t> {
    pub open spec fn ok(&self) -> bool {
        self.table.huff_wf() && self.table.max_num_bits != 0 && self.state < self.table.decode@.len()
    }

//@extract file=ruzstd/src/huff0/huff0_decoder.rs impl="^impl<'t> HuffmanDecoder" fn=new
//@spec
        ensures r.table == table, r.state == 0,
//@end
//@extract file=ruzstd/src/huff0/huff0_decoder.rs impl="^impl<'t> HuffmanDecoder" fn=decode_symbol
//@spec
        requires old(self).ok(),
        ensures *final(self) == *old(self),
//@end
//@extract file=ruzstd/src/huff0/huff0_decoder.rs impl="^impl<'t> HuffmanDecoder" fn=init_state
//@spec
        requires old(self).table.huff_wf(), old(self).table.max_num_bits != 0, old(br).wf(), old(br).extra() + 64 <= EXTRA_LIMIT,
        ensures
            final(self).ok(), final(self).table == old(self).table, final(br).wf(),
            final(br).remaining() == old(br).remaining() - old(self).table.max_num_bits,
            old(br).extra() <= final(br).extra() <= old(br).extra() + 64, final(br).src_len() == old(br).src_len(),
//@ghost at=start
        proof { lemma_huff_bits(); }
//@end
//@extract file=ruzstd/src/huff0/huff0_decoder.rs impl="^impl<'t> HuffmanDecoder" fn=next_state
//@spec
        requires old(self).ok(), old(br).wf(), old(br).extra() + 64 <= EXTRA_LIMIT,
        ensures
            final(self).ok(), final(self).table == old(self).table, final(br).wf(),
            1 <= r <= old(self).table.max_num_bits,                       // every literal consumes at least one bit: the literal loops terminate
            final(br).remaining() == old(br).remaining() - r,
            old(br).extra() <= final(br).extra() <= old(br).extra() + 64, final(br).src_len() == old(br).src_len(),
//@ghost at=start
        proof { lemma_huff_bits(); }
//@end
}


pub enum LiteralsSectionType { Raw, RLE, Compressed, Treeless }

//@struct-check file=ruzstd/src/blocks/literals_section.rs name=LiteralsSection fields="pub regenerated_size: u32 | pub compressed_size: Option<u32> | pub num_streams: Option<u8> | pub ls_type: LiteralsSectionType"
pub struct LiteralsSection {
    pub regenerated_size: u32,
    pub compressed_size: Option<u32>,
    pub num_streams: Option<u8>,
    pub ls_type: LiteralsSectionType,
}

//@struct-check file=ruzstd/src/decoding/scratch.rs name=HuffmanScratch fields="pub table: HuffmanTable"
pub struct HuffmanScratch { pub table: HuffmanTable }

/// how many source bytes the block decoder hands to decode_literals for this header (B2's slicing): compressed_size, 1 (RLE) or regenerated_size (raw)
pub open spec fn literal_bytes(section: &LiteralsSection) -> int {
    match section.compressed_size {
        Some(x) => x as int,
        None => match section.ls_type { LiteralsSectionType::RLE => 1, _ => section.regenerated_size as int },
    }
}

//@extract file=ruzstd/src/decoding/literals_section_decoder.rs fn=decompress_literals rewrite="for stream in &[stream1, stream2, stream3, stream4] {=>let streams = [stream1, stream2, stream3, stream4]; for si in 0..4usize { let stream = &streams[si];"
//@spec
    requires
        old(scratch).table.huff_wf(),
        source@.len() <= 0x1_0000_0000,
        section.compressed_size matches Some(c) ==> c <= source@.len(),     // B2 checks raw.len() >= upper_limit before slicing
        section.num_streams matches Some(k) ==> k == 1 || k == 4,            // H5's postcondition
        section.ls_type is Compressed || section.ls_type is Treeless,        // the only caller (decode_literals) dispatches on the type
    ensures
        final(scratch).table.huff_wf() || r is Err,
        r matches Ok(n) ==> n == section.compressed_size->0 && section.compressed_size is Some
            && final(target)@.len() == section.regenerated_size,
//@ghost at=start
    proof { assert(forall|b: u8| #[trigger] ((b as usize) << 8) <= 0xff00) by (bit_vector); }
//@loop 1
            invariant
                scratch.table.huff_wf(), scratch.table.max_num_bits != 0,
                streams[0]@.len() <= 0x1_0000_0000, streams[1]@.len() <= 0x1_0000_0000, streams[2]@.len() <= 0x1_0000_0000, streams[3]@.len() <= 0x1_0000_0000,
//@loop 2
                invariant_except_break skipped_bits <= 8,
                invariant br.wf(), 0 <= skipped_bits <= 9, br.extra() <= 64 * skipped_bits, br.src_len() == stream@.len(),
                decreases 9 - skipped_bits,
//@loop 3
                invariant
                    br.wf(), decoder.ok(), decoder.table == &scratch.table, scratch.table.huff_wf(), scratch.table.max_num_bits != 0,
                    br.src_len() <= 0x1_0000_0000,
                decreases br.remaining() + 64,
//@loop 4
            invariant_except_break skipped_bits <= 8,
            invariant br.wf(), 0 <= skipped_bits <= 9, br.extra() <= 64 * skipped_bits, br.src_len() == source@.len(),
            decreases 9 - skipped_bits,
//@loop 5
            invariant
                br.wf(), decoder.ok(), decoder.table == &scratch.table, scratch.table.huff_wf(), scratch.table.max_num_bits != 0,
                br.src_len() <= 0x1_0000_0000,
            decreases br.remaining() + 64,
//@end

//@extract file=ruzstd/src/decoding/literals_section_decoder.rs fn=decode_literals rewrite="target.extend(&source[0..section.regenerated_size as usize]);=>target.extend_from_slice(&source[0..section.regenerated_size as usize]);"
//@spec
    requires
        old(scratch).table.huff_wf(),
        source@.len() <= 0x1_0000_0000,
        source@.len() >= literal_bytes(section),                             // B2: raw.len() >= upper_limit_for_literals
        (section.ls_type is Compressed || section.ls_type is Treeless) ==> section.compressed_size is Some,   // H5's postcondition
        (section.ls_type is Raw || section.ls_type is RLE) ==> section.compressed_size is None,
        section.num_streams matches Some(k) ==> k == 1 || k == 4,
        old(target)@.len() == 0,                                             // B2 clears the literals buffer first
    ensures
        final(scratch).table.huff_wf() || r is Err,
        // exactly what B2's two assert!s demand
        r matches Ok(n) ==> n == literal_bytes(section) && final(target)@.len() == section.regenerated_size,
//@end

} // verus!
fn main() {}
