//@unit Q3 : execute_sequences: no panic / overflow for any sequence list, a block regenerates at most 128 KiB, the output is the literal/match interleaving the format defines, repeat-offset history per RFC 3.1.1.5
//@props C05,C03,C01,C14
//@tier quick
//@profile rel
//@assume DecodeBuffer is abstract here: len/push/repeat carry the contracts that unit D0 (Verus, verbatim bodies) discharges
//@assume 64-bit usize (global size_of usize == 8)
//@assume DecoderScratch is declared with the four fields execute_sequences touches (checked against the real declaration on every run)
use vstd::prelude::*;
verus! {

global size_of usize == 8;

//@const-check file=ruzstd/src/common/mod.rs text="pub const MAX_BLOCK_SIZE: u32 = 128 * 1024;"
pub const MAX_BLOCK_SIZE: u32 = 128 * 1024;

pub enum DecodeBufferError {
    NotEnoughBytesInDictionary { got: usize, need: usize },
    OffsetTooBig { offset: usize, buf_len: usize },
}
pub enum ExecuteSequencesError {
    DecodebufferError(DecodeBufferError),
    NotEnoughBytesForSequence { wanted: usize, have: usize },
    ZeroOffset,
    BlockSizeTooLarge { size: u64 },
}
impl vstd::std_specs::convert::FromSpecImpl<DecodeBufferError> for ExecuteSequencesError {
    open spec fn obeys_from_spec() -> bool { true }
    open spec fn from_spec(v: DecodeBufferError) -> Self { ExecuteSequencesError::DecodebufferError(v) }
}
//@const-check file=ruzstd/src/decoding/errors.rs text="impl From<DecodeBufferError> for ExecuteSequencesError {\n    fn from(val: DecodeBufferError) -> Self {\n        Self::DecodebufferError(val)\n    }\n}"
impl From<DecodeBufferError> for ExecuteSequencesError {
    fn from(val: DecodeBufferError) -> Self {
        Self::DecodebufferError(val)
    }
}

//@struct-check file=ruzstd/src/blocks/sequence_section.rs name=Sequence fields="pub ll: u32 | pub ml: u32 | pub of: u32"
#[derive(Clone, Copy)]
pub struct Sequence {
    pub ll: u32,
    pub ml: u32,
    pub of: u32,
}

pub open spec fn match_copy(v: Seq<u8>, offset: int, n: int) -> Seq<u8>
    decreases n,
{
    if n <= 0 { Seq::empty() } else {
        let prev = match_copy(v, offset, n - 1);
        prev.push((v + prev)[v.len() + (n - 1) - offset])
    }
}

#[verifier::external_body]
pub struct DecodeBuffer { _opaque: u8 }

impl DecodeBuffer {
    pub uninterp spec fn view(&self) -> Seq<u8>;
    pub uninterp spec fn dict(&self) -> Seq<u8>;
    pub uninterp spec fn out_counter(&self) -> int;     // total_output_counter
    /// D0's invariant plus headroom of the 64-bit output counter
    pub uninterp spec fn inv(&self) -> bool;

    #[verifier::external_body]
    pub fn len(&self) -> (r: usize)
        requires self.inv(),
        ensures r == self.view().len(),
    { unimplemented!() }

    #[verifier::external_body]
    pub fn push(&mut self, data: &[u8])
        requires old(self).inv(), data@.len() <= u32::MAX,
        ensures final(self).inv(), final(self).view() == old(self).view() + data@, final(self).dict() == old(self).dict(),
    { unimplemented!() }

    #[verifier::external_body]
    pub fn repeat(&mut self, offset: usize, match_length: usize) -> (r: Result<(), DecodeBufferError>)
        requires old(self).inv(), offset >= 1, match_length <= u32::MAX,
        ensures
            final(self).inv(), final(self).dict() == old(self).dict(),
            r is Err ==> offset > old(self).view().len() && final(self).view() == old(self).view(),
            offset <= old(self).view().len() ==> r is Ok,
            r is Ok && offset <= old(self).view().len() ==>
                final(self).view() == old(self).view() + match_copy(old(self).view(), offset as int, match_length as int),
            r is Ok && offset > old(self).view().len() ==>
                final(self).view() == old(self).view() + match_copy(old(self).dict() + old(self).view(), offset as int, match_length as int),
            r is Ok ==> final(self).view().len() == old(self).view().len() + match_length,
    { unimplemented!() }
}

//@struct-check file=ruzstd/src/decoding/scratch.rs name=DecoderScratch fields="pub buffer: DecodeBuffer | pub offset_hist: [u32; 3] | pub literals_buffer: Vec<u8> | pub sequences: Vec<Sequence>"
pub struct DecoderScratch {
    pub buffer: DecodeBuffer,
    pub offset_hist: [u32; 3],
    pub literals_buffer: Vec<u8>,
    pub sequences: Vec<Sequence>,
}

/// RFC 8878 3.1.1.5 (same statement as contracts/spec/10_rfc_codes.rs::spec_offset_history)
pub open spec fn spec_offset(of: u32, ll: u32, h: Seq<u32>) -> (int, Seq<u32>) {
    if of > 3 {
        ((of - 3) as int, seq![(of - 3) as u32, h[0], h[1]])
    } else if ll != 0 {
        if of == 1 { (h[0] as int, seq![h[0], h[1], h[2]]) }
        else if of == 2 { (h[1] as int, seq![h[1], h[0], h[2]]) }
        else { (h[2] as int, seq![h[2], h[0], h[1]]) }
    } else {
        if of == 1 { (h[1] as int, seq![h[1], h[0], h[2]]) }
        else if of == 2 { (h[2] as int, seq![h[2], h[0], h[1]]) }
        else {
            let o: u32 = if h[0] == 0 { 0u32 } else { (h[0] - 1) as u32 };
            (o as int, seq![o, h[0], h[1]])
        }
    }
}

//@extract file=ruzstd/src/decoding/sequence_execution.rs fn=do_offset_history
//@spec
    requires offset_value >= 1,
    ensures
        r as int == spec_offset(offset_value, lit_len, old(scratch)@).0,
        final(scratch)@ =~= spec_offset(offset_value, lit_len, old(scratch)@).1,
//@end

/// what a block's sequences produce, as a pure function: (output appended so far, literals consumed, history) after k sequences;
/// None = the block is rejected. `base` is everything in the window before the block, `dict` the dictionary content.
pub struct ExecState {
    pub out: Seq<u8>,
    pub lit_used: int,
    pub hist: Seq<u32>,
}
pub open spec fn exec_k(base: Seq<u8>, dict: Seq<u8>, lits: Seq<u8>, seqs: Seq<Sequence>, hist0: Seq<u32>, k: int) -> Option<ExecState>
    decreases k,
{
    if k <= 0 {
        Some(ExecState { out: Seq::empty(), lit_used: 0, hist: hist0 })
    } else {
        match exec_k(base, dict, lits, seqs, hist0, k - 1) {
            None => None,
            Some(st) => {
                let s = seqs[k - 1];
                if st.out.len() + s.ll + s.ml > MAX_BLOCK_SIZE as int { None }
                else if st.lit_used + s.ll > lits.len() { None }
                else {
                    let (off, h2) = spec_offset(s.of, s.ll, st.hist);
                    let with_lits = st.out + lits.subrange(st.lit_used, st.lit_used + s.ll);
                    let cur = base + with_lits;
                    if off == 0 { None }
                    else if s.ml == 0 { Some(ExecState { out: with_lits, lit_used: st.lit_used + s.ll, hist: h2 }) }
                    else if off <= cur.len() {
                        Some(ExecState { out: with_lits + match_copy(cur, off, s.ml as int), lit_used: st.lit_used + s.ll, hist: h2 })
                    } else {
                        // reaches into the dictionary; whether that is allowed (window not yet passed, dictionary long enough) is D0's contract
                        Some(ExecState { out: with_lits + match_copy(dict + cur, off, s.ml as int), lit_used: st.lit_used + s.ll, hist: h2 })
                    }
                }
            }
        }
    }
}

pub proof fn lemma_match_copy_len(v: Seq<u8>, offset: int, n: int)
    requires n >= 0,
    ensures match_copy(v, offset, n).len() == n,
    decreases n,
{
    if n > 0 { lemma_match_copy_len(v, offset, n - 1); }
}

//@extract file=ruzstd/src/decoding/sequence_execution.rs fn=execute_sequences
//@spec
    requires
        old(scratch).buffer.inv(),
        forall|i: int| 0 <= i < old(scratch).sequences@.len() ==> (#[trigger] old(scratch).sequences@[i]).of >= 1,   // Q2: decode_sequences never emits offset value 0
        old(scratch).literals_buffer@.len() <= MAX_BLOCK_SIZE,          // B2: literals header capped at 128 KiB before decoding
    ensures
        final(scratch).buffer.inv(),
        final(scratch).sequences == old(scratch).sequences, final(scratch).literals_buffer == old(scratch).literals_buffer,
        final(scratch).buffer.dict() == old(scratch).buffer.dict(),
        // C05: a block regenerates at most 128 KiB - on EVERY path: an over-long block is rejected before it is expanded, so
        // even a failing call never leaves more than one block's worth of extra data in the window
        final(scratch).buffer.view().len() - old(scratch).buffer.view().len() <= MAX_BLOCK_SIZE,
        final(scratch).buffer.view().len() >= old(scratch).buffer.view().len(),
        // C01: the output is the interleaving of literal runs and matches, then the remaining literals
        r is Ok ==> ({
            let n = old(scratch).sequences@.len() as int;
            let e = exec_k(old(scratch).buffer.view(), old(scratch).buffer.dict(), old(scratch).literals_buffer@, old(scratch).sequences@, old(scratch).offset_hist@, n);
            e is Some
            && final(scratch).buffer.view() == old(scratch).buffer.view() + e->0.out + old(scratch).literals_buffer@.subrange(e->0.lit_used, old(scratch).literals_buffer@.len() as int)
            && final(scratch).offset_hist@ =~= e->0.hist
        }),
//@loop 1
        invariant
            scratch.buffer.inv(),
            scratch.sequences == old(scratch).sequences, scratch.literals_buffer == old(scratch).literals_buffer,
            scratch.buffer.dict() == old(scratch).buffer.dict(),
            forall|i: int| 0 <= i < scratch.sequences@.len() ==> (#[trigger] scratch.sequences@[i]).of >= 1,
            scratch.literals_buffer@.len() <= MAX_BLOCK_SIZE,
            old_buffer_size == old(scratch).buffer.view().len(),
            literals_copy_counter <= scratch.literals_buffer@.len(),
            seq_sum <= MAX_BLOCK_SIZE,
            ({
                let e = exec_k(old(scratch).buffer.view(), old(scratch).buffer.dict(), old(scratch).literals_buffer@, old(scratch).sequences@, old(scratch).offset_hist@, idx as int);
                e is Some
                && scratch.buffer.view() == old(scratch).buffer.view() + e->0.out
                && e->0.out.len() == seq_sum
                && e->0.lit_used == literals_copy_counter
                && scratch.offset_hist@ =~= e->0.hist
            }),
//@ghost before="seq_sum += seq.ml;"
        proof {
            let base = old(scratch).buffer.view();
            let dct = old(scratch).buffer.dict();
            let lits = old(scratch).literals_buffer@;
            let sq = old(scratch).sequences@;
            let h0 = old(scratch).offset_hist@;
            let st = exec_k(base, dct, lits, sq, h0, idx as int)->0;
            let cur = base + (st.out + lits.subrange(st.lit_used, st.lit_used + seq.ll));
            lemma_match_copy_len(cur, actual_offset as int, seq.ml as int);
            lemma_match_copy_len(dct + cur, actual_offset as int, seq.ml as int);
            assert(lits.subrange(st.lit_used, st.lit_used + 0) =~= Seq::<u8>::empty());
            assert(st.out + Seq::<u8>::empty() =~= st.out);
            assert(base + st.out + lits.subrange(st.lit_used, st.lit_used + seq.ll) =~= cur);
            assert(exec_k(base, dct, lits, sq, h0, idx + 1) is Some);
            assert(scratch.buffer.view() =~= base + exec_k(base, dct, lits, sq, h0, idx + 1)->0.out);
        }
//@end

} // verus!
fn main() {}
