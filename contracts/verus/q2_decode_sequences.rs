//@unit Q2 : FSEDecoder stepping and decode_sequences: with well-formed tables no input makes sequence decoding index out of bounds, overflow or reach unreachable!(); Ok => exactly num_sequences sequences, every offset value >= 1, lengths within the format's ranges, all bits consumed
//@props C03,C01,C12,C14
//@tier quick
//@profile rel
//@assume BitReaderReversed is abstract here; its contract is Verus unit BRR1 (safety/position) - bit values are Kani BRRK.*
//@assume table_wf (every state's baseline + 2^num_bits stays inside the table, symbols within the alphabet) is the postcondition of table construction (proved by units F2/F3 on the verbatim bodies) and of reset (FD5: empty table, accuracy_log 0)
//@assume FSETable::build_decoder / build_from_probabilities are abstract here (units F3/F2 prove build_decoder's contract, shared text include/contract_fse_build_decoder.rs; Kani F2C the predefined tables); the three `Vec::from(&..DEFAULT_DISTRIBUTION[..])` argument expressions are replaced by abstract constructors
use vstd::prelude::*;
verus! {

global size_of usize == 8;

pub const MAX_LITERAL_LENGTH_CODE: u8 = 35;
pub const MAX_MATCH_LENGTH_CODE: u8 = 52;
pub const MAX_OFFSET_CODE: u8 = 31;

pub enum FSEDecoderError { TableIsUninitialized }
pub enum DecodeSequenceError {
    FSEDecoderError(FSEDecoderError),
    MissingByteForRleLlTable,
    MissingByteForRleOfTable,
    MissingByteForRleMlTable,
    ExtraPadding { skipped_bits: i32 },
    UnsupportedOffset { offset_code: u8 },
    ZeroOffset,
    NotEnoughBytesForNumSequences,
    ExtraBits { bits_remaining: isize },
    MissingCompressionMode,
    Other,
}
impl vstd::std_specs::convert::FromSpecImpl<FSEDecoderError> for DecodeSequenceError {
    open spec fn obeys_from_spec() -> bool { true }
    open spec fn from_spec(v: FSEDecoderError) -> Self { DecodeSequenceError::FSEDecoderError(v) }
}
impl From<FSEDecoderError> for DecodeSequenceError {
    fn from(val: FSEDecoderError) -> Self {
        Self::FSEDecoderError(val)
    }
}

/// every panic!/unreachable! of the extracted code becomes a call of this: it must be proved unreachable
#[verifier::external_body]
pub fn vpanic() -> !
    requires false,
{ panic!() }

//@include brr_abstract.rs

//@struct-check file=ruzstd/src/fse/fse_decoder.rs name=Entry fields="pub base_line: u32 | pub num_bits: u8 | pub symbol: u8"
#[derive(Copy, Clone)]
pub struct Entry { pub base_line: u32, pub num_bits: u8, pub symbol: u8 }

//@struct-check file=ruzstd/src/fse/fse_decoder.rs name=FSETable fields="max_symbol: u8 | pub decode: Vec<Entry> | pub accuracy_log: u8"
pub struct FSETable {
    pub max_symbol: u8,
    pub decode: Vec<Entry>,
    pub accuracy_log: u8,
}

impl FSETable {
    /// what table construction must establish and stepping relies on
    pub open spec fn table_wf(&self) -> bool {
        self.accuracy_log != 0 ==> (
            self.accuracy_log <= 9
            && self.decode@.len() == (1u64 << self.accuracy_log)
            && forall|i: int| 0 <= i < self.decode@.len() ==> {
                let e = #[trigger] self.decode@[i];
                e.num_bits <= self.accuracy_log && e.base_line as int + low_mask(e.num_bits) < self.decode@.len() && e.symbol <= self.max_symbol
            })
    }
}

//@struct-check file=ruzstd/src/fse/fse_decoder.rs name=FSEDecoder fields="pub state: Entry | table: &'table FSETable"
pub struct FSEDecoder<'table> {
    pub state: Entry,
    pub table: &'table FSETable,
}

impl<'t> FSEDecoder<'t> {
    /// the current state is a cell of the table (after init_state) - what update_state needs
    pub open spec fn state_ok(&self) -> bool {
        self.table.table_wf() && self.table.accuracy_log != 0
        && self.state.num_bits <= self.table.accuracy_log
        && self.state.base_line as int + low_mask(self.state.num_bits) < self.table.decode@.len()
        && self.state.symbol <= self.table.max_symbol
    }

//@extract file=ruzstd/src/fse/fse_decoder.rs impl="^impl<'t> FSEDecoder" fn=new rewrite="table.decode.first().copied().unwrap_or(Entry {=>first_or(&table.decode, Entry {"
//@spec
        ensures r.table == table,
//@end

//@extract file=ruzstd/src/fse/fse_decoder.rs impl="^impl<'t> FSEDecoder" fn=decode_symbol
//@spec
        ensures r == self.state.symbol,
//@end

//@extract file=ruzstd/src/fse/fse_decoder.rs impl="^impl<'t> FSEDecoder" fn=init_state
//@spec
        requires old(self).table.table_wf(), old(bits).wf(), old(bits).extra() + 64 <= EXTRA_LIMIT,
        ensures
            final(self).table == old(self).table, final(bits).wf(),
            r is Err <==> old(self).table.accuracy_log == 0,
            r is Err ==> *final(bits) == *old(bits),
            r is Ok ==> final(self).state_ok() && final(bits).remaining() == old(bits).remaining() - old(self).table.accuracy_log,
            old(bits).extra() <= final(bits).extra() <= old(bits).extra() + 64, final(bits).src_len() == old(bits).src_len(),
//@ghost at=start
        proof { lemma_shift_facts(); }
//@end

//@extract file=ruzstd/src/fse/fse_decoder.rs impl="^impl<'t> FSEDecoder" fn=update_state ret=
//@spec
        requires old(self).state_ok(), old(bits).wf(), old(bits).extra() + 64 <= EXTRA_LIMIT,
        ensures
            final(self).table == old(self).table, final(self).state_ok(), final(bits).wf(),
            final(bits).remaining() == old(bits).remaining() - old(self).state.num_bits,
            old(bits).extra() <= final(bits).extra() <= old(bits).extra() + 64, final(bits).src_len() == old(bits).src_len(),
//@ghost at=start
        proof { lemma_shift_facts(); }
//@end
}


//@struct-check file=ruzstd/src/blocks/sequence_section.rs name=Sequence fields="pub ll: u32 | pub ml: u32 | pub of: u32"
#[derive(Clone, Copy)]
pub struct Sequence { pub ll: u32, pub ml: u32, pub of: u32 }

#[derive(Clone, Copy)]
pub struct CompressionModes(pub u8);

//@struct-check file=ruzstd/src/blocks/sequence_section.rs name=SequencesHeader fields="pub num_sequences: u32 | pub modes: Option<CompressionModes>"
pub struct SequencesHeader {
    pub num_sequences: u32,
    pub modes: Option<CompressionModes>,
}

//@struct-check file=ruzstd/src/decoding/scratch.rs name=FSEScratch fields="pub offsets: FSETable | pub of_rle: Option<u8> | pub literal_lengths: FSETable | pub ll_rle: Option<u8> | pub match_lengths: FSETable | pub ml_rle: Option<u8>"
pub struct FSEScratch {
    pub offsets: FSETable,
    pub of_rle: Option<u8>,
    pub literal_lengths: FSETable,
    pub ll_rle: Option<u8>,
    pub match_lengths: FSETable,
    pub ml_rle: Option<u8>,
}

impl FSEScratch {
    /// tables well-formed, alphabets those of the three code types, RLE symbols inside their alphabets
    pub open spec fn wf(&self) -> bool {
        self.offsets.table_wf() && self.literal_lengths.table_wf() && self.match_lengths.table_wf()
        && self.offsets.max_symbol == MAX_OFFSET_CODE && self.literal_lengths.max_symbol == MAX_LITERAL_LENGTH_CODE
        && self.match_lengths.max_symbol == MAX_MATCH_LENGTH_CODE
        && (self.ll_rle matches Some(x) ==> x <= MAX_LITERAL_LENGTH_CODE)
        && (self.ml_rle matches Some(x) ==> x <= MAX_MATCH_LENGTH_CODE)
        // the offset RLE symbol is checked again at use (UnsupportedOffset), no range needed
    }
}

pub enum FSETableError { Any }
impl vstd::std_specs::convert::FromSpecImpl<FSETableError> for DecodeSequenceError {
    open spec fn obeys_from_spec() -> bool { true }
    open spec fn from_spec(v: FSETableError) -> Self { DecodeSequenceError::Other }
}
impl From<FSETableError> for DecodeSequenceError {
    fn from(val: FSETableError) -> Self {
        Self::Other
    }
}

impl FSETable {
    /// abstract: "this is the predefined table of RFC 8878 Appendix A for this code type" (its content is Kani obligation F2C.*)
    pub uninterp spec fn is_predefined(&self, which: int) -> bool;

    /// F3 + F2 (abstract here): parse a table description and build the decoding table
    #[verifier::external_body]
    pub fn build_decoder(&mut self, source: &[u8], max_log: u8) -> (r: Result<usize, FSETableError>)
//@include contract_fse_build_decoder.rs
    { unimplemented!() }

    /// F2 on the three predefined distributions (abstract here)
    #[verifier::external_body]
    pub fn build_from_probabilities(&mut self, acc_log: u8, probs: &Vec<i32>) -> (r: Result<(), FSETableError>)
        requires is_default_dist(acc_log, probs@) != 0,
        ensures
            final(self).max_symbol == old(self).max_symbol,
            r is Ok ==> final(self).table_wf() && final(self).accuracy_log != 0 && final(self).is_predefined(is_default_dist(acc_log, probs@)),
    { unimplemented!() }
}

/// 1 / 2 / 3 when (acc_log, probs) is the predefined literal-length / offset / match-length distribution, else 0
pub uninterp spec fn is_default_dist(acc_log: u8, probs: Seq<i32>) -> int;

//@const-check file=ruzstd/src/decoding/sequence_section_decoder.rs text="const LL_DEFAULT_ACC_LOG: u8 = 6;"
//@const-check file=ruzstd/src/decoding/sequence_section_decoder.rs text="const ML_DEFAULT_ACC_LOG: u8 = 6;"
//@const-check file=ruzstd/src/decoding/sequence_section_decoder.rs text="const OF_DEFAULT_ACC_LOG: u8 = 5;"
pub const LL_DEFAULT_ACC_LOG: u8 = 6;
pub const ML_DEFAULT_ACC_LOG: u8 = 6;
pub const OF_DEFAULT_ACC_LOG: u8 = 5;
//@const-check file=ruzstd/src/decoding/sequence_section_decoder.rs text="pub const LL_MAX_LOG: u8 = 9;"
//@const-check file=ruzstd/src/decoding/sequence_section_decoder.rs text="pub const ML_MAX_LOG: u8 = 9;"
//@const-check file=ruzstd/src/decoding/sequence_section_decoder.rs text="pub const OF_MAX_LOG: u8 = 8;"
pub const LL_MAX_LOG: u8 = 9;
pub const ML_MAX_LOG: u8 = 9;
pub const OF_MAX_LOG: u8 = 8;

/// `Vec::from(&LITERALS_LENGTH_DEFAULT_DISTRIBUTION[..])` etc. (the constants' content is checked against RFC Appendix A by Kani F2C.*)
#[verifier::external_body]
pub fn ll_default_distribution() -> (r: Vec<i32>) ensures is_default_dist(LL_DEFAULT_ACC_LOG, r@) == 1 { unimplemented!() }
#[verifier::external_body]
pub fn of_default_distribution() -> (r: Vec<i32>) ensures is_default_dist(OF_DEFAULT_ACC_LOG, r@) == 2 { unimplemented!() }
#[verifier::external_body]
pub fn ml_default_distribution() -> (r: Vec<i32>) ensures is_default_dist(ML_DEFAULT_ACC_LOG, r@) == 3 { unimplemented!() }

pub enum ModeType { Predefined, RLE, FSECompressed, Repeat }

impl CompressionModes {
//@extract file=ruzstd/src/blocks/sequence_section.rs impl="^impl CompressionModes" fn=decode_mode
//@spec
        requires m <= 3,
        ensures (m == 0 <==> r is Predefined) && (m == 1 <==> r is RLE) && (m == 2 <==> r is FSECompressed) && (m == 3 <==> r is Repeat),
//@end
//@extract file=ruzstd/src/blocks/sequence_section.rs impl="^impl CompressionModes" fn=ll_mode
//@spec
        ensures r == spec_mode(self.0 >> 6),
//@ghost at=start
        proof { let x = self.0; assert((x >> 6) <= 3) by (bit_vector); }
//@end
//@extract file=ruzstd/src/blocks/sequence_section.rs impl="^impl CompressionModes" fn=of_mode
//@spec
        ensures r == spec_mode((self.0 >> 4) & 3),
//@ghost at=start
        proof { let x = self.0; assert(((x >> 4) & 3) <= 3) by (bit_vector); }
//@end
//@extract file=ruzstd/src/blocks/sequence_section.rs impl="^impl CompressionModes" fn=ml_mode
//@spec
        ensures r == spec_mode((self.0 >> 2) & 3),
//@ghost at=start
        proof { let x = self.0; assert(((x >> 2) & 3) <= 3) by (bit_vector); }
//@end
}
/// RFC 3.1.1.3.2.1: 0 Predefined, 1 RLE, 2 FSE compressed, 3 Repeat
pub open spec fn spec_mode(m: u8) -> ModeType {
    if m == 0 { ModeType::Predefined } else if m == 1 { ModeType::RLE } else if m == 2 { ModeType::FSECompressed } else { ModeType::Repeat }
}

//@extract file=ruzstd/src/decoding/sequence_section_decoder.rs fn=maybe_update_fse_tables rewrite="&Vec::from(&LITERALS_LENGTH_DEFAULT_DISTRIBUTION[..])=>&ll_default_distribution()||&Vec::from(&OFFSET_DEFAULT_DISTRIBUTION[..])=>&of_default_distribution()||&Vec::from(&MATCH_LENGTH_DEFAULT_DISTRIBUTION[..])=>&ml_default_distribution()||.ok_or(DecodeSequenceError::MissingCompressionMode)?=>.ok_or(DecodeSequenceError::MissingCompressionMode)?"
//@spec
    requires old(scratch).wf(), source@.len() <= 0x1_0000_0000,
    ensures
        r matches Ok(n) ==> n <= source@.len() && final(scratch).wf(),
        // per mode (literal lengths; the other two are symmetric and read the bytes that follow)
        r is Ok && section.modes is Some ==> ({
            let m = section.modes->0;
            (spec_mode(m.0 >> 6) is Repeat ==> final(scratch).literal_lengths == old(scratch).literal_lengths && final(scratch).ll_rle == old(scratch).ll_rle)
            && (spec_mode(m.0 >> 6) is RLE ==> source@.len() >= 1 && final(scratch).ll_rle == Some(source@[0]) && final(scratch).literal_lengths == old(scratch).literal_lengths)
            && (spec_mode(m.0 >> 6) is Predefined ==> final(scratch).ll_rle is None && final(scratch).literal_lengths.is_predefined(1))
            && (spec_mode(m.0 >> 6) is FSECompressed ==> final(scratch).ll_rle is None)
            && (spec_mode((m.0 >> 4) & 3) is Repeat ==> final(scratch).offsets == old(scratch).offsets && final(scratch).of_rle == old(scratch).of_rle)
            && (spec_mode((m.0 >> 4) & 3) is Predefined ==> final(scratch).of_rle is None && final(scratch).offsets.is_predefined(2))
            && (spec_mode((m.0 >> 4) & 3) is FSECompressed ==> final(scratch).of_rle is None)
            && (spec_mode((m.0 >> 4) & 3) is RLE ==> final(scratch).of_rle is Some && final(scratch).offsets == old(scratch).offsets)
            && (spec_mode((m.0 >> 2) & 3) is Repeat ==> final(scratch).match_lengths == old(scratch).match_lengths && final(scratch).ml_rle == old(scratch).ml_rle)
            && (spec_mode((m.0 >> 2) & 3) is Predefined ==> final(scratch).ml_rle is None && final(scratch).match_lengths.is_predefined(3))
            && (spec_mode((m.0 >> 2) & 3) is FSECompressed ==> final(scratch).ml_rle is None)
            && (spec_mode((m.0 >> 2) & 3) is RLE ==> final(scratch).ml_rle is Some && final(scratch).match_lengths == old(scratch).match_lengths)
        }),
        r is Ok ==> section.modes is Some,
//@end

pub open spec fn seq_ok(s: Sequence) -> bool {
    s.of >= 1 && s.ll <= 131071 && 3 <= s.ml <= 131074
}

//@extract file=ruzstd/src/decoding/sequence_section_decoder.rs fn=lookup_ll_code
//@spec
    requires code <= 35,
    ensures r.1 <= 16, r.0 as int + low_mask(r.1) <= 131071,
//@ghost at=start
    proof { lemma_mask_facts(); }
//@end

//@extract file=ruzstd/src/decoding/sequence_section_decoder.rs fn=lookup_ml_code
//@spec
    requires code <= 52,
    ensures r.1 <= 16, r.0 >= 3, r.0 as int + low_mask(r.1) <= 131074,
//@ghost at=start
    proof { lemma_mask_facts(); }
//@end

pub proof fn lemma_mask_facts()
    ensures
        low_mask(0) == 0, low_mask(1) == 1, low_mask(2) == 3, low_mask(3) == 7, low_mask(4) == 15, low_mask(5) == 31, low_mask(6) == 63,
        low_mask(7) == 127, low_mask(8) == 255, low_mask(9) == 511, low_mask(10) == 1023, low_mask(11) == 2047, low_mask(12) == 4095,
        low_mask(13) == 8191, low_mask(14) == 16383, low_mask(15) == 32767, low_mask(16) == 65535,
        forall|n: u8| n <= 31 ==> #[trigger] low_mask(n) + (1u32 << n) <= 0xffff_ffff && (1u32 << n) >= 1,
{
    assert(forall|n: u8| n <= 31 ==> #[trigger] (((1u64 << n) - 1) as u64) <= 0x7fff_ffffu64 && (1u32 << n) <= 0x8000_0000u32 && (1u32 << n) >= 1u32) by (bit_vector);
    assert(((1u64 << 0u8) - 1) as u64 == 0 && ((1u64 << 1u8) - 1) as u64 == 1 && ((1u64 << 2u8) - 1) as u64 == 3 && ((1u64 << 3u8) - 1) as u64 == 7
        && ((1u64 << 4u8) - 1) as u64 == 15 && ((1u64 << 5u8) - 1) as u64 == 31 && ((1u64 << 6u8) - 1) as u64 == 63 && ((1u64 << 7u8) - 1) as u64 == 127
        && ((1u64 << 8u8) - 1) as u64 == 255 && ((1u64 << 9u8) - 1) as u64 == 511 && ((1u64 << 10u8) - 1) as u64 == 1023 && ((1u64 << 11u8) - 1) as u64 == 2047
        && ((1u64 << 12u8) - 1) as u64 == 4095 && ((1u64 << 13u8) - 1) as u64 == 8191 && ((1u64 << 14u8) - 1) as u64 == 16383
        && ((1u64 << 15u8) - 1) as u64 == 32767 && ((1u64 << 16u8) - 1) as u64 == 65535) by (bit_vector);
}

//@extract file=ruzstd/src/decoding/sequence_section_decoder.rs fn=decode_sequences_without_rle
//@spec
    requires
        scratch.wf(), old(br).wf(), old(br).extra() <= 640,
    ensures
        r is Ok ==> final(target)@.len() == section.num_sequences && final(br).remaining() <= 0
            && (section.num_sequences > 0 ==> final(br).remaining() == 0)     // every bit of the stream was consumed, none missing
            && forall|i: int| 0 <= i < final(target)@.len() ==> seq_ok(#[trigger] final(target)@[i]),
//@loop 1
        invariant
            scratch.wf(), br.wf(),
            ll_dec.table == &scratch.literal_lengths, ml_dec.table == &scratch.match_lengths, of_dec.table == &scratch.offsets,
            ll_dec.state_ok(), ml_dec.state_ok(), of_dec.state_ok(),
            target@.len() == _seq_idx,
            _seq_idx > 0 ==> br.remaining() >= 0,
            br.extra() <= 832 + 384 * _seq_idx,
            forall|i: int| 0 <= i < target@.len() ==> seq_ok(#[trigger] target@[i]),
//@ghost before="let (obits, ml_add, ll_add) = br.get_bits_triple(of_code, ml_num_bits, ll_num_bits);"
        proof { lemma_mask_facts(); }
//@end

//@extract file=ruzstd/src/decoding/sequence_section_decoder.rs fn=decode_sequences_with_rle
//@spec
    requires
        scratch.wf(), old(br).wf(), old(br).extra() <= 640,
    ensures
        r is Ok ==> final(target)@.len() == section.num_sequences && final(br).remaining() <= 0
            && (section.num_sequences > 0 ==> final(br).remaining() == 0)     // every bit of the stream was consumed, none missing
            && forall|i: int| 0 <= i < final(target)@.len() ==> seq_ok(#[trigger] final(target)@[i]),
//@loop 1
        invariant
            scratch.wf(), br.wf(),
            ll_dec.table == &scratch.literal_lengths, ml_dec.table == &scratch.match_lengths, of_dec.table == &scratch.offsets,
            scratch.ll_rle is None ==> ll_dec.state_ok(),
            scratch.ml_rle is None ==> ml_dec.state_ok(),
            scratch.of_rle is None ==> of_dec.state_ok(),
            target@.len() == _seq_idx,
            _seq_idx > 0 ==> br.remaining() >= 0,
            br.extra() <= 832 + 384 * _seq_idx,
            forall|i: int| 0 <= i < target@.len() ==> seq_ok(#[trigger] target@[i]),
//@ghost before="let (obits, ml_add, ll_add) = br.get_bits_triple(of_code, ml_num_bits, ll_num_bits);"
        proof { lemma_mask_facts(); }
//@end

//@extract file=ruzstd/src/decoding/sequence_section_decoder.rs fn=decode_sequences
//@spec
    requires
        old(scratch).wf(), source@.len() <= 0x1_0000_0000,
    ensures
        final(scratch).wf() || r is Err,
        r is Ok ==> final(target)@.len() == section.num_sequences
            && forall|i: int| 0 <= i < final(target)@.len() ==> seq_ok(#[trigger] final(target)@[i]),
//@loop 1
        invariant_except_break skipped_bits <= 8,
        invariant br.wf(), 0 <= skipped_bits <= 9, br.extra() <= 64 * skipped_bits, scratch.wf(),
        decreases 9 - skipped_bits,
//@end

/// `v.first().copied().unwrap_or(d)` (iterator-free form; Verus has no spec for slice::first + Option::copied)
pub fn first_or(v: &Vec<Entry>, d: Entry) -> (r: Entry) {
    if v.len() > 0 { v[0] } else { d }
}

pub proof fn lemma_shift_facts()
    ensures
        forall|n: u8| n <= 9 ==> #[trigger] low_mask(n) < (1u64 << 9) && low_mask(n) + 1 == (1u64 << n),
        forall|n: u8| n <= 9 ==> (#[trigger] (1u64 << n)) <= 512,
{
    assert(forall|n: u8| n <= 9 ==> #[trigger] (((1u64 << n) - 1) as u64) < (1u64 << 9) && (((1u64 << n) - 1) as u64) + 1 == (1u64 << n)) by (bit_vector);
    assert(forall|n: u8| n <= 9 ==> (#[trigger] (1u64 << n)) <= 512) by (bit_vector);
}

} // verus!
fn main() {}
