//@unit FD3V : StreamingDecoder::read (the io::Read front end) on its verbatim body, for every source and every request size: it decodes until the request can be served or the frame ends, asks decode_blocks for at most the missing amount (C05), a short read happens only when the frame is finished, Ok(0) on a non-empty request only when finished and drained, termination. FrameDecoder::decode_all on its verbatim body, for every input and every target: frames and skippable frames are processed strictly in order until the input is empty, a skippable frame is skipped by exactly its declared length (or FailedToSkipFrame if the input is shorter), every frame is decoded to its end before the next header is read, the returned total is the sum of what was written and never exceeds the target, an undersized target is TargetTooSmall, no index / slice / overflow panic, termination; (decode_all_to_vec needs Vec::capacity / core::cmp::min, outside Verus' std specs: Kani unit FD3)
//@props C10,C03,C06,C05
//@tier quick
//@profile rel
//@features default
//@assume callee contracts: FrameDecoder::decode_blocks (PROVED in Verus unit FD1V; shared text include/contract_decode_blocks.rs), FrameDecoder::init (Kani H2/H4/FD4: a fresh unfinished state whose counter is the header bytes consumed; a skippable frame is reported as SkipFrame after exactly 8 bytes), Read for FrameDecoder (Kani D1/D2: draining only touches the buffer), can_collect (D2), is_finished (proved in FD1V)
//@assume in StreamingDecoder::read `DEC` is instantiated with FrameDecoder (whose BorrowMut is the identity) and the default feature set is taken (R-cfgfeat: the `std` arm of the error conversion); FrameDecoder::read hands out min(collectable, request) (Kani D1/D2), can_collect is abstract
//@assume the input slice is modelled as a reader that shrinks from the front (std / Kani IO1); here it is the COMPLETE input, so running out of bytes is an error (C10), not "need more"
//@assume R-impl as in FD1V: `&mut input` arguments of init / decode_blocks are passed as `&mut input` to abstract functions taking `&mut R` with R = &[u8] (no rewrite needed here)
use vstd::prelude::*;
verus! {

global size_of usize == 8;

#[verifier::external_body]
pub fn vpanic() -> !
    requires false,
{ panic!() }

//@const-check file=ruzstd/src/common/mod.rs text="pub const MAX_BLOCK_SIZE: u32 = 128 * 1024;"
pub const MAX_BLOCK_SIZE: u32 = 128 * 1024;

pub struct Error { pub k: u8 }
pub trait Read {
    spec fn avail(&self) -> int;
    /// std contract of `read`: SOME bytes, at most buf.len() (callers that need an exact count must use read_exact)
    fn read(&mut self, buf: &mut [u8]) -> (r: Result<usize, Error>)
        ensures
            final(buf)@.len() == old(buf)@.len(),
            r matches Ok(n) ==> n <= old(buf)@.len() && n <= old(self).avail() && final(self).avail() == old(self).avail() - n,
            r is Err ==> final(self).avail() <= old(self).avail();
    /// ghost mode flag: the reader is a caller-provided chunk of an incremental (slice-to-slice) decode; running out of bytes in the
    /// middle of a block would then turn "need more input" into a hard error, so a block body may only be decoded when it is entirely present
    spec fn incremental() -> bool;
    fn read_exact(&mut self, buf: &mut [u8]) -> (r: Result<(), Error>)
        ensures
            final(buf)@.len() == old(buf)@.len(),
            final(self).avail() >= 0 || old(self).avail() < 0,
            r is Ok ==> final(self).avail() == old(self).avail() - old(buf)@.len() && old(self).avail() >= old(buf)@.len(),
            r is Err ==> final(self).avail() <= old(self).avail();
}
#[verifier::external_body]
pub fn le_u32(b: [u8; 4]) -> (r: u32) { unimplemented!() }
/// `s[..4].try_into().expect(..)`: the first four bytes as an array (slice -> array conversion is outside Verus' std specs)
#[verifier::external_body]
pub fn first4(s: &[u8]) -> (r: [u8; 4])
    requires s@.len() >= 4,
{ unimplemented!() }

/// std / io_nostd: a byte slice is a reader that hands out its prefix and shrinks (Kani IO1 checks the no_std implementation)
impl<'a> Read for &'a [u8] {
    open spec fn avail(&self) -> int { self@.len() as int }
    open spec fn incremental() -> bool { false }     // in decode_all the slice is the complete input: truncation is an error
    #[verifier::external_body]
    fn read(&mut self, buf: &mut [u8]) -> (r: Result<usize, Error>) { unimplemented!() }
    #[verifier::external_body]
    fn read_exact(&mut self, buf: &mut [u8]) -> (r: Result<(), Error>) { unimplemented!() }
}

#[derive(Clone, Copy, PartialEq, Eq)]
pub enum BlockType { Raw, RLE, Compressed, Reserved }
//@struct-check file=ruzstd/src/blocks/block.rs name=BlockHeader fields="pub last_block: bool | pub block_type: BlockType | pub decompressed_size: u32 | pub content_size: u32"
pub struct BlockHeader { pub last_block: bool, pub block_type: BlockType, pub decompressed_size: u32, pub content_size: u32 }

pub enum BlockHeaderReadError { Any }
pub enum DecodeBlockContentError { Any }
pub enum ReadFrameHeaderError { SkipFrame { magic_number: u32, length: u32 }, Other }
pub enum FrameDecoderError {
    ReadFrameHeaderError(ReadFrameHeaderError),
    TargetTooSmall,
    FailedToSkipFrame,
    FailedToReadBlockHeader(BlockHeaderReadError),
    FailedToReadBlockBody(DecodeBlockContentError),
    FailedToReadChecksum(Error),
    FailedToDrainDecodebuffer(Error),
    NotYetInitialized,
    Other,
}

#[verifier::external_body]
pub struct DecodeBuffer { _o: u8 }
impl DecodeBuffer {
    pub uninterp spec fn spec_len(&self) -> int;
    #[verifier::external_body]
    pub fn len(&self) -> (r: usize) ensures r == self.spec_len(), { unimplemented!() }
}
//@struct-check file=ruzstd/src/decoding/scratch.rs name=DecoderScratch fields="pub buffer: DecodeBuffer"
pub struct DecoderScratch { pub buffer: DecodeBuffer }

pub struct FrameDescriptor(pub u8);
impl FrameDescriptor {
    pub uninterp spec fn spec_checksum_flag(&self) -> bool;
    #[verifier::external_body]
    pub fn content_checksum_flag(&self) -> (r: bool) ensures r == self.spec_checksum_flag(), { unimplemented!() }
}
//@struct-check file=ruzstd/src/decoding/frame.rs name=FrameHeader fields="pub descriptor: FrameDescriptor"
pub struct FrameHeader { pub descriptor: FrameDescriptor }

//@struct-check file=ruzstd/src/decoding/frame_decoder.rs name=FrameDecoderState fields="pub frame_header: frame::FrameHeader | decoder_scratch: DecoderScratch | frame_finished: bool | block_counter: usize | bytes_read_counter: u64 | check_sum: Option<u32> | using_dict: Option<u32>"
pub struct FrameDecoderState {
    pub frame_header: FrameHeader,
    pub decoder_scratch: DecoderScratch,
    pub frame_finished: bool,
    pub block_counter: usize,
    pub bytes_read_counter: u64,
    pub check_sum: Option<u32>,
    pub using_dict: Option<u32>,
}
//@struct-check file=ruzstd/src/decoding/frame_decoder.rs name=FrameDecoder fields="state: Option<FrameDecoderState>"
pub struct FrameDecoder { pub state: Option<FrameDecoderState> }

//@const-check file=ruzstd/src/decoding/frame_decoder.rs text="pub enum BlockDecodingStrategy {\n    All,\n    UptoBlocks(usize),\n    UptoBytes(usize),\n}"
pub enum BlockDecodingStrategy { All, UptoBlocks(usize), UptoBytes(usize) }

pub struct BlockDecoder { _o: u8 }
#[verifier::external_body]
pub fn block_decoder_new() -> BlockDecoder { unimplemented!() }
impl BlockDecoder {
    /// H1 (Kani, all 2^24 headers + every truncation)
    #[verifier::external_body]
    pub fn read_block_header<R: Read>(&mut self, r: &mut R) -> (res: Result<(BlockHeader, u8), BlockHeaderReadError>)
        ensures
            final(r).avail() <= old(r).avail(),
            res matches Ok(hs) ==> hs.1 == 3 && final(r).avail() == old(r).avail() - 3 && old(r).avail() >= 3,
    { unimplemented!() }
    /// B1 (Kani) / B2 (Verus): the block body
    #[verifier::external_body]
    pub fn decode_block_content<R: Read>(&mut self, header: &BlockHeader, workspace: &mut DecoderScratch, source: &mut R) -> (res: Result<u64, DecodeBlockContentError>)
        requires R::incremental() ==> old(source).avail() >= header.content_size,
        ensures
            final(source).avail() <= old(source).avail(),
            final(workspace).buffer.spec_len() >= old(workspace).buffer.spec_len(),
            res matches Ok(n) ==> final(source).avail() == old(source).avail() - n && old(source).avail() >= n
                && final(workspace).buffer.spec_len() <= old(workspace).buffer.spec_len() + MAX_BLOCK_SIZE,
    { unimplemented!() }
}

pub open spec fn max1(n: int) -> int { if n < 1 { 1 } else { n } }


/// ghost: "`remaining` bytes before the end of the input is a position where a frame (or skippable frame) starts, or the end".
/// Uninterpreted; it is DEFINED by the two facts below: the position right after a finished frame is one, and so is the position
/// `length` bytes after a skippable frame's 8-byte header. decode_all's own obligation is to call init only at such positions.
pub uninterp spec fn at_frame_boundary(remaining: int) -> bool;

impl FrameDecoder {
    pub open spec fn spec_is_finished(&self) -> bool {
        match self.state {
            None => true,
            Some(s) => if s.frame_header.descriptor.spec_checksum_flag() { s.frame_finished && s.check_sum is Some } else { s.frame_finished },
        }
    }
    pub uninterp spec fn spec_can_collect(&self) -> int;

    /// H2 / H4 / FD4 (Kani)
    #[verifier::external_body]
    pub fn init<R: Read>(&mut self, source: &mut R) -> (r: Result<(), FrameDecoderError>)
        requires at_frame_boundary(old(source).avail()),       // a header is only ever parsed where a frame starts
        ensures
            final(source).avail() <= old(source).avail(), final(source).avail() >= 0 || old(source).avail() < 0,
            r is Ok ==> final(self).state is Some
                && final(self).state->0.bytes_read_counter == old(source).avail() - final(source).avail()
                && old(source).avail() - final(source).avail() >= 1
                && !final(self).state->0.frame_finished && final(self).state->0.check_sum is None && final(self).state->0.block_counter == 0
                && final(self).state->0.decoder_scratch.buffer.spec_len() == 0,
            r is Err ==> final(self).spec_can_collect() == old(self).spec_can_collect(),      // FD4: a rejected header leaves the old state
            r matches Err(FrameDecoderError::ReadFrameHeaderError(ReadFrameHeaderError::SkipFrame { length, .. })) ==> final(source).avail() == old(source).avail() - 8 && old(source).avail() >= 8
                && (final(source).avail() >= length ==> at_frame_boundary(final(source).avail() - length)),
    { unimplemented!() }

    #[verifier::external_body]
    pub fn decode_blocks<R: Read>(&mut self, source: &mut R, strat: BlockDecodingStrategy) -> (r: Result<bool, FrameDecoderError>)
//@include contract_decode_blocks.rs
            // definitional: right after the last block (and checksum) of a frame the next frame starts
            r matches Ok(true) ==> at_frame_boundary(final(source).avail()),
    { unimplemented!() }

    /// D1/D2 (Kani): draining touches only the decode buffer; hands out at most target.len() bytes
    #[verifier::external_body]
    pub fn read(&mut self, target: &mut [u8]) -> (r: Result<usize, Error>)
        ensures
            final(target)@.len() == old(target)@.len(),
            r matches Ok(n) ==> n <= old(target)@.len()
                && n == (if old(self).spec_can_collect() < old(target)@.len() { old(self).spec_can_collect() } else { old(target)@.len() as int })
                && final(self).spec_can_collect() == old(self).spec_can_collect() - n,
            final(self).state is Some <==> old(self).state is Some,
            old(self).state matches Some(s0) ==> ({
                let s1 = final(self).state->0;
                s1.bytes_read_counter == s0.bytes_read_counter && s1.block_counter == s0.block_counter && s1.frame_finished == s0.frame_finished
                && s1.check_sum == s0.check_sum && s1.using_dict == s0.using_dict && s1.frame_header == s0.frame_header
                && 0 <= s1.decoder_scratch.buffer.spec_len() <= s0.decoder_scratch.buffer.spec_len()
            }),
    { unimplemented!() }
    #[verifier::external_body]
    pub fn can_collect(&self) -> (r: usize) ensures r == self.spec_can_collect(), { unimplemented!() }
    /// `BorrowMut<FrameDecoder> for FrameDecoder` is the identity
    pub fn borrow_mut(&mut self) -> (r: &mut FrameDecoder)
        ensures *r == *old(self), *final(r) == *final(self),
    { self }
    /// what every streaming entry point maintains: once the last block has been decoded, its checksum (if flagged) has been read too
    pub open spec fn streaming_inv(&self) -> bool {
        self.state matches Some(s) ==> (s.frame_finished && s.frame_header.descriptor.spec_checksum_flag() ==> s.check_sum is Some)
    }
    #[verifier::external_body]
    pub fn is_finished(&self) -> (r: bool) ensures r == self.spec_is_finished(), { unimplemented!() }

#[verifier::loop_isolation(false)]
//@extract file=ruzstd/src/decoding/frame_decoder.rs impl="^impl FrameDecoder" fn=decode_all rewrite="crate::decoding::errors::ReadFrameHeaderError::SkipFrame=>ReadFrameHeaderError::SkipFrame"
//@spec
        requires input@.len() <= usize::MAX, old(output)@.len() <= usize::MAX,      // true of every slice
            at_frame_boundary(input@.len() as int),        // "`input` must contain an exact number of frames"
        ensures
            r matches Ok(n) ==> n <= old(output)@.len(),
//@loop 1
            invariant
                input@.len() <= usize::MAX,
                at_frame_boundary(input@.len() as int),
                total_bytes_written + output@.len() == old(output)@.len(),
                !first_frame ==> self.spec_can_collect() == 0,
            decreases input@.len(),
//@ghost afterloop=1
        proof { assert(input@.len() == 0); }     // Ok is returned only when the whole input has been consumed
//@ghost at=start
        let ghost mut first_frame = true;
//@ghost inloop=1
            let ghost in_at_frame = input@.len();
            // a new frame is only started once everything the previous one produced has been handed out (else those bytes would be lost:
            // init discards the buffer) - this is what turns an undersized target into TargetTooSmall
            proof { assert(!first_frame ==> self.spec_can_collect() == 0); }
//@ghost endloop=1
            proof { first_frame = false; }
//@loop 2
                invariant
                    total_bytes_written + output@.len() == old(output)@.len(),
                    self.state is Some, !self.state->0.frame_finished,
                    self.state->0.bytes_read_counter + input@.len() <= u64::MAX, self.state->0.block_counter + input@.len() <= usize::MAX,
                    self.state->0.decoder_scratch.buffer.spec_len() >= 0,
                    input@.len() < in_at_frame,
                decreases input@.len(),
//@ghost before="output = &mut output["
                let ghost out_len_before = output@.len();
//@ghost before="total_bytes_written += bytes_written;"
                proof { assert(output@.len() == out_len_before - bytes_written); }
//@end

}

impl Error {
    #[verifier::external_body]
    pub fn other<E>(e: E) -> Error { unimplemented!() }
}

//@struct-check file=ruzstd/src/decoding/streaming_decoder.rs name=StreamingDecoder fields="pub decoder: DEC | source: READ"
pub struct StreamingDecoder<READ: Read> {
    pub decoder: FrameDecoder,
    pub source: READ,
}

impl<READ: Read> StreamingDecoder<READ> {
#[verifier::loop_isolation(false)]
//@extract file=ruzstd/src/decoding/streaming_decoder.rs impl="^impl<READ: Read, DEC: BorrowMut<FrameDecoder>> Read for StreamingDecoder" fn=read
//@spec
        requires
            !READ::incremental(), old(self).source.avail() >= 0,
            old(self).decoder.streaming_inv(), old(self).decoder.spec_can_collect() >= 0,
            old(self).decoder.state matches Some(st) ==> st.bytes_read_counter + old(self).source.avail() <= u64::MAX && st.block_counter + old(self).source.avail() <= usize::MAX
                && st.decoder_scratch.buffer.spec_len() >= 0,
        ensures
            final(buf)@.len() == old(buf)@.len(),
            r matches Ok(n) ==> n <= old(buf)@.len()
                // a short read happens only when the frame is finished (C06: the bytes do not depend on the request sizes)
                && (n < old(buf)@.len() ==> final(self).decoder.spec_is_finished())
                // Ok(0) for a non-empty request means: finished and drained
                && (n == 0 && old(buf)@.len() > 0 ==> final(self).decoder.spec_is_finished() && final(self).decoder.spec_can_collect() == 0),
//@loop 1
            invariant
                self.source.avail() >= 0,
                decoder.streaming_inv(),
                decoder.state matches Some(st) ==> st.bytes_read_counter + self.source.avail() <= u64::MAX && st.block_counter + self.source.avail() <= usize::MAX
                    && st.decoder_scratch.buffer.spec_len() >= 0,
            decreases self.source.avail(),
//@ghost before="match decoder.decode_blocks("
            // C05: never ask for more than what is missing to serve the request
            proof { assert(additional_bytes_needed + decoder.spec_can_collect() <= buf@.len()); assert(additional_bytes_needed >= 1); }
//@end
}

} // verus!
fn main() {}
