        // contract of FSETable::build_decoder: PROVED in unit F2 (on the verbatim body), ASSUMED wherever the table type is abstract (Q2, HU2V)
        requires max_log <= 9, source@.len() <= 0x1_0000_0000,
            // RFC 8878 3.1.1.3.2.1.1: the offset table (the only one whose alphabet ends at code 31) allows accuracy logs up to 8 only
            old(self).max_symbol == 31 ==> max_log <= 8,
        ensures
            final(self).max_symbol == old(self).max_symbol,
            r matches Ok(n) ==> n <= source@.len() && final(self).table_wf() && final(self).accuracy_log != 0,
