// ---- abstract BitReaderReversed: exactly the contracts Verus unit BRR1 proves on the verbatim bodies ----
pub open spec fn low_mask(n: u8) -> u64 { ((1u64 << n) - 1) as u64 }
pub const EXTRA_LIMIT: usize = 0x4000_0000_0000_0000;

#[verifier::external_body]
pub struct BitReaderReversed<'s> { _s: &'s [u8] }
impl<'s> BitReaderReversed<'s> {
    pub uninterp spec fn wf(&self) -> bool;
    pub uninterp spec fn remaining(&self) -> int;
    pub uninterp spec fn extra(&self) -> int;
    pub uninterp spec fn src_len(&self) -> int;

    #[verifier::external_body]
    pub fn new(source: &'s [u8]) -> (r: BitReaderReversed<'s>)
        requires source@.len() <= 0x1_0000_0000,
        ensures r.wf(), r.remaining() == 8 * source@.len(), r.extra() == 0, r.src_len() == source@.len(),
    { unimplemented!() }
    #[verifier::external_body]
    pub fn bits_remaining(&self) -> (r: isize)
        requires self.wf(),
        ensures r == self.remaining(), 0 <= self.extra() <= 8 * self.src_len() + 64 - self.remaining(), self.src_len() <= 0x1_0000_0000,
    { unimplemented!() }
    #[verifier::external_body]
    pub fn get_bits(&mut self, n: u8) -> (r: u64)
        requires old(self).wf(), n <= 56, old(self).extra() + 64 <= EXTRA_LIMIT,
        ensures final(self).wf(), final(self).remaining() == old(self).remaining() - n, r <= low_mask(n),
                old(self).extra() <= final(self).extra() <= old(self).extra() + 64, final(self).src_len() == old(self).src_len(),
    { unimplemented!() }
    #[verifier::external_body]
    pub fn get_bits_triple(&mut self, n1: u8, n2: u8, n3: u8) -> (r: (u64, u64, u64))
        requires old(self).wf(), n1 <= 56, n2 <= 56, n3 <= 56, old(self).extra() + 192 <= EXTRA_LIMIT,
        ensures final(self).wf(), final(self).remaining() == old(self).remaining() - (n1 + n2 + n3),
                r.0 <= low_mask(n1), r.1 <= low_mask(n2), r.2 <= low_mask(n3),
                old(self).extra() <= final(self).extra() <= old(self).extra() + 192, final(self).src_len() == old(self).src_len(),
    { unimplemented!() }
}
