        // contract of FrameDecoder::decode_blocks: PROVED in unit FD1V (on the verbatim body), ASSUMED in unit FD3V
        requires
            old(source).avail() >= 0,
            !R::incremental(),      // the streaming entry point: a truncated source is an error (C10), not "need more"
            old(self).state matches Some(st) ==> st.bytes_read_counter + old(source).avail() <= u64::MAX && st.block_counter + old(source).avail() <= usize::MAX
                && st.decoder_scratch.buffer.spec_len() >= 0
                && !st.frame_finished,        // callers ask is_finished() first (SD1, FD3); a finished frame has no next block
        ensures
            old(self).state is None ==> r is Err && final(source).avail() == old(source).avail(),
            final(self).state is Some <==> old(self).state is Some,
            r matches Ok(fin) ==> ({
                let s0 = old(self).state->0;
                let s1 = final(self).state->0;
                let blocks = s1.block_counter - s0.block_counter;
                let grown = s1.decoder_scratch.buffer.spec_len() - s0.decoder_scratch.buffer.spec_len();
                &&& fin == s1.frame_finished
                &&& final(source).avail() >= 0
                // exact accounting of source bytes
                &&& s1.bytes_read_counter - s0.bytes_read_counter == old(source).avail() - final(source).avail()
                // strictly one block after the other, at least one per call
                &&& blocks >= 1 && grown >= 0
                &&& old(source).avail() - final(source).avail() >= 3 * blocks      // every block costs at least its 3-byte header
                // the strategy only decides when to return
                &&& (strat matches BlockDecodingStrategy::UptoBlocks(n) ==> blocks <= max1(n as int) && (!fin ==> blocks >= n))
                &&& (strat matches BlockDecodingStrategy::UptoBytes(n) ==> grown < n + MAX_BLOCK_SIZE + (if n == 0 { 1int } else { 0int }) && (!fin ==> grown >= n))
                &&& (strat is All ==> fin)
                // checksum stored iff the frame says there is one (and only when the last block was just decoded)
                &&& (fin && s1.frame_header.descriptor.spec_checksum_flag() ==> s1.check_sum is Some)
                &&& (!fin ==> s1.check_sum == s0.check_sum)
                &&& s1.using_dict == s0.using_dict
            }),
