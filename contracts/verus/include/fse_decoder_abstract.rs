// ---- abstract FSE table + decoder: exactly the contracts Verus unit Q2 proves on the verbatim FSEDecoder bodies, and (for
// ---- build_decoder) what unit F2 proves (with F3 for read_probabilities) ----
#[derive(Copy, Clone)]
pub struct Entry { pub base_line: u32, pub num_bits: u8, pub symbol: u8 }
pub struct FSETable {
    pub max_symbol: u8,
    pub decode: Vec<Entry>,
    pub accuracy_log: u8,
}
pub enum FSETableError { Any }
pub enum FSEDecoderError { TableIsUninitialized }
impl FSETable {
    pub open spec fn table_wf(&self) -> bool {
        self.accuracy_log != 0 ==> (
            self.accuracy_log <= 9
            && self.decode@.len() == (1u64 << self.accuracy_log)
            && forall|i: int| 0 <= i < self.decode@.len() ==> {
                let e = #[trigger] self.decode@[i];
                e.num_bits <= self.accuracy_log && e.base_line as int + low_mask(e.num_bits) < self.decode@.len() && e.symbol <= self.max_symbol
            })
    }
    #[verifier::external_body]
    pub fn build_decoder(&mut self, source: &[u8], max_log: u8) -> (r: Result<usize, FSETableError>)
//@include contract_fse_build_decoder.rs
    { unimplemented!() }
}
pub struct FSEDecoder<'table> {
    pub state: Entry,
    pub table: &'table FSETable,
}
impl<'t> FSEDecoder<'t> {
    pub open spec fn state_ok(&self) -> bool {
        self.table.table_wf() && self.table.accuracy_log != 0
        && self.state.num_bits <= self.table.accuracy_log
        && self.state.base_line as int + low_mask(self.state.num_bits) < self.table.decode@.len()
        && self.state.symbol <= self.table.max_symbol
    }
    #[verifier::external_body]
    pub fn new(table: &'t FSETable) -> (r: FSEDecoder<'t>)
        ensures r.table == table,
    { unimplemented!() }
    #[verifier::external_body]
    pub fn decode_symbol(&self) -> (r: u8)
        ensures r == self.state.symbol,
    { unimplemented!() }
    #[verifier::external_body]
    pub fn init_state(&mut self, bits: &mut BitReaderReversed<'_>) -> (r: Result<(), FSEDecoderError>)
        requires old(self).table.table_wf(), old(bits).wf(), old(bits).extra() + 64 <= EXTRA_LIMIT,
        ensures
            final(self).table == old(self).table, final(bits).wf(), final(bits).src_len() == old(bits).src_len(),
            r is Err <==> old(self).table.accuracy_log == 0,
            r is Ok ==> final(self).state_ok() && final(bits).remaining() == old(bits).remaining() - old(self).table.accuracy_log,
            old(bits).extra() <= final(bits).extra() <= old(bits).extra() + 64,
    { unimplemented!() }
    #[verifier::external_body]
    pub fn update_state(&mut self, bits: &mut BitReaderReversed<'_>)
        requires old(self).state_ok(), old(bits).wf(), old(bits).extra() + 64 <= EXTRA_LIMIT,
        ensures
            final(self).table == old(self).table, final(self).state_ok(), final(bits).wf(), final(bits).src_len() == old(bits).src_len(),
            final(bits).remaining() == old(bits).remaining() - old(self).state.num_bits,
            old(bits).extra() <= final(bits).extra() <= old(bits).extra() + 64,
    { unimplemented!() }
}
