        // contract of FSETable::read_probabilities: PROVED in unit F3 (on the verbatim body), ASSUMED in unit F2
        requires source@.len() <= 0x1_0000_0000, max_log <= 30,
        ensures
            final(self).max_symbol == old(self).max_symbol, final(self).decode == old(self).decode,
            r matches Ok(n) ==> n <= source@.len()
                && ACC_LOG_OFFSET <= final(self).accuracy_log <= max_log
                && sum_cells(final(self).symbol_probabilities@) == (1u32 << final(self).accuracy_log)
                && final(self).symbol_probabilities@.len() <= final(self).max_symbol + 1
                && forall|i: int| 0 <= i < final(self).symbol_probabilities@.len() ==> #[trigger] final(self).symbol_probabilities@[i] >= -1,
