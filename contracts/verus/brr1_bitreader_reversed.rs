//@unit BRR1 : BitReaderReversed: from any well-formed reader state, every read is free of overflow, out-of-range shifts and slice panics, keeps the state well-formed and advances the abstract position by exactly the bits requested
//@props C03,C01,C12
//@tier quick
//@profile rel
//@assume sources are shorter than 2^32 bytes (a block is at most 128 KiB); index * 8 in bits_remaining() would overflow isize only beyond 2^60 bytes
//@assume the bit VALUES returned (which bits of the source) are not part of this unit: they are Kani obligations BRRK.* at fixed source lengths
use vstd::prelude::*;
verus! {

global size_of usize == 8;

//@struct-check file=ruzstd/src/bit_io/bit_reader_reverse.rs name=BitReaderReversed fields="index: usize | bits_consumed: u8 | extra_bits: usize | source: &'s [u8] | bit_container: u64"
pub struct BitReaderReversed<'s> {
    pub index: usize,
    pub bits_consumed: u8,
    pub extra_bits: usize,
    pub source: &'s [u8],
    pub bit_container: u64,
}

/// little-endian load of 8 bytes (the real code: u64::from_le_bytes((&src[i..][..8]).try_into().unwrap()))
#[verifier::external_body]
pub fn le64_at(src: &[u8], at: usize) -> (r: u64)
    requires at + 8 <= src@.len(),
{
    let mut a = [0u8; 8];
    a.copy_from_slice(&src[at..at + 8]);
    u64::from_le_bytes(a)
}
/// little-endian load of the first min(8, len) bytes, zero padded
#[verifier::external_body]
pub fn le64_prefix(src: &[u8]) -> (r: u64) {
    let mut a = [0u8; 8];
    let n = if src.len() < 8 { src.len() } else { 8 };
    a[..n].copy_from_slice(&src[..n]);
    u64::from_le_bytes(a)
}

pub const EXTRA_LIMIT: usize = 0x4000_0000_0000_0000;

/// 2^n - 1 for n < 64 (0 for n == 0)
pub open spec fn low_mask(n: u8) -> u64 {
    ((1u64 << n) - 1) as u64
}

impl<'s> BitReaderReversed<'s> {
    /// data invariant: consumed bits within the container; the window [index, index+8) lies inside the source unless the reader is
    /// fresh (nothing loaded yet) or at the front (index == 0)
    pub open spec fn wf(&self) -> bool {
        self.bits_consumed <= 64
        && self.index <= self.source@.len()
        && self.source@.len() <= 0x1_0000_0000
        && (self.index + 8 <= self.source@.len() || self.index == 0 || (self.index == self.source@.len() && self.bits_consumed == 64))
        && self.extra_bits <= EXTRA_LIMIT
    }
    /// abstract position: how many bits have been handed out so far = 8 * len - bits_remaining()
    pub open spec fn remaining(&self) -> int {
        self.index as int * 8 + (64 - self.bits_consumed as int) - self.extra_bits as int
    }

//@extract file=ruzstd/src/bit_io/bit_reader_reverse.rs impl="^impl<'s> BitReaderReversed" fn=bits_remaining
//@spec
        requires self.wf(),
        ensures r == self.remaining(), 0 <= self.extra_bits <= 8 * self.source@.len() + 64 - self.remaining(), self.source@.len() <= 0x1_0000_0000,
//@end

//@extract file=ruzstd/src/bit_io/bit_reader_reverse.rs impl="^impl<'s> BitReaderReversed" fn=new
//@spec
        requires source@.len() <= 0x1_0000_0000,
        ensures r.wf(), r.remaining() == 8 * source@.len(), r.source@ == source@, r.extra_bits == 0,
//@end

//@extract file=ruzstd/src/bit_io/bit_reader_reverse.rs impl="^impl<'s> BitReaderReversed" fn=refill ret= rewrite="u64::from_le_bytes((&self.source[self.index..][..8]).try_into().unwrap())=>le64_at(self.source, self.index)||u64::from_le_bytes((&self.source[..8]).try_into().unwrap())=>le64_prefix(self.source)||let mut value = [0; 8];=>||value[..self.source.len()].copy_from_slice(self.source);=>||u64::from_le_bytes(value)=>le64_prefix(self.source)"
//@spec
        requires old(self).wf(), old(self).extra_bits + 64 <= EXTRA_LIMIT,
        ensures
            final(self).wf(), final(self).source@ == old(self).source@,
            final(self).remaining() == old(self).remaining(),       // refilling does not move the position
            final(self).bits_consumed < 8,                          // at least 56 bits are available afterwards
            final(self).extra_bits <= old(self).extra_bits + 64,
            final(self).extra_bits >= old(self).extra_bits,
//@ghost at=start
        proof {
            let b = self.bits_consumed;
            assert(b & 7 == b % 8) by (bit_vector);
        }
//@end

//@extract file=ruzstd/src/bit_io/bit_reader_reverse.rs impl="^impl<'s> BitReaderReversed" fn=peek_bits
//@spec
        requires old(self).wf(), n <= 56, old(self).bits_consumed + n <= 64,
        ensures *final(self) == *old(self), r <= low_mask(n),
//@ghost at=start
        proof {
            assert(n < 64 ==> (1u64 << n) >= 1) by (bit_vector);
            assert(forall|c: u64, m: u64| #[trigger] (c & m) <= m) by (bit_vector);
        }
//@end

//@extract file=ruzstd/src/bit_io/bit_reader_reverse.rs impl="^impl<'s> BitReaderReversed" fn=peek_bits_triple
//@spec
        requires old(self).wf(), sum == n1 + n2 + n3, sum <= 56, old(self).bits_consumed + sum <= 64,
        ensures *final(self) == *old(self), r.0 <= low_mask(n1), r.1 <= low_mask(n2), r.2 <= low_mask(n3),
//@ghost at=start
        proof {
            assert(forall|c: u64, m: u64| #[trigger] (c & m) <= m) by (bit_vector);
            assert(n1 < 64 ==> (1u64 << n1) >= 1) by (bit_vector);
            assert(n2 < 64 ==> (1u64 << n2) >= 1) by (bit_vector);
            assert(n3 < 64 ==> (1u64 << n3) >= 1) by (bit_vector);
        }
//@end

//@extract file=ruzstd/src/bit_io/bit_reader_reverse.rs impl="^impl<'s> BitReaderReversed" fn=consume ret=
//@spec
        requires old(self).wf(), old(self).bits_consumed + n <= 64,
        ensures final(self).wf(), final(self).source@ == old(self).source@, final(self).remaining() == old(self).remaining() - n,
                final(self).extra_bits == old(self).extra_bits, final(self).bits_consumed == old(self).bits_consumed + n,
//@end

//@extract file=ruzstd/src/bit_io/bit_reader_reverse.rs impl="^impl<'s> BitReaderReversed" fn=get_bits
//@spec
        requires old(self).wf(), n <= 56, old(self).extra_bits + 64 <= EXTRA_LIMIT,
        ensures
            final(self).wf(), final(self).source@ == old(self).source@,
            final(self).remaining() == old(self).remaining() - n,
            final(self).extra_bits <= old(self).extra_bits + 64, final(self).extra_bits >= old(self).extra_bits,
            r <= low_mask(n),
//@end

//@extract file=ruzstd/src/bit_io/bit_reader_reverse.rs impl="^impl<'s> BitReaderReversed" fn=get_bits_triple
//@spec
        requires old(self).wf(), n1 <= 56, n2 <= 56, n3 <= 56, old(self).extra_bits + 192 <= EXTRA_LIMIT,
        ensures
            final(self).wf(), final(self).source@ == old(self).source@,
            final(self).remaining() == old(self).remaining() - (n1 + n2 + n3),
            final(self).extra_bits <= old(self).extra_bits + 192, final(self).extra_bits >= old(self).extra_bits,
            r.0 <= low_mask(n1), r.1 <= low_mask(n2), r.2 <= low_mask(n3),
//@end
}

} // verus!
fn main() {}
