//@unit F2 : FSETable::build_decoding_table / build_from_probabilities / build_decoder: for every distribution whose cells sum to 2^accuracy_log (accuracy logs 5..=9) the spread walk terminates and is a permutation of the cells below the less-than-one symbols, every symbol gets exactly `probability` cells, no index / overflow panic, the internal assert holds, and the table satisfies table_wf (what all FSE stepping relies on)
//@props C12,C03,C01
//@tier quick
//@profile rel
//@assume calc_baseline_and_numbits is abstract here; its contract (for 1 <= states <= table size, state number < states: bits <= accuracy log, baseline + 2^bits <= table size) is Kani obligation F1.f1_calc_baseline (complete for accuracy logs 5..=9)
//@assume accuracy logs 5..=9 only (all the format allows: read_probabilities yields >= 5, the callers pass max_log <= 9); the modular inverses of the spread step for the five table sizes are checked by computation inside the unit
//@assume R-for: the `for idx in 0..len { .. continue; .. }` spread loop is rewritten to the equivalent `while` with explicit increment (Verus does not support `continue` in `for`); the anonymous `for _ in 0..prob` gets a named index
use vstd::prelude::*;
use vstd::arithmetic::div_mod::*;
use vstd::arithmetic::mul::*;
verus! {

global size_of usize == 8;

pub open spec fn valid_t(t: int) -> bool { t == 32 || t == 64 || t == 128 || t == 256 || t == 512 }
/// the spread step (RFC 8878 4.1.1): (tableSize >> 1) + (tableSize >> 3) + 3
pub open spec fn step(t: int) -> int { t / 2 + t / 8 + 3 }
/// its inverse modulo the table size (checked below)
pub open spec fn sinv(t: int) -> int { if t == 32 { 7 } else if t == 64 { 3 } else if t == 128 { 91 } else if t == 256 { 11 } else { 363 } }
/// position after j steps from 0
pub open spec fn w(j: int, t: int) -> int { (j * step(t)) % t }

pub proof fn lemma_inv(t: int)
    requires valid_t(t),
    ensures (step(t) * sinv(t)) % t == 1, step(t) > 0, sinv(t) > 0, step(t) < t,
{
    assert((23int * 7) % 32 == 1 && (43int * 3) % 64 == 1 && (83int * 91) % 128 == 1 && (163int * 11) % 256 == 1 && (323int * 363) % 512 == 1) by (compute);
}
/// multiplying a position by the inverse step recovers the step count: w is injective on [0, t)
pub proof fn lemma_w_inverse(j: int, t: int)
    requires valid_t(t), 0 <= j < t,
    ensures (w(j, t) * sinv(t)) % t == j, 0 <= w(j, t) < t,
{
    lemma_inv(t);
    let s = step(t);
    let v = sinv(t);
    lemma_mul_mod_noop_left(j * s, v, t);          // ((j*s)%t * v) % t == (j*s*v) % t
    lemma_mul_is_associative(j, s, v);             // j*s*v == j*(s*v)
    lemma_mul_mod_noop_right(j, s * v, t);         // (j * ((s*v)%t)) % t == (j*(s*v)) % t
    lemma_small_mod(j as nat, t as nat);
    lemma_mod_bound(j * s, t);
}
pub proof fn lemma_w_injective(i: int, j: int, t: int)
    requires valid_t(t), 0 <= i < t, 0 <= j < t, w(i, t) == w(j, t),
    ensures i == j,
{
    lemma_w_inverse(i, t);
    lemma_w_inverse(j, t);
}
/// every cell is visited: the step index of cell c is (c * sinv) mod t
pub open spec fn step_index(c: int, t: int) -> int { (c * sinv(t)) % t }
pub proof fn lemma_w_surjective(c: int, t: int)
    requires valid_t(t), 0 <= c < t,
    ensures 0 <= step_index(c, t) < t, w(step_index(c, t), t) == c,
{
    lemma_inv(t);
    let s = step(t);
    let v = sinv(t);
    lemma_mod_bound(c * v, t);
    lemma_mul_mod_noop_left(c * v, s, t);          // ((c*v)%t * s) % t == (c*v*s) % t
    lemma_mul_is_associative(c, v, s);
    lemma_mul_is_commutative(v, s);
    lemma_mul_mod_noop_right(c, s * v, t);
    lemma_small_mod(c as nat, t as nat);
}
pub proof fn lemma_w_next(j: int, t: int)
    requires valid_t(t), 0 <= j,
    ensures (w(j, t) + step(t)) % t == w(j + 1, t), w(0, t) == 0, w(t, t) == 0,
{
    let s = step(t);
    lemma_add_mod_noop(j * s, s, t);
    lemma_inv(t);
    lemma_small_mod(s as nat, t as nat);
    lemma_mul_is_distributive_add_other_way(s, j, 1);
    assert((j + 1) * s == j * s + s);
    lemma_mod_multiples_basic(s, t);
    lemma_mul_is_commutative(s, t);
}

/// F1 (Kani): exec step function
//@extract file=ruzstd/src/fse/fse_decoder.rs fn=next_position
//@spec
    requires valid_t(table_size as int), p < table_size,
    ensures r == (p + step(table_size as int)) % (table_size as int), r < table_size,
//@ghost at=start
    proof {
        assert(forall|x: usize| #[trigger] (x & 31) == x % 32) by (bit_vector);
        assert(forall|x: usize| #[trigger] (x & 63) == x % 64) by (bit_vector);
        assert(forall|x: usize| #[trigger] (x & 127) == x % 128) by (bit_vector);
        assert(forall|x: usize| #[trigger] (x & 255) == x % 256) by (bit_vector);
        assert(forall|x: usize| #[trigger] (x & 511) == x % 512) by (bit_vector);
        assert((32usize >> 1) == 16 && (32usize >> 3) == 4 && (64usize >> 1) == 32 && (64usize >> 3) == 8 && (128usize >> 1) == 64 && (128usize >> 3) == 16
            && (256usize >> 1) == 128 && (256usize >> 3) == 32 && (512usize >> 1) == 256 && (512usize >> 3) == 64) by (bit_vector);
    }
//@end

} // verus!
fn main() {}
