//@unit HU2V : HuffmanTable::read_weights / build_decoder for EVERY source: no index / slice / overflow panic on either description form (direct nibbles, FSE-compressed), termination, bytes used <= source length, at most 257 weights, direct weights are the nibbles high-first
//@props C13,C03,C01
//@tier quick
//@profile rel
//@assume BitReaderReversed (unit BRR1) and FSEDecoder / FSETable::build_decoder (units Q2, F2 with F3) are abstract here with the contracts those units prove (shared text: include/contract_fse_build_decoder.rs)
//@assume build_table_from_weights is abstract here with the contract Verus unit HU1V proves on its verbatim body
use vstd::prelude::*;
verus! {

global size_of usize == 8;

#[verifier::external_body]
pub fn vpanic() -> !
    requires false,
{ panic!() }

//@include brr_abstract.rs
//@include fse_decoder_abstract.rs

pub enum HuffmanTableError {
    FSEDecoderError(FSEDecoderError),
    FSETableError(FSETableError),
    SourceIsEmpty,
    NotEnoughBytesForWeights { got_bytes: usize, expected_bytes: u8 },
    ExtraPadding { skipped_bits: i32 },
    TooManyWeights { got: usize },
    NotEnoughBytesToDecompressWeights { have: usize, need: usize },
    FSETableUsedTooManyBytes { used: usize, available_bytes: u8 },
    NotEnoughBytesInSource { got: usize, need: usize },
    Table,
}
impl vstd::std_specs::convert::FromSpecImpl<FSEDecoderError> for HuffmanTableError {
    open spec fn obeys_from_spec() -> bool { true }
    open spec fn from_spec(v: FSEDecoderError) -> Self { HuffmanTableError::FSEDecoderError(v) }
}
impl From<FSEDecoderError> for HuffmanTableError {
    fn from(val: FSEDecoderError) -> Self { Self::FSEDecoderError(val) }
}
impl vstd::std_specs::convert::FromSpecImpl<FSETableError> for HuffmanTableError {
    open spec fn obeys_from_spec() -> bool { true }
    open spec fn from_spec(v: FSETableError) -> Self { HuffmanTableError::FSETableError(v) }
}
impl From<FSETableError> for HuffmanTableError {
    fn from(val: FSETableError) -> Self { Self::FSETableError(val) }
}

#[derive(Copy, Clone)]
pub struct HEntry { pub symbol: u8, pub num_bits: u8 }

//@struct-check file=ruzstd/src/huff0/huff0_decoder.rs name=HuffmanTable fields="decode: Vec<Entry> | weights: Vec<u8> | pub max_num_bits: u8 | fse_table: FSETable"
pub struct HuffmanTable {
    pub decode: Vec<HEntry>,
    pub weights: Vec<u8>,
    pub max_num_bits: u8,
    pub fse_table: FSETable,
}

impl HuffmanTable {
    pub uninterp spec fn huff_wf(&self) -> bool;

    /// HU1V
    #[verifier::external_body]
    pub fn build_table_from_weights(&mut self) -> (r: Result<(), HuffmanTableError>)
        requires old(self).weights@.len() <= 1000,
        ensures
            final(self).weights == old(self).weights, final(self).fse_table == old(self).fse_table,
            r is Ok ==> final(self).huff_wf() && final(self).max_num_bits >= 1,
    { unimplemented!() }

//@extract file=ruzstd/src/huff0/huff0_decoder.rs impl="^impl HuffmanTable" fn=read_weights
//@spec
        requires source@.len() <= 0x1_0000_0000, old(self).fse_table.max_symbol == 255,
        ensures
            final(self).fse_table.max_symbol == 255, final(self).decode == old(self).decode, final(self).max_num_bits == old(self).max_num_bits,
            r matches Ok(n) ==> n <= source@.len() && n >= 1 && final(self).weights@.len() <= 257,
            // direct description: header >= 128 announces header - 127 weights, two per byte, high nibble first
            r is Ok && source@[0] >= 128 ==> ({
                let nw = source@[0] - 127;
                final(self).weights@.len() == nw && r->Ok_0 == 1 + (nw + 1) / 2
                && forall|i: int| 0 <= i < nw ==> #[trigger] final(self).weights@[i]
                    == (if i % 2 == 0 { source@[1 + i / 2] >> 4 } else { source@[1 + i / 2] & 0xF })
            }),
//@loop 1
                    invariant_except_break skipped_bits <= 8,
                    invariant br.wf(), 0 <= skipped_bits <= 9, br.extra() <= 64 * skipped_bits, br.src_len() <= 127,
                    decreases 9 - skipped_bits,
//@loop 2
                    invariant_except_break self.weights@.len() <= 254, self.weights@.len() % 2 == 0,
                    invariant
                        br.wf(), br.src_len() <= 127, br.extra() <= 64 * 12 + 128 * self.weights@.len(),
                        dec1.state_ok(), dec2.state_ok(), dec1.table == &self.fse_table, dec2.table == &self.fse_table,
                        self.weights@.len() <= 257,
                        self.fse_table.max_symbol == 255, self.decode == old(self).decode, self.max_num_bits == old(self).max_num_bits,
                        bits_read <= 8 + 127 * 8,
                    decreases 300 - self.weights@.len(),
//@loop 3
                    invariant
                        self.weights@.len() == num_weights, 1 <= num_weights <= 128, weights_raw@ == source@.subrange(1, source@.len() as int),
                        weights_raw@.len() >= bytes_needed, bytes_needed == (num_weights as int + 1) / 2, source@.len() >= 1 + bytes_needed,
                        bits_read == 8 + 4 * idx,
                        self.fse_table.max_symbol == 255, self.decode == old(self).decode, self.max_num_bits == old(self).max_num_bits,
                        forall|i: int| 0 <= i < idx ==> #[trigger] self.weights@[i]
                            == (if i % 2 == 0 { source@[1 + i / 2] >> 4 } else { source@[1 + i / 2] & 0xF }),
//@end

//@extract file=ruzstd/src/huff0/huff0_decoder.rs impl="^impl HuffmanTable" fn=build_decoder
//@spec
        requires source@.len() <= 0x1_0000_0000, old(self).fse_table.max_symbol == 255,
        ensures
            final(self).fse_table.max_symbol == 255,
            // exactly what unit L1 assumes of build_decoder
            r matches Ok(n) ==> n <= source@.len() && final(self).huff_wf() && final(self).max_num_bits != 0,
//@end
}

} // verus!
fn main() {}
