//@unit F8E : fse_encoder::FSEEncoder::encode_interleaved (used for the FSE-compressed Huffman weight description) on its verbatim body: for every data of at least 4 symbols that the table can encode, no index panic (the two-at-a-time walk ends at index 0 or 1 and then handles the odd symbol), `state.index - next.baseline` never underflows, every value handed to the bit writer fits its width, termination
//@props C12,C13,C16
//@tier quick
//@profile rel
//@assume FSETable::next_state / start_state are abstract with the contract their lookup (`SymbolStates::get`: iterator `find`, outside Verus) must satisfy for a symbol the table was built for: the returned state CONTAINS the current index (baseline <= idx <= last_index = baseline + 2^num_bits - 1), num_bits <= accuracy log <= 9, its own index is inside the table. That every symbol's states tile the table (so that such a state exists) is the encoder-side F5 statement, NOT proved
//@assume write_table is abstract (unit F7 proves the real one total); BitWriter abstract with the contracts of Kani unit BW1; usize::ilog2 assume_specification
//@assume R-sig: type parameters of FSEEncoder<'_, V> / BitWriter<V> dropped (abstract writer)
use vstd::prelude::*;
use vstd::arithmetic::power2::*;
verus! {

global size_of usize == 8;

pub open spec fn fits(v: u64, n: usize) -> bool { n >= 64 || v < (1u64 << (n as u64)) }
pub uninterp spec fn into_u64<T>(v: T) -> u64;
pub broadcast axiom fn into_u64_u32(v: u32) ensures #[trigger] into_u64::<u32>(v) == v as u64;
pub broadcast axiom fn into_u64_u64(v: u64) ensures #[trigger] into_u64::<u64>(v) == v;

#[verifier::external_body]
pub struct BitWriter { _o: u8 }
impl BitWriter {
    pub uninterp spec fn idx(&self) -> int;
    #[verifier::external_body]
    pub fn write_bits<T: Into<u64> + Copy>(&mut self, bits: T, num_bits: usize)
        requires num_bits <= 63, fits(into_u64(bits), num_bits),
        ensures final(self).idx() == old(self).idx() + num_bits,
    { unimplemented!() }
    #[verifier::external_body]
    pub fn misaligned(&self) -> (r: usize)
        ensures r < 8, (self.idx() + r) % 8 == 0,
    { unimplemented!() }
}

//@struct-check file=ruzstd/src/fse/fse_encoder.rs name=State fields="pub(crate) num_bits: u8 | pub(crate) baseline: usize | pub(crate) last_index: usize | pub(crate) index: usize"
pub struct State { pub num_bits: u8, pub baseline: usize, pub last_index: usize, pub index: usize }

#[verifier::external_body]
pub struct FSETable { _o: u8 }
impl FSETable {
    /// ghost: accuracy log of the table, and the symbols it was built for (probability != 0)
    pub uninterp spec fn al(&self) -> int;
    pub uninterp spec fn has(&self, symbol: u8) -> bool;
    pub open spec fn wf(&self) -> bool { 5 <= self.al() <= 9 }
    #[verifier::external_body]
    pub fn next_state(&self, symbol: u8, idx: usize) -> (r: &State)
        requires self.wf(), self.has(symbol), idx < pow2(self.al() as nat),
        ensures r.baseline <= idx <= r.last_index, r.num_bits <= self.al(), idx - r.baseline < pow2(r.num_bits as nat), r.index < pow2(self.al() as nat),
    { unimplemented!() }
    #[verifier::external_body]
    pub fn start_state(&self, symbol: u8) -> (r: &State)
        requires self.wf(), self.has(symbol),
        ensures r.index < pow2(self.al() as nat),
    { unimplemented!() }
    #[verifier::external_body]
    pub fn acc_log(&self) -> (r: u8)
        requires self.wf(),
        ensures r == self.al(),
    { unimplemented!() }
}

//@struct-check file=ruzstd/src/fse/fse_encoder.rs name=FSEEncoder fields="pub(super) table: FSETable | writer: &'output mut BitWriter<V>"
pub struct FSEEncoder<'output> {
    pub table: FSETable,
    pub writer: &'output mut BitWriter,
}

pub proof fn lemma_fits_all()
    ensures forall|v: usize, n: u8| n <= 9 && v < pow2(n as nat) ==> #[trigger] fits(v as u64, n as usize),
{
    assert forall|v: usize, n: u8| n <= 9 && v < pow2(n as nat) implies #[trigger] fits(v as u64, n as usize) by { lemma_fits(v, n); }
}
pub proof fn lemma_fits(v: usize, n: u8)
    requires n <= 9, v < pow2(n as nat),
    ensures fits(v as u64, n as usize),
{
    lemma2_to64();
    assert((1u64 << 0u64) == 1 && (1u64 << 1u64) == 2 && (1u64 << 2u64) == 4 && (1u64 << 3u64) == 8 && (1u64 << 4u64) == 16 && (1u64 << 5u64) == 32
        && (1u64 << 6u64) == 64 && (1u64 << 7u64) == 128 && (1u64 << 8u64) == 256 && (1u64 << 9u64) == 512) by (bit_vector);
}

impl<'output> FSEEncoder<'output> {
    #[verifier::external_body]
    pub fn write_table(&mut self)
        ensures final(self).table == old(self).table,
    { unimplemented!() }
    #[verifier::external_body]
    pub fn acc_log(&self) -> (r: u8)
        requires self.table.wf(),
        ensures r == self.table.al(),
    { unimplemented!() }

#[verifier::loop_isolation(false)]
//@extract file=ruzstd/src/fse/fse_encoder.rs impl="^impl<V: AsMut<Vec<u8>>> FSEEncoder" fn=encode_interleaved ret=
//@spec
        requires
            old(self).table.wf(),
            data@.len() >= 4,        // call site: more than 16 Huffman weights
            forall|i: int| 0 <= i < data@.len() ==> old(self).table.has(#[trigger] data@[i]),
        ensures
            final(self).writer.idx() % 8 == 0,
//@ghost at=start
        proof { broadcast use into_u64_u32, into_u64_u64; lemma2_to64(); lemma_fits_all(); assert((1u64 << 8u64) == 256 && (1u64 << 1u64) == 2) by (bit_vector); }
//@loop 1
            invariant
                idx + 3 < data@.len(),
                self.table == old(self).table,
                state_1.index < pow2(self.table.al() as nat), state_2.index < pow2(self.table.al() as nat),
            decreases idx,
//@end
}

} // verus!
fn main() {}
