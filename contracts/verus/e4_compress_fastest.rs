//@unit E4V : compress_fastest on its verbatim body, for every block size up to 128 KiB and every content: exactly one block is appended - RLE (header + the byte) iff all bytes are equal, otherwise the compressed form iff it is strictly smaller than the data (and within the block limit), otherwise the data stored raw, byte for byte; the header's size field is the payload length (RLE: the run length), the last-block flag is passed through, a block never costs more than 3 + its data; the space is committed to the matcher exactly once; and the encoder never keeps a Huffman table the decoder did not receive: on the raw fallback the table produced by the discarded compressed form is forgotten (defect F5)
//@props C15,C16,C02
//@tier quick
//@profile rel
//@assume compress_block is abstract: it appends a payload `c` with `is_payload(c, data, table_before, table_after)` (uninterpreted: c regenerates the committed space when the decoder holds table_before, and leaves it holding table_after) and keeps the committed space; its own obligations are units E8 / ES1 / HU5 / F7 (parts) - the whole of compress_block is NOT under contract
//@assume the Matcher is an abstract trait (commit_space / skip_matching / get_last_space with the obvious ghost `last_space`); BlockHeader::serialize appends the 3-byte image of the header (Kani H1' proves it parses back)
//@assume `output.extend(compressed)` is rewritten to the abstract vec_extend(output, compressed) (std: appends the elements in order)
//@assume `uncompressed_data.iter().all(|x| uncompressed_data[0].eq(x))` is rewritten to the abstract all_equal_to_first(&uncompressed_data) (Verus' Iterator::all carries no semantics for an un-annotated closure); crate::blocks::block::BlockType / crate paths shortened
use vstd::prelude::*;
verus! {

global size_of usize == 8;

//@const-check file=ruzstd/src/common/mod.rs text="pub const MAX_BLOCK_SIZE: u32 = 128 * 1024;"
pub const MAX_BLOCK_SIZE: u32 = 128 * 1024;

pub trait Matcher {
    spec fn last_space(&self) -> Seq<u8>;
    spec fn commits(&self) -> int;
    fn commit_space(&mut self, space: Vec<u8>)
        ensures final(self).last_space() =~= space@, final(self).commits() == old(self).commits() + 1;
    fn skip_matching(&mut self)
        ensures final(self).last_space() == old(self).last_space(), final(self).commits() == old(self).commits();
    fn get_last_space(&mut self) -> (r: &[u8])
        ensures r@ =~= old(self).last_space(), final(self).last_space() == old(self).last_space(), final(self).commits() == old(self).commits();
}

#[verifier::external_body]
pub struct HuffmanTable { _o: u8 }
#[verifier::external_body]
pub struct FseTables { _o: u8 }
//@struct-check file=ruzstd/src/encoding/frame_compressor.rs name=CompressState fields="pub(crate) matcher: M | pub(crate) last_huff_table: Option<crate::huff0::huff0_encoder::HuffmanTable> | pub(crate) fse_tables: FseTables"
pub struct CompressState<M: Matcher> {
    pub matcher: M,
    pub last_huff_table: Option<HuffmanTable>,
    pub fse_tables: FseTables,
}

#[derive(Clone, Copy, PartialEq, Eq)]
pub enum BlockType { Raw, RLE, Compressed, Reserved }
//@struct-check file=ruzstd/src/encoding/block_header.rs name=BlockHeader fields="pub last_block: bool | pub block_type: BlockType | pub block_size: u32"
pub struct BlockHeader { pub last_block: bool, pub block_type: BlockType, pub block_size: u32 }
/// the 3 bytes of a block header (RFC 8878 3.1.1.2); Kani H1' proves serialize against the decoder's parser
pub uninterp spec fn header_bytes(h: BlockHeader) -> Seq<u8>;
impl BlockHeader {
    #[verifier::external_body]
    pub fn serialize(self, output: &mut Vec<u8>)
        requires !(self.block_type is Reserved),
        ensures final(output)@ =~= old(output)@ + header_bytes(self), header_bytes(self).len() == 3,
    { unimplemented!() }
}

/// `c` is the payload of a compressed block that regenerates `data` for a decoder holding Huffman table `before`, and leaves it holding `after`
pub uninterp spec fn is_payload(c: Seq<u8>, data: Seq<u8>, before: Option<HuffmanTable>, after: Option<HuffmanTable>) -> bool;
#[verifier::external_body]
pub fn compress_block<M: Matcher>(state: &mut CompressState<M>, output: &mut Vec<u8>)
    ensures
        final(state).matcher.last_space() == old(state).matcher.last_space(), final(state).matcher.commits() == old(state).matcher.commits(),
        exists|c: Seq<u8>| #[trigger] is_payload(c, old(state).matcher.last_space(), old(state).last_huff_table, final(state).last_huff_table)
            && final(output)@ =~= old(output)@ + c,
{ unimplemented!() }

/// `v.iter().all(|x| v[0].eq(x))`
#[verifier::external_body]
pub fn all_equal_to_first(v: &Vec<u8>) -> (r: bool)
    ensures r <==> forall|i: int| 0 <= i < v@.len() ==> #[trigger] v@[i] == v@[0],
{ unimplemented!() }

/// `output.extend(compressed)`: std Vec::extend with a Vec appends its elements in order (generic IntoIterator: outside Verus' std specs)
#[verifier::external_body]
pub fn vec_extend(output: &mut Vec<u8>, more: Vec<u8>)
    ensures final(output)@ =~= old(output)@ + more@,
{ unimplemented!() }

/// the three shapes of a block, and what each says about the Huffman table the decoder holds afterwards
pub open spec fn is_rle_block(b: Seq<u8>, last: bool, data: Seq<u8>) -> bool {
    data.len() >= 1 && (forall|i: int| 0 <= i < data.len() ==> #[trigger] data[i] == data[0])
    && b =~= header_bytes(BlockHeader { last_block: last, block_type: BlockType::RLE, block_size: data.len() as u32 }) + seq![data[0]]
}
pub open spec fn is_raw_block(b: Seq<u8>, last: bool, data: Seq<u8>) -> bool {
    b =~= header_bytes(BlockHeader { last_block: last, block_type: BlockType::Raw, block_size: data.len() as u32 }) + data
}
pub open spec fn is_compressed_block(b: Seq<u8>, last: bool, data: Seq<u8>, before: Option<HuffmanTable>, after: Option<HuffmanTable>) -> bool {
    exists|c: Seq<u8>| #[trigger] is_payload(c, data, before, after) && c.len() < data.len() && c.len() <= MAX_BLOCK_SIZE
        && b =~= header_bytes(BlockHeader { last_block: last, block_type: BlockType::Compressed, block_size: c.len() as u32 }) + c
}

#[verifier::loop_isolation(false)]
//@extract file=ruzstd/src/encoding/levels/fastest.rs fn=compress_fastest ret= rewrite="uncompressed_data.iter().all(|x| uncompressed_data[0].eq(x))=>all_equal_to_first(&uncompressed_data)||crate::blocks::block::BlockType::=>BlockType::||output.extend(compressed);=>vec_extend(output, compressed);"
//@spec
    requires 1 <= uncompressed_data@.len() <= MAX_BLOCK_SIZE,
    ensures
        final(state).matcher.last_space() =~= uncompressed_data@, final(state).matcher.commits() == old(state).matcher.commits() + 1,
        ({
            let b = final(output)@.skip(old(output)@.len() as int);
            let data = uncompressed_data@;
            &&& final(output)@ =~= old(output)@ + b
            &&& b.len() <= 3 + data.len()
            // exactly one of the three shapes; the table the encoder keeps is one the decoder holds
            &&& (is_rle_block(b, last_block, data) && final(state).last_huff_table == old(state).last_huff_table)
                || (is_raw_block(b, last_block, data) && final(state).last_huff_table is None
                    && !(forall|i: int| 0 <= i < data.len() ==> #[trigger] data[i] == data[0]))
                || (is_compressed_block(b, last_block, data, old(state).last_huff_table, final(state).last_huff_table)
                    && !(forall|i: int| 0 <= i < data.len() ==> #[trigger] data[i] == data[0]))
        }),
//@end

} // verus!
fn main() {}
