//@unit E8 : compress_literals / raw_literals (encoder): a Huffman table is handed back to the caller only if its description was written; every value written into a literals-section header fits the bit width of the size format chosen for it (RFC 8878 3.1.1.3.1.1: 10 / 14 / 18 / 20 bits), the size format matches the width, and on the path that keeps the compressed literals the compressed size fits too
//@props C14,C02,C16,C15
//@tier quick
//@profile rel
//@assume BitWriter is abstract here: write_bits REQUIRES that the value fits the number of bits (its documented contract: "bits MUST only contain zeroes in the upper bits"); the bit-level effect of write_bits is not modelled in this unit
//@assume the Huffman table construction and stream encoding called from compress_literals are abstract (they only advance the writer); the three lines creating a HuffmanEncoder (a struct holding `&mut BitWriter`, outside Verus's subset) are rewritten to one call of an abstract `huff_encode`
use vstd::prelude::*;
verus! {

global size_of usize == 8;

#[verifier::external_body]
pub fn vpanic() -> !
    requires false,
{ panic!() }

pub open spec fn fits(v: u64, n: usize) -> bool { n >= 64 || v < (1u64 << (n as u64)) }

#[verifier::external_body]
pub struct BitWriter { _o: u8 }
impl BitWriter {
    pub uninterp spec fn idx(&self) -> int;
    /// ghost: how many Huffman table descriptions the bytes written so far (and not discarded) contain
    pub uninterp spec fn tables(&self) -> int;
    #[verifier::external_body]
    pub fn index(&self) -> (r: usize) ensures r == self.idx(), { unimplemented!() }
    /// documented contract of BitWriter::write_bits
    #[verifier::external_body]
    pub fn write_bits<T: Into<u64> + Copy>(&mut self, bits: T, num_bits: usize)
        requires num_bits <= 63, fits(into_u64(bits), num_bits),     // the domain Kani unit BW1 proves write_bits on
        ensures final(self).idx() == old(self).idx() + num_bits, final(self).tables() == old(self).tables(),
    { unimplemented!() }
    #[verifier::external_body]
    pub fn change_bits<T: Into<u64> + Copy>(&mut self, idx: usize, bits: T, num_bits: usize)
        requires idx + num_bits < old(self).idx(),
        ensures final(self).idx() == old(self).idx(), final(self).tables() == old(self).tables(),
    { unimplemented!() }
    #[verifier::external_body]
    pub fn reset_to(&mut self, index: usize)
        requires index % 8 == 0, index <= old(self).idx(),
        ensures final(self).idx() == index,     // (what was written after `index`, including a table description, is discarded)
    { unimplemented!() }
    #[verifier::external_body]
    pub fn append_bytes(&mut self, data: &[u8])
        requires old(self).idx() % 8 == 0,
        ensures final(self).idx() == old(self).idx() + 8 * data@.len(), final(self).tables() == old(self).tables(),
    { unimplemented!() }
}
pub uninterp spec fn into_u64<T>(v: T) -> u64;
pub broadcast axiom fn into_u64_u8(v: u8) ensures #[trigger] into_u64::<u8>(v) == v as u64;
pub broadcast axiom fn into_u64_u32(v: u32) ensures #[trigger] into_u64::<u32>(v) == v as u64;
pub broadcast axiom fn into_u64_u64(v: u64) ensures #[trigger] into_u64::<u64>(v) == v;

/// at least two different byte values occur
pub open spec fn two_distinct(s: Seq<u8>) -> bool { exists|i: int, j: int| 0 <= i < s.len() && 0 <= j < s.len() && s[i] != s[j] }

#[verifier::external_body]
pub struct HuffmanTable { _o: u8 }
impl HuffmanTable {
    /// precondition from the callee chain build_from_data -> build_from_counts -> distribute_weights(number of distinct bytes), which
    /// asserts `amount >= 2` (unit HU4D proves distribute_weights under exactly that precondition): a Huffman code needs two symbols (defect F8)
    #[verifier::external_body]
    pub fn build_from_data(data: &[u8]) -> (r: HuffmanTable)
        requires two_distinct(data@),
    { unimplemented!() }
    #[verifier::external_body]
    pub fn can_encode(&self, other: &HuffmanTable) -> (r: Option<usize>) { unimplemented!() }
}
/// table description (optional) + 1 or 4 Huffman streams: only advances the writer by whole bytes
#[verifier::external_body]
pub fn huff_encode(table: &HuffmanTable, writer: &mut BitWriter, data: &[u8], with_table: bool, single_stream: bool)
    requires old(writer).idx() % 8 == 0,
    ensures
        final(writer).tables() == old(writer).tables() + (if with_table { 1int } else { 0int }),
        final(writer).idx() >= old(writer).idx() + 8 /* every stream ends with a padding marker: at least one byte */, final(writer).idx() % 8 == 0, final(writer).idx() <= old(writer).idx() + 16 * 8 * (data@.len() + 1024),
{ unimplemented!() }

pub proof fn lemma_widths()
    ensures
        (1u64 << 2u64) == 4, (1u64 << 10u64) == 1024, (1u64 << 14u64) == 16384, (1u64 << 18u64) == 262144, (1u64 << 20u64) == 1048576,
{
    assert((1u64 << 2u64) == 4 && (1u64 << 10u64) == 1024 && (1u64 << 14u64) == 16384 && (1u64 << 18u64) == 262144 && (1u64 << 20u64) == 1048576) by (bit_vector);
}

//@extract file=ruzstd/src/encoding/blocks/compressed.rs fn=raw_literals ret= sigrewrite="&mut BitWriter<&mut Vec<u8>>=>&mut BitWriter"
//@spec
    requires
        literals@.len() < 0x10_0000,            // a block is at most 128 KiB; the 20-bit raw size format holds 0..=1048575
        old(writer).idx() % 8 == 0,
    ensures final(writer).idx() == old(writer).idx() + 24 + 8 * literals@.len(),
//@ghost at=start
    proof { lemma_widths(); broadcast use into_u64_u8, into_u64_u32; }
//@end

//@extract file=ruzstd/src/encoding/blocks/compressed.rs fn=compress_literals sigrewrite="&mut BitWriter<&mut Vec<u8>>=>&mut BitWriter||Option<&huff0_encoder::HuffmanTable>=>Option<&HuffmanTable>||Option<huff0_encoder::HuffmanTable>=>Option<HuffmanTable>" rewrite="huff0_encoder::HuffmanTable::build_from_data(literals)=>HuffmanTable::build_from_data(literals)||let mut encoder = huff0_encoder::HuffmanEncoder::new(encoder_table, writer);\n    if size_format == 0 {\n        encoder.encode(literals, new_table)\n    } else {\n        encoder.encode4x(literals, new_table)\n    };=>huff_encode(encoder_table, writer, literals, new_table, size_format == 0);"
//@spec
    requires
        literals@.len() < 0x4_0000,             // compress_block passes at most one block (128 KiB) of literals
        two_distinct(literals@),                // compress_block's `!single_symbol` guard (repair of defect F8); the call site itself is not under contract
        old(writer).idx() % 8 == 0,
    ensures
        final(writer).idx() % 8 == 0,
        // C02/C16 table synchronisation: the caller stores the returned table as "the table the decoder has"; so a table may be
        // returned only if its description was actually written into the (kept) output of this call
        r is Some ==> final(writer).tables() == old(writer).tables() + 1,
//@ghost at=start
    proof { lemma_widths(); broadcast use into_u64_u8, into_u64_u32, into_u64_u64; }
//@ghost before="writer.write_bits(size_format, 2);"
    proof {
        // RFC 8878 3.1.1.3.1.1: Size_Format 0 / 1 -> 10-bit sizes, 2 -> 14-bit, 3 -> 18-bit; both sizes must fit
        assert((size_format == 0 || size_format == 1) ==> size_bits == 10);
        assert(size_format == 2 ==> size_bits == 14);
        assert(size_format == 3 ==> size_bits == 18);
        assert(size_format <= 3);
        assert(fits(literals@.len() as u64, size_bits));
    }
//@ghost before="if total_len >= literals.len() {"
    proof {
        // on the path that keeps the compressed literals the Compressed_Size field holds the real size
        if total_len < literals@.len() {
            assert(fits(encoded_len as u64, size_bits));
        }
    }
//@end

} // verus!
fn main() {}
