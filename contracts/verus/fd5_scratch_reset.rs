//@unit FD5 : per-frame decoder state: DecoderScratch::reset yields, from ANY prior state, the state DecoderScratch::new creates; init_from_dict installs exactly the dictionary's tables, offsets and content
//@props C07,C09,C03
//@tier quick
//@profile rel
//@assume DecodeBuffer is abstract here (reset/new contracts are discharged by Kani obligation D1.d2_reset)
//@assume the Vec fields of the table types are compared by content; capacity is not part of the abstract state
use vstd::prelude::*;
verus! {

global size_of usize == 8;

//@const-check file=ruzstd/src/blocks/sequence_section.rs text="pub(crate) const MAX_LITERAL_LENGTH_CODE: u8 = 35;"
//@const-check file=ruzstd/src/blocks/sequence_section.rs text="pub(crate) const MAX_MATCH_LENGTH_CODE: u8 = 52;"
//@const-check file=ruzstd/src/blocks/sequence_section.rs text="pub(crate) const MAX_OFFSET_CODE: u8 = 31;"
pub const MAX_LITERAL_LENGTH_CODE: u8 = 35;
pub const MAX_MATCH_LENGTH_CODE: u8 = 52;
pub const MAX_OFFSET_CODE: u8 = 31;

//@struct-check file=ruzstd/src/fse/fse_decoder.rs name=Entry fields="pub base_line: u32 | pub num_bits: u8 | pub symbol: u8"
#[derive(Copy, Clone)]
pub struct Entry {
    pub base_line: u32,
    pub num_bits: u8,
    pub symbol: u8,
}

//@struct-check file=ruzstd/src/fse/fse_decoder.rs name=FSETable fields="max_symbol: u8 | pub decode: Vec<Entry> | pub accuracy_log: u8 | pub symbol_probabilities: Vec<i32> | symbol_counter: Vec<u32>"
pub struct FSETable {
    pub max_symbol: u8,
    pub decode: Vec<Entry>,
    pub accuracy_log: u8,
    pub symbol_probabilities: Vec<i32>,
    pub symbol_counter: Vec<u32>,
}

impl FSETable {
    /// the state a new table is in (also: what `reset` must re-establish)
    pub open spec fn is_empty(&self) -> bool {
        self.decode@.len() == 0 && self.accuracy_log == 0 && self.symbol_probabilities@.len() == 0 && self.symbol_counter@.len() == 0
    }
    /// same decoding behaviour as `o` (everything except the fixed max_symbol)
    pub open spec fn same_as(&self, o: &FSETable) -> bool {
        self.decode@ =~= o.decode@ && self.accuracy_log == o.accuracy_log
        && self.symbol_probabilities@ =~= o.symbol_probabilities@ && self.symbol_counter@ =~= o.symbol_counter@
    }

//@extract file=ruzstd/src/fse/fse_decoder.rs impl="^impl FSETable" fn=new
//@spec
        ensures r.is_empty(), r.max_symbol == max_symbol,
//@end

//@extract file=ruzstd/src/fse/fse_decoder.rs impl="^impl FSETable" fn=reset ret=
//@spec
        ensures final(self).is_empty(), final(self).max_symbol == old(self).max_symbol,
//@end

//@extract file=ruzstd/src/fse/fse_decoder.rs impl="^impl FSETable" fn=reinit_from ret=
//@spec
        ensures final(self).same_as(other), final(self).max_symbol == old(self).max_symbol,
//@end
}

//@struct-check file=ruzstd/src/huff0/huff0_decoder.rs name=Entry fields="symbol: u8 | num_bits: u8"
#[derive(Copy, Clone)]
pub struct HEntry {
    pub symbol: u8,
    pub num_bits: u8,
}

//@struct-check file=ruzstd/src/huff0/huff0_decoder.rs name=HuffmanTable fields="decode: Vec<Entry> | weights: Vec<u8> | pub max_num_bits: u8 | bits: Vec<u8> | bit_ranks: Vec<u32> | rank_indexes: Vec<usize> | fse_table: FSETable"
pub struct HuffmanTable {
    pub decode: Vec<HEntry>,
    pub weights: Vec<u8>,
    pub max_num_bits: u8,
    pub bits: Vec<u8>,
    pub bit_ranks: Vec<u32>,
    pub rank_indexes: Vec<usize>,
    pub fse_table: FSETable,
}

impl HuffmanTable {
    pub open spec fn is_empty(&self) -> bool {
        self.decode@.len() == 0 && self.weights@.len() == 0 && self.max_num_bits == 0 && self.bits@.len() == 0
        && self.bit_ranks@.len() == 0 && self.rank_indexes@.len() == 0 && self.fse_table.is_empty() && self.fse_table.max_symbol == 255
    }
    /// what literal decoding reads: the decode table and its bit width (the other vectors are build-time scratch,
    /// cleared and rewritten by every table build before they are read)
    pub open spec fn same_as(&self, o: &HuffmanTable) -> bool {
        self.decode@ =~= o.decode@ && self.max_num_bits == o.max_num_bits
        && self.weights@ =~= o.weights@ && self.bits@ =~= o.bits@ && self.rank_indexes@ =~= o.rank_indexes@
        && self.fse_table.same_as(&o.fse_table)
    }

//@extract file=ruzstd/src/huff0/huff0_decoder.rs impl="^impl HuffmanTable" fn=new
//@spec
        ensures r.is_empty(),
//@end

//@extract file=ruzstd/src/huff0/huff0_decoder.rs impl="^impl HuffmanTable" fn=reset ret=
//@spec
        requires old(self).fse_table.max_symbol == 255,
        ensures final(self).is_empty(),
//@end

//@extract file=ruzstd/src/huff0/huff0_decoder.rs impl="^impl HuffmanTable" fn=reinit_from ret=
//@spec
        requires old(self).fse_table.max_symbol == 255,
        ensures final(self).same_as(other), final(self).fse_table.max_symbol == 255,
//@end
}

//@struct-check file=ruzstd/src/decoding/scratch.rs name=HuffmanScratch fields="pub table: HuffmanTable"
pub struct HuffmanScratch {
    pub table: HuffmanTable,
}

//@struct-check file=ruzstd/src/decoding/scratch.rs name=FSEScratch fields="pub offsets: FSETable | pub of_rle: Option<u8> | pub literal_lengths: FSETable | pub ll_rle: Option<u8> | pub match_lengths: FSETable | pub ml_rle: Option<u8>"
pub struct FSEScratch {
    pub offsets: FSETable,
    pub of_rle: Option<u8>,
    pub literal_lengths: FSETable,
    pub ll_rle: Option<u8>,
    pub match_lengths: FSETable,
    pub ml_rle: Option<u8>,
}

impl FSEScratch {
    pub open spec fn is_fresh(&self) -> bool {
        self.offsets.is_empty() && self.literal_lengths.is_empty() && self.match_lengths.is_empty()
        && self.of_rle is None && self.ll_rle is None && self.ml_rle is None
        && self.offsets.max_symbol == MAX_OFFSET_CODE && self.literal_lengths.max_symbol == MAX_LITERAL_LENGTH_CODE
        && self.match_lengths.max_symbol == MAX_MATCH_LENGTH_CODE
    }
    pub open spec fn max_symbols_ok(&self) -> bool {
        self.offsets.max_symbol == MAX_OFFSET_CODE && self.literal_lengths.max_symbol == MAX_LITERAL_LENGTH_CODE
        && self.match_lengths.max_symbol == MAX_MATCH_LENGTH_CODE
    }
    pub open spec fn same_as(&self, o: &FSEScratch) -> bool {
        self.offsets.same_as(&o.offsets) && self.literal_lengths.same_as(&o.literal_lengths) && self.match_lengths.same_as(&o.match_lengths)
        && self.of_rle == o.of_rle && self.ll_rle == o.ll_rle && self.ml_rle == o.ml_rle
    }

//@extract file=ruzstd/src/decoding/scratch.rs impl="^impl FSEScratch" fn=new
//@spec
        ensures r.is_fresh(),
//@end

//@extract file=ruzstd/src/decoding/scratch.rs impl="^impl FSEScratch" fn=reinit_from ret=
//@spec
        requires old(self).max_symbols_ok(),
        ensures final(self).same_as(other), final(self).max_symbols_ok(),
//@end
}

#[verifier::external_body]
pub struct RingBuffer { _opaque: u8 }
impl RingBuffer {
    pub uninterp spec fn view(&self) -> Seq<u8>;
    pub uninterp spec fn freecap(&self) -> int;

    #[verifier::external_body]
    pub fn new() -> (r: RingBuffer)
        ensures r.view().len() == 0,
    { unimplemented!() }

    #[verifier::external_body]
    pub fn clear(&mut self)
        ensures final(self).view().len() == 0,
    { unimplemented!() }

    #[verifier::external_body]
    pub fn reserve(&mut self, amount: usize)
        ensures final(self).view() == old(self).view(), final(self).freecap() >= amount,
    { unimplemented!() }
}

//@struct-check file=ruzstd/src/decoding/decode_buffer.rs name=DecodeBuffer fields="buffer: RingBuffer | pub dict_content: Vec<u8> | pub window_size: usize | total_output_counter: u64"
pub struct DecodeBuffer {
    pub buffer: RingBuffer,
    pub dict_content: Vec<u8>,
    pub window_size: usize,
    pub total_output_counter: u64,
}

impl DecodeBuffer {
    /// empty window, no dictionary, counters zero, window installed (the hash field is cfg(feature = "hash") and handled by Kani D1.d2_reset)
    pub open spec fn is_fresh(&self, w: usize) -> bool {
        self.buffer.view().len() == 0 && self.dict_content@.len() == 0 && self.window_size == w && self.total_output_counter == 0
    }

//@extract file=ruzstd/src/decoding/decode_buffer.rs impl="^impl DecodeBuffer" fn=new
//@spec
        ensures r.is_fresh(window_size),
//@end

//@extract file=ruzstd/src/decoding/decode_buffer.rs impl="^impl DecodeBuffer" fn=reset ret=
//@spec
        ensures final(self).is_fresh(window_size), final(self).buffer.freecap() >= window_size,
//@end
}

//@struct-check file=ruzstd/src/blocks/sequence_section.rs name=Sequence fields="pub ll: u32 | pub ml: u32 | pub of: u32"
#[derive(Clone, Copy)]
pub struct Sequence { pub ll: u32, pub ml: u32, pub of: u32 }

//@struct-check file=ruzstd/src/decoding/dictionary.rs name=Dictionary fields="pub id: u32 | pub fse: FSEScratch | pub huf: HuffmanScratch | pub dict_content: Vec<u8> | pub offset_hist: [u32; 3]"
pub struct Dictionary {
    pub id: u32,
    pub fse: FSEScratch,
    pub huf: HuffmanScratch,
    pub dict_content: Vec<u8>,
    pub offset_hist: [u32; 3],
}

//@struct-check file=ruzstd/src/decoding/scratch.rs name=DecoderScratch fields="pub huf: HuffmanScratch | pub fse: FSEScratch | pub buffer: DecodeBuffer | pub offset_hist: [u32; 3] | pub literals_buffer: Vec<u8> | pub sequences: Vec<Sequence> | pub block_content_buffer: Vec<u8>"
pub struct DecoderScratch {
    pub huf: HuffmanScratch,
    pub fse: FSEScratch,
    pub buffer: DecodeBuffer,
    pub offset_hist: [u32; 3],
    pub literals_buffer: Vec<u8>,
    pub sequences: Vec<Sequence>,
    pub block_content_buffer: Vec<u8>,
}

impl DecoderScratch {
    /// the state in which every frame starts: nothing of any earlier frame or dictionary is visible
    pub open spec fn is_fresh(&self, w: usize) -> bool {
        self.huf.table.is_empty() && self.fse.is_fresh() && self.buffer.is_fresh(w)
        && self.offset_hist@ =~= seq![1u32, 4u32, 8u32]
        && self.literals_buffer@.len() == 0 && self.sequences@.len() == 0 && self.block_content_buffer@.len() == 0
    }
    /// type-level facts every DecoderScratch built by `new` satisfies and no method changes
    pub open spec fn shape_ok(&self) -> bool {
        self.fse.max_symbols_ok() && self.huf.table.fse_table.max_symbol == 255
    }

//@extract file=ruzstd/src/decoding/scratch.rs impl="^impl DecoderScratch" fn=new
//@spec
        ensures r.is_fresh(window_size), r.shape_ok(),
//@end

//@extract file=ruzstd/src/decoding/scratch.rs impl="^impl DecoderScratch" fn=reset ret=
//@spec
        requires old(self).shape_ok(),
        ensures final(self).is_fresh(window_size), final(self).shape_ok(), final(self).buffer.buffer.freecap() >= window_size,
//@end

//@extract file=ruzstd/src/decoding/scratch.rs impl="^impl DecoderScratch" fn=init_from_dict ret=
//@spec
        requires old(self).shape_ok(),
        ensures
            final(self).shape_ok(),
            final(self).fse.same_as(&dict.fse),
            final(self).huf.table.same_as(&dict.huf.table),
            final(self).offset_hist@ =~= dict.offset_hist@,
            final(self).buffer.dict_content@ =~= dict.dict_content@,
            // nothing else moves
            final(self).buffer.buffer.view() == old(self).buffer.buffer.view(),
            final(self).buffer.window_size == old(self).buffer.window_size,
            final(self).buffer.total_output_counter == old(self).buffer.total_output_counter,
            final(self).literals_buffer@ == old(self).literals_buffer@, final(self).sequences@ == old(self).sequences@,
//@end
}

} // verus!
fn main() {}
