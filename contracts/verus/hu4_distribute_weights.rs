//@unit HU4D : huff0_encoder::distribute_weights (the Huffman encoder's code-length assignment, first stage): for every alphabet size 2..=256 it terminates without shift / index / arithmetic panic, its internal asserts hold, it returns exactly `amount` weights, every weight is >= 1, and the weights are complete in Kraft's sense: the sum of 2^weight is a power of two (2^(number of rounds)), which is what HuffmanTable::build_from_weights' `is_power_of_two` check demands
//@props C13,C16
//@tier quick
//@profile rel
//@assume only the first stage of the encoder-side table construction is covered: redistribute_weights (depth limiting), build_from_counts (sorting, assignment) and build_from_weights (code assignment) use iterator adapters / sort closures outside Verus' reach and are NOT proved
//@assume R-type: four `let` bindings get their inferred type (usize / Vec<usize>) written out because the loop invariants mention them before inference sees a use
//@assume R-for: the anonymous `for _ in 0..add_new` gets a named iterator (`it:`), spec-only syntax
use vstd::prelude::*;
use vstd::arithmetic::power2::*;
verus! {

global size_of usize == 8;

#[verifier::external_body]
pub fn vpanic() -> !
    requires false,
{ panic!() }

/// sum of 2^w over the weights
pub open spec fn kraft(s: Seq<usize>) -> int
    decreases s.len(),
{
    if s.len() == 0 { 0 } else { kraft(s.drop_last()) + pow2(s.last() as nat) }
}
pub proof fn lemma_kraft_push(s: Seq<usize>, w: usize)
    ensures kraft(s.push(w)) == kraft(s) + pow2(w as nat),
{
    assert(s.push(w).drop_last() =~= s);
}

pub proof fn lemma_shl(d: usize)
    requires d <= 9,
    ensures (1usize << d) == pow2(d as nat), (1usize << d) >= 1,
{
    lemma2_to64();
    assert((1usize << 0usize) == 1 && (1usize << 1usize) == 2 && (1usize << 2usize) == 4 && (1usize << 3usize) == 8 && (1usize << 4usize) == 16
        && (1usize << 5usize) == 32 && (1usize << 6usize) == 64 && (1usize << 7usize) == 128 && (1usize << 8usize) == 256 && (1usize << 9usize) == 512) by (bit_vector);
}
pub proof fn lemma_small(d: nat)
    requires d <= 9, pow2(d) <= 254,
    ensures d <= 7,
{
    lemma2_to64();
}

//@extract file=ruzstd/src/huff0/huff0_encoder.rs fn=distribute_weights rewrite="for _ in 0..add_new=>for _ in it: 0..add_new||let mut target_weight = 1;=>let mut target_weight: usize = 1;||let mut weight_counter = 2;=>let mut weight_counter: usize = 2;||let mut add_new = 1 << (weight_counter - target_weight);=>let mut add_new: usize = 1 << (weight_counter - target_weight);||let mut weights = Vec::new();=>let mut weights: Vec<usize> = Vec::new();"
//@spec
    requires 2 <= amount <= 256,        // the function's own asserts; the call site (build_from_counts) must guarantee them: defect F8
    ensures
        r@.len() == amount,
        forall|i: int| 0 <= i < r@.len() ==> 1 <= #[trigger] r@[i] <= 256,
        exists|k: nat| 2 <= k <= 257 && kraft(r@) == pow2(k),
//@ghost at=start
    proof { lemma2_to64(); }
//@ghost before="while weights.len() < amount"
    proof {
        let e = Seq::<usize>::empty();
        lemma_kraft_push(e, 1);
        lemma_kraft_push(e.push(1), 1);
        assert(weights@ =~= e.push(1).push(1));
        assert(kraft(e) == 0);
    }
//@loop 1
        invariant
            2 <= amount <= 256,
            2 <= weights@.len() <= amount,
            1 <= target_weight < weight_counter,
            weight_counter <= weights@.len(),
            weight_counter - target_weight <= 9,
            kraft(weights@) == pow2(weight_counter as nat),
            forall|i: int| 0 <= i < weights@.len() ==> 1 <= #[trigger] weights@[i] < weight_counter,
        decreases amount - weights@.len(),
//@ghost inloop=1
        proof { lemma_shl((weight_counter - target_weight) as usize); }
        let ghost d0 = (weight_counter - target_weight) as nat;
//@ghost before="for _ in it"
        let ghost len0 = weights@.len() as int;
        let ghost kraft0 = kraft(weights@);
        proof {
            // either the regular round (2^(wc - tw) weights of tw) or the restart (one weight of wc): both add 2^wc
            assert(add_new * pow2(target_weight as nat) == pow2(weight_counter as nat)) by {
                if target_weight == weight_counter {
                    assert(add_new == 1);
                } else {
                    assert(add_new == pow2(d0));
                    lemma_pow2_adds(d0, target_weight as nat);
                }
            }
            // a regular round fitted into at most 254 free places: its exponent is at most 7
            if target_weight != weight_counter {
                assert(add_new <= 254);
                lemma_small(d0);
            }
        }
//@loop 2
            invariant
                2 <= amount <= 256,
                1 <= target_weight <= weight_counter, weight_counter <= len0,
                it.index() <= add_new,
                weights@.len() == len0 + it.index(),
                len0 + add_new <= amount,
                kraft(weights@) == kraft0 + it.index() * pow2(target_weight as nat),
                forall|i: int| 0 <= i < weights@.len() ==> 1 <= #[trigger] weights@[i] <= weight_counter,
//@ghost inloop=2
            proof {
                lemma_kraft_push(weights@, target_weight);
                vstd::arithmetic::mul::lemma_mul_is_distributive_add_other_way(pow2(target_weight as nat) as int, it.index() as int, 1);
            }
//@ghost afterloop=2
        proof {
            lemma_pow2_unfold((weight_counter + 1) as nat);
            assert(kraft(weights@) == pow2((weight_counter + 1) as nat));
        }
//@end

} // verus!
fn main() {}
