//@unit B2 : BlockDecoder::decompress_block and decode_block_content on their verbatim bodies (Ok(n) = exactly n source bytes: 1 for RLE, content_size otherwise; raw / RLE blocks regenerate exactly decompressed_size bytes; the buffer only grows, by at most 128 KiB; the Reserved arm's panic! is unreachable): slicing of a compressed block never panics, the three internal assert!s hold, the Reserved-type panic! arm is unreachable under the header contract, a block regenerates at most 128 KiB, exact source consumption per block type
//@props C03,C05,C01,C10
//@tier quick
//@profile rel
//@assume callee contracts: LiteralsSection::parse_from_header (Kani H5), SequencesHeader::parse_from_header (Kani H6), decode_literals (Verus L1), decode_sequences (Verus Q2), execute_sequences (Verus Q3), DecodeBuffer ops (Verus D0 / Kani R2), Read::read_exact (std: fills the whole buffer or errors)
//@assume R-impl: the by-value `mut source: impl Read` parameter is specialised to `source: &mut R` (every call site in the crate passes `&mut reader`), so that the reader's state after the call can be named in the contract; Read is declared here as a trait with read_exact only
use vstd::prelude::*;
verus! {

global size_of usize == 8;

#[verifier::external_body]
pub fn vpanic() -> !
    requires false,
{ panic!() }

//@const-check file=ruzstd/src/common/mod.rs text="pub const MAX_BLOCK_SIZE: u32 = 128 * 1024;"
pub const MAX_BLOCK_SIZE: u32 = 128 * 1024;

pub struct Error { pub k: u8 }
pub trait Read {
    /// bytes still available (abstract)
    spec fn avail(&self) -> int;
    /// std contract: Ok => exactly buf.len() bytes were taken; Err otherwise
    fn read_exact(&mut self, buf: &mut [u8]) -> (r: Result<(), Error>)
        ensures
            final(buf)@.len() == old(buf)@.len(),
            r is Ok ==> final(self).avail() == old(self).avail() - old(buf)@.len() && old(self).avail() >= old(buf)@.len(),
            r is Err ==> old(self).avail() < old(buf)@.len();
}

#[derive(Clone, Copy, PartialEq, Eq)]
pub enum BlockType { Raw, RLE, Compressed, Reserved }

//@struct-check file=ruzstd/src/blocks/block.rs name=BlockHeader fields="pub last_block: bool | pub block_type: BlockType | pub decompressed_size: u32 | pub content_size: u32"
pub struct BlockHeader {
    pub last_block: bool,
    pub block_type: BlockType,
    pub decompressed_size: u32,
    pub content_size: u32,
}
impl BlockHeader {
    /// H1's postcondition (Kani, all 2^24 headers)
    pub open spec fn from_h1(&self) -> bool {
        !(self.block_type is Reserved) && self.content_size <= MAX_BLOCK_SIZE && self.decompressed_size <= MAX_BLOCK_SIZE
        && (self.block_type is RLE ==> self.content_size == 1)
        && (self.block_type is Raw ==> self.content_size == self.decompressed_size)
    }
}

pub enum LiteralsSectionType { Raw, RLE, Compressed, Treeless }
pub struct LiteralsSection {
    pub regenerated_size: u32,
    pub compressed_size: Option<u32>,
    pub num_streams: Option<u8>,
    pub ls_type: LiteralsSectionType,
}
pub enum LiteralsSectionParseError { Any }
impl LiteralsSection {
    pub fn new() -> (r: LiteralsSection) {
        LiteralsSection { regenerated_size: 0, compressed_size: None, num_streams: None, ls_type: LiteralsSectionType::Raw }
    }
    /// what H5 (Kani: equality with the RFC header layout for every prefix) implies
    #[verifier::external_body]
    pub fn parse_from_header(&mut self, raw: &[u8]) -> (r: Result<u8, LiteralsSectionParseError>)
        ensures r matches Ok(n) ==> 1 <= n <= 5 && n <= raw@.len()
            && ((final(self).ls_type is Compressed || final(self).ls_type is Treeless) <==> final(self).compressed_size is Some)
            && (final(self).num_streams matches Some(k) ==> k == 1 || k == 4)
            && final(self).regenerated_size < 0x10_0000
            && (final(self).compressed_size matches Some(c) ==> c < 0x4_0000),
    { unimplemented!() }
}
pub open spec fn literal_bytes(section: &LiteralsSection) -> int {
    match section.compressed_size {
        Some(x) => x as int,
        None => match section.ls_type { LiteralsSectionType::RLE => 1, _ => section.regenerated_size as int },
    }
}

pub struct CompressionModes(pub u8);
pub struct SequencesHeader { pub num_sequences: u32, pub modes: Option<CompressionModes> }
pub enum SequencesHeaderParseError { Any }
impl SequencesHeader {
    pub fn new() -> (r: SequencesHeader) { SequencesHeader { num_sequences: 0, modes: None } }
    #[verifier::external_body]
    pub fn parse_from_header(&mut self, source: &[u8]) -> (r: Result<u8, SequencesHeaderParseError>)
        ensures r matches Ok(n) ==> 1 <= n <= 4 && n <= source@.len(),
    { unimplemented!() }
}

#[derive(Clone, Copy)]
pub struct Sequence { pub ll: u32, pub ml: u32, pub of: u32 }

#[verifier::external_body]
pub struct HuffmanScratch { _o: u8 }
impl HuffmanScratch { pub uninterp spec fn wf(&self) -> bool; }
#[verifier::external_body]
pub struct FSEScratch { _o: u8 }
impl FSEScratch { pub uninterp spec fn wf(&self) -> bool; }

#[verifier::external_body]
pub struct DecodeBuffer { _o: u8 }
impl DecodeBuffer {
    pub uninterp spec fn view(&self) -> Seq<u8>;
    pub uninterp spec fn inv(&self) -> bool;
    #[verifier::external_body]
    pub fn push(&mut self, data: &[u8])
        requires old(self).inv(), data@.len() <= u32::MAX,
        ensures final(self).inv(), final(self).view() == old(self).view() + data@,
    { unimplemented!() }
    #[verifier::external_body]
    pub fn extend_and_fill(&mut self, fill_with: u8, fill_length: usize)
        requires old(self).inv(), fill_length <= u32::MAX,
        ensures final(self).inv(), final(self).view() == old(self).view() + Seq::new(fill_length as nat, |i: int| fill_with),
    { unimplemented!() }
    /// R2: appends exactly fill_length bytes from the reader, or fails leaving the view unchanged
    #[verifier::external_body]
    pub fn extend_from_reader<R: Read>(&mut self, read: &mut R, fill_length: usize) -> (r: Result<(), Error>)
        requires old(self).inv(), fill_length <= u32::MAX,
        ensures
            final(self).inv(),
            r is Ok ==> final(self).view().len() == old(self).view().len() + fill_length && final(read).avail() == old(read).avail() - fill_length
                && old(read).avail() >= fill_length,
            r is Err ==> final(self).view() == old(self).view(),
    { unimplemented!() }
}

//@struct-check file=ruzstd/src/decoding/scratch.rs name=DecoderScratch fields="pub huf: HuffmanScratch | pub fse: FSEScratch | pub buffer: DecodeBuffer | pub offset_hist: [u32; 3] | pub literals_buffer: Vec<u8> | pub sequences: Vec<Sequence> | pub block_content_buffer: Vec<u8>"
pub struct DecoderScratch {
    pub huf: HuffmanScratch,
    pub fse: FSEScratch,
    pub buffer: DecodeBuffer,
    pub offset_hist: [u32; 3],
    pub literals_buffer: Vec<u8>,
    pub sequences: Vec<Sequence>,
    pub block_content_buffer: Vec<u8>,
}
impl DecoderScratch {
    pub open spec fn wf(&self) -> bool { self.huf.wf() && self.fse.wf() && self.buffer.inv() }
}

pub enum DecompressLiteralsError { Any }
pub enum DecodeSequenceError { ExtraBits { bits_remaining: isize }, Other }
pub enum ExecuteSequencesError { Any }

/// L1
#[verifier::external_body]
pub fn decode_literals(section: &LiteralsSection, scratch: &mut HuffmanScratch, source: &[u8], target: &mut Vec<u8>) -> (r: Result<u32, DecompressLiteralsError>)
    requires
        old(scratch).wf(), source@.len() <= 0x1_0000_0000, source@.len() >= literal_bytes(section),
        (section.ls_type is Compressed || section.ls_type is Treeless) <==> section.compressed_size is Some,
        section.num_streams matches Some(k) ==> k == 1 || k == 4,
        old(target)@.len() == 0,
    ensures
        final(scratch).wf() || r is Err,
        r matches Ok(n) ==> n == literal_bytes(section) && final(target)@.len() == section.regenerated_size,
{ unimplemented!() }

/// Q2
#[verifier::external_body]
pub fn decode_sequences(section: &SequencesHeader, source: &[u8], scratch: &mut FSEScratch, target: &mut Vec<Sequence>) -> (r: Result<(), DecodeSequenceError>)
    requires old(scratch).wf(), source@.len() <= 0x1_0000_0000,
    ensures
        final(scratch).wf() || r is Err,
        r is Ok ==> final(target)@.len() == section.num_sequences && forall|i: int| 0 <= i < final(target)@.len() ==> (#[trigger] final(target)@[i]).of >= 1,
{ unimplemented!() }

/// Q3
#[verifier::external_body]
pub fn execute_sequences(scratch: &mut DecoderScratch) -> (r: Result<(), ExecuteSequencesError>)
    requires
        old(scratch).buffer.inv(),
        forall|i: int| 0 <= i < old(scratch).sequences@.len() ==> (#[trigger] old(scratch).sequences@[i]).of >= 1,
        old(scratch).literals_buffer@.len() <= MAX_BLOCK_SIZE,
    ensures
        final(scratch).buffer.inv(), final(scratch).huf == old(scratch).huf, final(scratch).fse == old(scratch).fse,
        r is Ok ==> final(scratch).buffer.view().len() - old(scratch).buffer.view().len() <= MAX_BLOCK_SIZE,
        final(scratch).buffer.view().len() >= old(scratch).buffer.view().len(),     // Q3 proves both bounds on every path
{ unimplemented!() }

pub enum DecompressBlockError {
    BlockContentReadError(Error),
    MalformedSectionHeader { expected_len: usize, remaining_bytes: usize },
    LiteralsSizeTooLarge { size: u32 },
    DecompressLiteralsError(DecompressLiteralsError),
    LiteralsSectionParseError(LiteralsSectionParseError),
    SequencesHeaderParseError(SequencesHeaderParseError),
    DecodeSequenceError(DecodeSequenceError),
    ExecuteSequencesError(ExecuteSequencesError),
}
macro_rules! from_impl {
    ($src:ty, $dst:ty, $variant:ident) => {
        verus! {
        impl vstd::std_specs::convert::FromSpecImpl<$src> for $dst {
            open spec fn obeys_from_spec() -> bool { true }
            open spec fn from_spec(v: $src) -> Self { <$dst>::$variant(v) }
        }
        impl From<$src> for $dst {
            fn from(val: $src) -> Self { Self::$variant(val) }
        }
        }
    };
}
from_impl!(Error, DecompressBlockError, BlockContentReadError);
from_impl!(DecompressLiteralsError, DecompressBlockError, DecompressLiteralsError);
from_impl!(LiteralsSectionParseError, DecompressBlockError, LiteralsSectionParseError);
from_impl!(SequencesHeaderParseError, DecompressBlockError, SequencesHeaderParseError);
from_impl!(DecodeSequenceError, DecompressBlockError, DecodeSequenceError);
from_impl!(ExecuteSequencesError, DecompressBlockError, ExecuteSequencesError);

pub enum DecodeBlockContentError {
    DecoderStateIsFailed,
    ExpectedHeaderOfPreviousBlock,
    ReadError { step: BlockType, source: Error },
    DecompressBlockError(DecompressBlockError),
}
from_impl!(DecompressBlockError, DecodeBlockContentError, DecompressBlockError);

pub enum DecoderState { ReadyToDecodeNextHeader, ReadyToDecodeNextBody, Failed }

//@struct-check file=ruzstd/src/decoding/block_decoder.rs name=BlockDecoder fields="header_buffer: [u8; 3] | internal_state: DecoderState"
pub struct BlockDecoder {
    pub header_buffer: [u8; 3],
    pub internal_state: DecoderState,
}

impl BlockDecoder {
//@extract file=ruzstd/src/decoding/block_decoder.rs impl="^impl BlockDecoder" fn=decompress_block sigrewrite="fn decompress_block(=>fn decompress_block<R: Read>(||mut source: impl Read,=>source: &mut R,"
//@spec
        requires
            old(workspace).wf(), header.from_h1(),
        ensures
            final(workspace).buffer.inv(),
            r is Ok ==> final(workspace).wf(),
            // C05: at most one block's worth of output
            r is Ok ==> final(workspace).buffer.view().len() - old(workspace).buffer.view().len() <= MAX_BLOCK_SIZE,
            // C10: exactly content_size bytes are taken from the source
            r is Ok ==> final(source).avail() == old(source).avail() - header.content_size && old(source).avail() >= header.content_size
                && final(workspace).buffer.view().len() >= old(workspace).buffer.view().len(),
//@end

//@extract file=ruzstd/src/decoding/block_decoder.rs impl="^impl BlockDecoder" fn=decode_block_content sigrewrite="pub fn decode_block_content(=>pub fn decode_block_content<R: Read>(||mut source: impl Read,=>source: &mut R," rewrite=".extend_from_reader(&mut source, header.decompressed_size as usize)=>.extend_from_reader(source, header.decompressed_size as usize)"
//@spec
        requires
            old(workspace).wf(), header.from_h1(),
        ensures
            final(workspace).buffer.inv(),
            r matches Ok(n) ==> final(workspace).wf() && old(source).avail() >= n
                && final(workspace).buffer.view().len() >= old(workspace).buffer.view().len()
                // C10: Ok(n) = exactly n bytes were taken from the source: 1 for RLE, the content size otherwise
                && final(source).avail() == old(source).avail() - n
                && n == (if header.block_type is RLE { 1 } else { header.content_size as int })
                // C05: at most one block's worth of output
                && final(workspace).buffer.view().len() - old(workspace).buffer.view().len() <= MAX_BLOCK_SIZE
                // C01: raw and RLE blocks regenerate exactly decompressed_size bytes
                && (!(header.block_type is Compressed) ==> final(workspace).buffer.view().len() - old(workspace).buffer.view().len() == header.decompressed_size),
//@end

}

} // verus!
fn main() {}
