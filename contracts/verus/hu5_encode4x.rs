//@unit HU5 : HuffmanEncoder::encode4x / encode (the compressor's literal stream writer) on their verbatim bodies: for every literal run a block can hold (more than 1024 and at most 128 KiB, the call-site facts) the four-way split never slices out of bounds, the three `assert!(size <= u16::MAX)` sanity checks hold (a stream is at most 11 bits per symbol plus padding: at most 45 065 bytes), the jump table is patched inside already written bytes (change_bits' preconditions), and the writer ends byte-aligned
//@props C13,C16,C02
//@tier quick
//@profile rel
//@assume encode_stream (iterates `data.iter().rev()`, outside Verus) is abstract: it appends at most 11 bits per symbol (codes of a depth-limited table, unit HU1V's limit on the decoder side; the encoder-side depth limit is only checked on small alphabets, HU4C) plus 1..=8 padding bits and ends byte-aligned; write_table is abstract (byte-aligned in, byte-aligned out)
//@assume BitWriter is abstract with the contracts Kani unit BW1 proves (write_bits: value fits, width <= 63; change_bits: writer byte-aligned, field inside written data)
//@assume std usize::div_ceil(a, b) == (a + b - 1) / b (assume_specification)
//@assume R-sig: the type parameters / lifetimes of HuffmanEncoder<'_, '_, V> and BitWriter<V> are dropped (abstract writer)
//@assume call-site facts as preconditions: 1024 < data.len() <= 128 KiB and a byte-aligned writer (compress_block / compress_literals, units E6 / E8)
use vstd::prelude::*;
verus! {

global size_of usize == 8;

pub open spec fn fits(v: u64, n: usize) -> bool { n >= 64 || v < (1u64 << (n as u64)) }
pub uninterp spec fn into_u64<T>(v: T) -> u64;
pub broadcast axiom fn into_u64_u16(v: u16) ensures #[trigger] into_u64::<u16>(v) == v as u64;

pub assume_specification [usize::div_ceil] (a: usize, b: usize) -> (r: usize)
    requires b > 0,
    ensures r == (a + b - 1) / (b as int);

#[verifier::external_body]
pub struct BitWriter { _o: u8 }
impl BitWriter {
    pub uninterp spec fn idx(&self) -> int;
    /// ghost: the symbols encoded so far, in the order the streams were written
    pub uninterp spec fn symbols(&self) -> Seq<u8>;
    /// ghost: fields patched after the fact (bit position -> value)
    pub uninterp spec fn patched(&self) -> Map<int, u64>;
    #[verifier::external_body]
    pub fn index(&self) -> (r: usize) ensures r == self.idx(), { unimplemented!() }
    #[verifier::external_body]
    pub fn write_bits<T: Into<u64> + Copy>(&mut self, bits: T, num_bits: usize)
        requires num_bits <= 63, fits(into_u64(bits), num_bits), old(self).idx() + num_bits <= usize::MAX,
        ensures final(self).idx() == old(self).idx() + num_bits, final(self).symbols() == old(self).symbols(), final(self).patched() == old(self).patched(),
    { unimplemented!() }
    /// BW1.bw1_change_bits: the function's own asserts as preconditions
    #[verifier::external_body]
    pub fn change_bits<T: Into<u64> + Copy>(&mut self, idx: usize, bits: T, num_bits: usize)
        requires old(self).idx() % 8 == 0, idx + num_bits < old(self).idx(), idx % 8 == 0 || 8 - idx % 8 <= num_bits, fits(into_u64(bits), num_bits),
        ensures final(self).idx() == old(self).idx(), final(self).symbols() == old(self).symbols(),
            final(self).patched() == old(self).patched().insert(idx as int, into_u64(bits)),
    { unimplemented!() }
}

#[verifier::external_body]
pub struct HuffmanTable { _o: u8 }

//@struct-check file=ruzstd/src/huff0/huff0_encoder.rs name=HuffmanEncoder fields="table: &'table HuffmanTable | writer: &'output mut BitWriter<V>"
pub struct HuffmanEncoder<'output, 'table> {
    pub table: &'table HuffmanTable,
    pub writer: &'output mut BitWriter,
}

/// the longest code a table may contain (RFC 8878 4.2.1: Max_Number_of_Bits = 11)
pub const MAX_CODE_BITS: usize = 11;

impl<'output, 'table> HuffmanEncoder<'output, 'table> {
    #[verifier::external_body]
    pub fn encode_stream(table: &HuffmanTable, writer: &mut BitWriter, data: &[u8])
        requires old(writer).idx() % 8 == 0, old(writer).idx() + MAX_CODE_BITS * data@.len() + 8 <= usize::MAX,
        ensures final(writer).idx() % 8 == 0, old(writer).idx() < final(writer).idx() <= old(writer).idx() + MAX_CODE_BITS * data@.len() + 8,
            final(writer).symbols() == old(writer).symbols() + data@, final(writer).patched() == old(writer).patched(),
    { unimplemented!() }
    #[verifier::external_body]
    pub fn write_table(&mut self)
        requires old(self).writer.idx() % 8 == 0, old(self).writer.idx() + 8 * 256 <= usize::MAX,
        ensures final(self).writer.idx() % 8 == 0, old(self).writer.idx() <= final(self).writer.idx() <= old(self).writer.idx() + 8 * 256,
            final(self).table == old(self).table, final(self).writer.symbols() == old(self).writer.symbols(), final(self).writer.patched() == old(self).writer.patched(),
    { unimplemented!() }

//@extract file=ruzstd/src/huff0/huff0_encoder.rs impl="^impl<V: AsMut<Vec<u8>>> HuffmanEncoder" fn=encode4x ret=
//@spec
        requires
            1024 < data@.len() <= 0x20000,
            old(self).writer.idx() % 8 == 0, old(self).writer.idx() <= usize::MAX / 2,
        ensures
            final(self).writer.idx() % 8 == 0,
            final(self).writer.idx() > old(self).writer.idx() + 48,
            // the four streams together encode exactly the literals, each once, in order
            final(self).writer.symbols() == old(self).writer.symbols() + data@,
//@ghost at=start
        proof { broadcast use into_u64_u16; assert((1u64 << 16u64) == 65536) by (bit_vector); }
//@ghost after="self.writer.write_bits(0u16, 16);" nth=3
        let ghost jt = self.writer.idx() - 48;      // where the 6-byte jump table starts
        let ghost b1 = self.writer.idx();
//@ghost after="Self::encode_stream(self.table, self.writer, src1);"
        let ghost b2 = self.writer.idx();
//@ghost after="Self::encode_stream(self.table, self.writer, src2);"
        let ghost b3 = self.writer.idx();
//@ghost after="Self::encode_stream(self.table, self.writer, src3);"
        let ghost b4 = self.writer.idx();
        let ghost p0 = self.writer.patched();
//@ghost at=end
        proof {
            assert(src1@ + src2@ + src3@ + src4@ =~= data@);
            // RFC 8878 4.2.2: the jump table holds the byte sizes of streams 1..3 as three little-endian 16-bit fields in front of the streams
            assert(self.writer.patched() =~= p0.insert(jt, ((b2 - b1) / 8) as u64).insert(jt + 16, ((b3 - b2) / 8) as u64).insert(jt + 32, ((b4 - b3) / 8) as u64));
        }
//@end

//@extract file=ruzstd/src/huff0/huff0_encoder.rs impl="^impl<V: AsMut<Vec<u8>>> HuffmanEncoder" fn=encode ret=
//@spec
        requires
            data@.len() <= 0x20000,
            old(self).writer.idx() % 8 == 0, old(self).writer.idx() <= usize::MAX / 2,
        ensures
            final(self).writer.idx() % 8 == 0,
//@end
}

} // verus!
fn main() {}
