//@unit R1 : RingBuffer position arithmetic for every capacity: len/free/clear/drop_first_n and the data/free slice lengths preserve the invariant and mean what the queue view says
//@props C04,C03
//@tier quick
//@profile rel
//@assume the struct is declared here with its three position fields only (checked against the real declaration on every run); `buf` is never touched by these six functions
use vstd::prelude::*;
verus! {

//@struct-check file=ruzstd/src/decoding/ringbuffer.rs name=RingBuffer fields="cap: usize | head: usize | tail: usize"
pub struct RingBuffer {
    pub cap: usize,
    pub head: usize,
    pub tail: usize,
}

impl RingBuffer {
    /// documented invariants 1 (capacity bound), 3 and 4 of the struct comment
    pub open spec fn wf(&self) -> bool {
        (self.cap == 0 && self.head == 0 && self.tail == 0)
        || (self.head < self.cap && self.tail < self.cap && self.cap <= isize::MAX as usize)
    }

    /// number of bytes in the queue
    pub open spec fn vlen(&self) -> int {
        if self.tail >= self.head { self.tail - self.head } else { self.cap - self.head + self.tail }
    }

    /// the queue content, given the bytes of the allocation (mem.len() == cap): the cyclic range head .. head+vlen
    pub open spec fn view(&self, mem: Seq<u8>) -> Seq<u8> {
        Seq::new(self.vlen() as nat, |i: int| mem[(self.head + i) % (self.cap as int)])
    }

//@extract file=ruzstd/src/decoding/ringbuffer.rs impl=RingBuffer fn=data_slice_lengths
//@spec
        requires self.wf(),
        ensures
            r.0 + r.1 == self.vlen(),
            self.tail >= self.head ==> r.0 == self.tail - self.head && r.1 == 0,
            self.tail < self.head ==> r.0 == self.cap - self.head && r.1 == self.tail,
            self.head + r.0 <= self.cap,
//@end

//@extract file=ruzstd/src/decoding/ringbuffer.rs impl=RingBuffer fn=free_slice_lengths
//@spec
        requires self.wf(),
        ensures
            // (len_to_head, len_after_tail): the free space is tail..head cyclically (one slot of it is the sentinel)
            r.0 + r.1 == self.cap - self.vlen(),
            self.tail < self.head ==> r.0 == 0 && r.1 == self.head - self.tail,
            self.tail >= self.head ==> r.0 == self.head && r.1 == self.cap - self.tail,
            self.tail + r.1 <= self.cap,
//@end

//@extract file=ruzstd/src/decoding/ringbuffer.rs impl=RingBuffer fn=len
//@spec
        requires self.wf(),
        ensures r == self.vlen(), r <= self.cap, self.cap > 0 ==> r < self.cap,
//@end

//@extract file=ruzstd/src/decoding/ringbuffer.rs impl=RingBuffer fn=free
//@spec
        requires self.wf(),
        ensures
            self.cap == 0 ==> r == 0,
            self.cap > 0 ==> r == self.cap - 1 - self.vlen(),
//@end

//@extract file=ruzstd/src/decoding/ringbuffer.rs impl=RingBuffer fn=clear
//@spec
        requires old(self).wf(),
        ensures final(self).wf(), final(self).vlen() == 0, final(self).cap == old(self).cap,
//@end

//@extract file=ruzstd/src/decoding/ringbuffer.rs impl=RingBuffer fn=drop_first_n
//@spec
        requires old(self).wf(), old(self).cap > 0,
        ensures
            final(self).wf(),
            final(self).cap == old(self).cap,
            final(self).tail == old(self).tail,
            final(self).vlen() == old(self).vlen() - (if amount <= old(self).vlen() { amount as int } else { old(self).vlen() }),
            // queue semantics: exactly the first min(amount, len) bytes leave, the rest keeps its order
            forall|mem: Seq<u8>| mem.len() == old(self).cap ==>
                #[trigger] final(self).view(mem) == old(self).view(mem).skip(if amount <= old(self).vlen() { amount as int } else { old(self).vlen() }),
//@ghost at=end
        proof {
            let o = *old(self);
            let n = amount as int;
            lemma_mod_wrap(o.head as int + n, o.cap as int);
            assert forall|mem: Seq<u8>| mem.len() == o.cap implies #[trigger] self.view(mem) == o.view(mem).skip(n) by {
                assert(self.view(mem).len() == o.view(mem).skip(n).len());
                assert forall|i: int| 0 <= i < self.vlen() implies self.view(mem)[i] == o.view(mem).skip(n)[i] by {
                    lemma_mod_shift(o.head as int, n, i, o.cap as int);
                }
                assert(self.view(mem) =~= o.view(mem).skip(n));
            }
        }
//@end
}

/// 0 <= x < 2c  ==>  x % c is x or x - c
pub proof fn lemma_mod_wrap(x: int, c: int)
    requires c > 0, 0 <= x < 2 * c,
    ensures x % c == (if x < c { x } else { x - c }),
{
    if x < c {
        vstd::arithmetic::div_mod::lemma_small_mod(x as nat, c as nat);
    } else {
        vstd::arithmetic::div_mod::lemma_small_mod((x - c) as nat, c as nat);
        vstd::arithmetic::div_mod::lemma_mod_sub_multiples_vanish(x, c);
    }
}

/// ((h + n) % c + i) % c == (h + n + i) % c
pub proof fn lemma_mod_shift(h: int, n: int, i: int, c: int)
    requires c > 0, h >= 0, n >= 0, i >= 0,
    ensures ((h + n) % c + i) % c == (h + n + i) % c,
{
    vstd::arithmetic::div_mod::lemma_add_mod_noop((h + n), i, c);
    vstd::arithmetic::div_mod::lemma_mod_twice(h + n, c);
    vstd::arithmetic::div_mod::lemma_add_mod_noop((h + n) % c, i, c);
}

} // verus!
fn main() {}
