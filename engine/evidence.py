"""Evidence writer: only measured facts of this run."""
import os, json, re
from common import *

# level claimed per property (kept in sync with MANIFEST.json by engine/selftest)
PROP_LEVEL = {
    # properties whose obligations are (almost) all BOUNDED Kani runs: not claimed as proofs
    "C06": "other",
    "C08": "other",
    "C18": "other",
}

GLOBAL_TRUSTED = [
    "rustc and the Kani->CBMC translation (Kani 0.68.0, CBMC 6.11.0, its SAT back end)",
    "Verus 0.2026.09.13, Z3 and vstd (for Verus units)",
    "the RFC 8878 transcription in contracts/spec/ (tables, repeat-offset rules, header layouts)",
    "std Vec/slice/Read/Write behave as documented (Kani std models, vstd specs)",
    "x86_64 target model (sse2 => 16-byte copy chunks); global allocator returns blocks of the requested layout",
]


def oblig(h, status, **kw):
    d = {
        "id": h.oid,
        "unit": h.unit.uid,
        "harness": h.name,
        "kind": h.kind if (h.kind not in ("contract", "proof") or h.complete) else "bounded",
        "declared_kind": h.kind,
        "backend": "kani/cbmc",
        "fn": h.fn,
        "status": status,          # discharged | violation | undecided | guard-ok | known-finding
        "complete": h.complete,
        "bound": h.bound,
        "profile": h.profile,
        "features": h.features,
        "witness": h.witness,
        "assumptions": ["[%s] %s" % (h.unit.uid, a) for a in h.unit.assumes],
    }
    d.update(kw)
    return d


def scan_assumptions(results):
    """mechanical scan of the contract sources that produced this run: counts of constructs that are assumptions, not proof"""
    import glob, re
    units = sorted(set(o.get("unit") for o in results if o.get("unit")))
    out = {}
    for path in glob.glob(os.path.join(CONTRACTS, "kani", "*.rs")) + glob.glob(os.path.join(CONTRACTS, "verus", "*.rs")):
        txt = read(path)
        m = re.search(r"^//@unit (\S+)", txt, re.M)
        if not m or m.group(1) not in units:
            continue
        out[m.group(1)] = {
            "kani::stub": len(re.findall(r"kani::stub\(", txt)),
            "kani::assume / vk::assume": len(re.findall(r"(?:kani|vk)::assume\(", txt)),
            "verus external_body": len(re.findall(r"external_body", txt)),
            "verus assume_specification": len(re.findall(r"assume_specification", txt)),
            "verus assume(": len(re.findall(r"\bassume\(", txt)) - len(re.findall(r"(?:kani|vk)::assume\(", txt)),
            "verus admit": len(re.findall(r"\badmit\(", txt)),
        }
    return out


def write_evidence(prop, tier, seed, results, undecided, wall, nviol):
    proved = [o for o in results if o["kind"] in ("contract", "proof", "verus")]
    bounded = [o for o in results if o["kind"] == "bounded"]
    guards = [o for o in results if o["kind"] in ("cover", "canary")]
    level = PROP_LEVEL.get(prop, "proof")
    fns = sorted(set(f.strip() for o in results for f in (o.get("fn") or "").split(",") if f.strip()))
    assumptions = list(GLOBAL_TRUSTED)
    seen = set()
    for o in results:
        for a in o.get("assumptions", []):
            if a not in seen:
                seen.add(a)
                assumptions.append(a)

    def brief(o):
        b = {k: o.get(k) for k in ("id", "fn", "backend", "status", "checks", "time_s", "bound", "profile") if o.get(k) not in (None, "")}
        if o.get("reason"):
            b["reason"] = o["reason"][:400]
        return b

    n_all = len(proved) + len(bounded)
    n_ok = len([o for o in proved + bounded if o["status"] in ("discharged",)])
    cov = {
        "obligations": len(proved),
        "discharged": len([o for o in proved if o["status"] == "discharged"]),
        "bounded_obligations": len(bounded),
        "bounded_discharged": len([o for o in bounded if o["status"] == "discharged"]),
        "bounded_note": "bounded obligations are Kani runs with a stated size cap; they are NOT counted in obligations/discharged",
        "vacuity_guards": len(guards),
        "vacuity_guards_ok": len([o for o in guards if o["status"] == "guard-ok"]),
        "known_findings": [o["id"] for o in results if o["status"] == "known-finding"],
        "checker_cmd": "cd /verif && ./check %s --tier %s" % (prop, tier),
        "trusted_base": GLOBAL_TRUSTED,
        "functions_under_contract": fns,
        "solver_time_s": round(sum(float(o.get("time_s") or 0) for o in results), 1),
        "slow_obligations": [o["id"] for o in results if float(o.get("time_s") or 0) > 60],
        "samples": [brief(o) for o in (proved + bounded + guards)],
        "undecided": [{"what": w, "why": why[-400:]} for (w, why) in undecided],
        "explanation": "contract-based deductive verification: every sample is one named obligation generated from /repo's "
                       "current source (Kani contracts injected in place on a scratch copy; Verus units extracted verbatim). "
                       "`obligations` counts complete/unbounded ones only; bounded ones are listed separately with their bound.",
        # generic fallback keys (measured): evaluations = harness/units run; distinct_nontrivial = those that generated > 0 checks
        "evaluations": len(results),
        "distinct_nontrivial": len([o for o in results if (o.get("checks") or 0) > 0]),
        "rule": "one evaluation = one verifier run of one obligation; non-trivial = the verifier generated at least one check/VC for it",
    }
    cov["mechanical_scan"] = scan_assumptions(results)
    doc = {
        "property_id": prop,
        "tier": tier,
        "seed": seed,
        "level": level,
        "coverage": cov,
        "assumptions": assumptions,
        "wall_s": round(wall, 1),
        "violations": nviol,
    }
    write(os.path.join(EVIDENCE, "%s.json" % prop), json.dumps(doc, indent=1))
