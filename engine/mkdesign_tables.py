"""rewrites DESIGN.md section 14 (between the GENERATED markers) from the unit files and seeded/*/meta.json"""
import os, io, sys, contextlib
sys.path.insert(0, os.path.dirname(os.path.abspath(__file__)))
import mkledger
VERIF = os.path.dirname(os.path.dirname(os.path.abspath(__file__)))


def capture(fn):
    buf = io.StringIO()
    with contextlib.redirect_stdout(buf):
        fn()
    return buf.getvalue()


def seedtable():
    import runpy
    runpy.run_path(os.path.join(VERIF, "engine", "mkseedtable.py"), run_name="__main__")


def main():
    p = os.path.join(VERIF, "DESIGN.md")
    s = open(p).read()
    a = s.index("<!-- BEGIN GENERATED -->") + len("<!-- BEGIN GENERATED -->")
    b = s.index("<!-- END GENERATED -->")
    body = "\n\n### 14.1 Contract ledger (registered obligations)\n\n" + capture(mkledger.main) + \
           "\n### 14.2 Seeded changes and the obligation that reports each\n\n" + capture(seedtable) + "\n"
    open(p, "w").write(s[:a] + body + s[b:])


if __name__ == "__main__":
    main()
