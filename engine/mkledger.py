"""prints the contract ledger (markdown) from the unit files: what is registered, with which tool, tier and completeness"""
import os, re, glob, sys
sys.path.insert(0, os.path.dirname(os.path.abspath(__file__)))
import units as U, run_verus as V
from common import CONTRACTS


def main():
    print("| unit | tool | obligations (quick / thorough-only) | complete | bounded | functions under contract | properties |")
    print("|---|---|---|---|---|---|---|")
    for p in sorted(glob.glob(os.path.join(CONTRACTS, "kani", "*.rs"))):
        u = U.Unit(p)
        hs = [h for h in u.harnesses if h.kind in ("proof", "contract")]
        q = len([h for h in hs if h.tier == "quick"])
        t = len([h for h in hs if h.tier != "quick"])
        comp = len([h for h in hs if h.complete])
        fns = sorted(set(f.strip() for h in hs for f in h.fn.split(",") if f.strip()))
        props = sorted(set(pp for h in u.harnesses for pp in h.props))
        print("| %s | Kani | %d / %d | %d | %d | %s | %s |" % (u.uid, q, t, comp, len(hs) - comp, ", ".join("`%s`" % f for f in fns)[:400], " ".join(props)))
    for vu in V.load_units():
        txt = vu.text
        fns = re.findall(r"^//@extract .*?\bfn=(\S+)", txt, re.M)
        lem = re.findall(r"^\s*(?:pub\s+)?proof\s+fn\s+(\w+)", txt, re.M)
        props = re.search(r"^//@props (.*)$", txt, re.M)
        print("| %s | Verus | %d extracted fns + %d lemmas / 0 | all (unbounded) | 0 | %s | %s |" % (
            vu.uid, len(fns), len(lem), ", ".join("`%s`" % f for f in fns)[:400], props.group(1).replace(",", " ") if props else ""))


if __name__ == "__main__":
    main()
