"""Shared paths, small helpers. Python stdlib only."""
import os, sys, json, time, hashlib, shutil, subprocess, re

VERIF = os.path.dirname(os.path.dirname(os.path.abspath(__file__)))
REPO = os.environ.get("VERIF_REPO", "/repo")
CRATE = os.path.join(REPO, "ruzstd")
CONTRACTS = os.path.join(VERIF, "contracts")
EVIDENCE = os.environ.get("VERIF_EVIDENCE", os.path.join(VERIF, "evidence"))
REPLAYS = os.environ.get("VERIF_REPLAYS", os.path.join(VERIF, "replays"))
SCRATCH_ROOT = os.environ.get("VERIF_SCRATCH", "/tmp/verif-scratch")
GUARD = "killingspark_zstd_rs_verif"
NCPU = os.cpu_count() or 4


def log(*a):
    print(*a, file=sys.stderr, flush=True)


def sha(text):
    if isinstance(text, str):
        text = text.encode()
    return hashlib.sha256(text).hexdigest()[:16]


def read(path):
    with open(path, encoding="utf-8") as f:
        return f.read()


def write(path, text):
    os.makedirs(os.path.dirname(path), exist_ok=True)
    with open(path, "w", encoding="utf-8") as f:
        f.write(text)


def rmtree(path):
    shutil.rmtree(path, ignore_errors=True)


class Undecided(Exception):
    """Raised when the machinery cannot decide (lost anchor, tool failure...). Never an alarm."""
