"""Tiny Rust lexer utilities: enough to find function extents, loop headers and macro invocations
without being fooled by strings, chars, lifetimes and comments."""
import re


def code_mask(src):
    """returns a list `m` with m[i] == True iff src[i] is code (not inside string/char literal or comment)"""
    n = len(src)
    m = [True] * n
    i = 0
    while i < n:
        c = src[i]
        if c == "/" and i + 1 < n and src[i + 1] == "/":
            j = src.find("\n", i)
            j = n if j < 0 else j
            for k in range(i, j):
                m[k] = False
            i = j
        elif c == "/" and i + 1 < n and src[i + 1] == "*":
            depth, j = 1, i + 2
            while j < n and depth > 0:
                if src.startswith("/*", j):
                    depth += 1
                    j += 2
                elif src.startswith("*/", j):
                    depth -= 1
                    j += 2
                else:
                    j += 1
            for k in range(i, j):
                m[k] = False
            i = j
        elif c == '"' or (c in "br" and re.match(r'b?r?#*"', src[i:i + 6]) and (i == 0 or not (src[i - 1].isalnum() or src[i - 1] == "_"))):
            mm = re.match(r'(b?)(r?)(#*)"', src[i:])
            raw = mm.group(2) == "r"
            hashes = mm.group(3)
            j = i + mm.end()
            if raw:
                end = src.find('"' + hashes, j)
                j = n if end < 0 else end + 1 + len(hashes)
            else:
                while j < n and src[j] != '"':
                    j += 2 if src[j] == "\\" else 1
                j += 1
            for k in range(i, min(j, n)):
                m[k] = False
            i = j
        elif c == "'":
            # char literal or lifetime
            mm = re.match(r"'(\\.[^']*|[^\\'])'", src[i:])
            if mm:
                for k in range(i, i + mm.end()):
                    m[k] = False
                i += mm.end()
            else:
                i += 1
        else:
            i += 1
    return m


def match_close(src, mask, open_idx):
    """index of the bracket matching src[open_idx] (one of ([{ )"""
    pairs = {"(": ")", "[": "]", "{": "}"}
    o = src[open_idx]
    c = pairs[o]
    depth = 0
    for i in range(open_idx, len(src)):
        if not mask[i]:
            continue
        if src[i] == o:
            depth += 1
        elif src[i] == c:
            depth -= 1
            if depth == 0:
                return i
    raise ValueError("unbalanced %s at %d" % (o, open_idx))


def find_body_open(src, mask, start):
    """from `start` (at or after `fn`), the index of the `{` opening the body: first `{` at paren/bracket depth 0"""
    depth = 0
    i = start
    while i < len(src):
        if mask[i]:
            ch = src[i]
            if ch in "([":
                depth += 1
            elif ch in ")]":
                depth -= 1
            elif ch == "{" and depth == 0:
                return i
            elif ch == ";" and depth == 0:
                raise ValueError("function without body")
        i += 1
    raise ValueError("no body found")


def split_top_commas(s):
    """split macro argument text at top-level commas"""
    mask = code_mask(s)
    out, depth, cur = [], 0, []
    for i, ch in enumerate(s):
        if mask[i]:
            if ch in "([{":
                depth += 1
            elif ch in ")]}":
                depth -= 1
            elif ch == "," and depth == 0:
                out.append("".join(cur))
                cur = []
                continue
        cur.append(ch)
    out.append("".join(cur))
    return out


def find_loops(body, mask):
    """[(kw_index, header_end_brace_index)] for each while/for/loop keyword in textual order"""
    res = []
    for mm in re.finditer(r"\b(while|for|loop)\b", body):
        i = mm.start()
        if not mask[i]:
            continue
        # `for` in `for<'a>` (HRTB) or `impl X for Y` does not occur inside fn bodies we extract; be careful anyway
        j = mm.end()
        rest = body[j:j + 2]
        if mm.group(1) == "for" and rest.lstrip().startswith("<"):
            continue
        try:
            b = find_body_open(body, mask, j)
        except ValueError:
            continue
        res.append((i, b))
    return res
