#!/usr/bin/env python3
"""Runs the registered quick check of a seeded change's property against a scratch worktree of /repo with the change applied.
usage: seedtest.py <ID> [<ID> ...]     (IDs = directories under /verif/seeded)
Nothing in /repo is touched: a temporary git worktree is created under /tmp/seedwt and removed afterwards (VERIF_REPO points the
check at it). Evidence / replay files of these runs go to /tmp so the committed evidence is not disturbed."""
import os, sys, json, subprocess, time, re
VERIF = os.path.dirname(os.path.dirname(os.path.abspath(__file__)))
def sh(cmd, **kw):
    return subprocess.run(cmd, shell=True, stdout=subprocess.PIPE, stderr=subprocess.STDOUT, text=True, **kw)
for sid in sys.argv[1:]:
    d = os.path.join(VERIF, "seeded", sid)
    am = json.load(open(os.path.join(d, "agent_meta.json")))
    prop = am.get("property", sid)
    wt = "/tmp/seedwt/%s" % sid
    sh("git -C /repo worktree remove --force %s" % wt)
    os.makedirs("/tmp/seedwt", exist_ok=True)
    r = sh("git -C /repo worktree add -q %s HEAD && cp /repo/Cargo.lock %s/ && git -C %s apply %s/patch.diff" % (wt, wt, wt, d))
    if r.returncode != 0:
        print(sid, "cannot apply:", r.stdout[-300:]); continue
    env = dict(os.environ, VERIF_REPO=wt, VERIF_EVIDENCE="/tmp/seedwt/evidence-%s" % sid, VERIF_REPLAYS="/tmp/seedwt/replays-%s" % sid,
               VERIF_SCRATCH="/tmp/seedwt/scratch-%s" % sid)
    t0 = time.time()
    r = subprocess.run(["./check", prop, "--tier", "quick"], cwd=VERIF, env=env, stdout=subprocess.PIPE, stderr=subprocess.STDOUT, text=True)
    out = r.stdout
    failed = re.findall(r"^FAILED-OBLIGATION (\S+?):", out, re.M)
    viol = re.findall(r"^VIOLATION .*$", out, re.M)
    meta = {
        "id": sid,
        "property": prop,
        "summary": am.get("summary"),
        "needs_to_manifest": am.get("needs_to_manifest"),
        "produced_by": "independent sub-agent given only the property text and its own scratch worktree",
        "confirmed_by_me": "patch applied in a scratch worktree: unedited suite passes; demonstration fails with the change and passes without it (see demo/README.txt for the commands)",
        "check_run": "VERIF_REPO=<scratch worktree with patch.diff applied> ./check %s --tier quick" % prop,
        "check_exit": r.returncode,
        "detected": r.returncode == 1 and bool(viol),
        "failed_obligations": failed,
        "violation_lines": viol[:4],
        "replayed_natively": any("no-failing-input-found" not in v for v in viol),
        "wall_s": round(time.time() - t0),
    }
    json.dump(meta, open(os.path.join(d, "meta.json"), "w"), indent=1)
    print(sid, prop, "exit", r.returncode, "detected" if meta["detected"] else "NOT DETECTED", failed[:3], flush=True)
    sh("git -C /repo worktree remove --force %s" % wt)
    sh("rm -rf /tmp/seedwt/scratch-%s" % sid)
