"""Verus units: verbatim extraction of real functions + annotation splicing + single-file `verus` run.

Unit template = contracts/verus/<unit>.rs : ordinary Verus text, in which blocks

    //@extract file=<repo path> [impl=<Impl header substring>] fn=<name> [id=<obligation suffix>] [ret=<name>] [pub=no]
    //@spec
        requires ... ensures ...            (spliced between the signature and the body)
    //@loop <ordinal>
        invariant ... decreases ...         (spliced between the n-th loop header and its `{`)
    //@ghost after="<verbatim substring of a body line>" [nth=<k>]
        proof { ... }                       (ghost-only text inserted after that line; never executable code)
    //@ghost before="..."                  (same, before)
    //@end

are replaced by the function's text taken byte-for-byte from /repo, after the mechanical rules R-* of DESIGN.md 2.3.
Everything the extraction changes is recorded in the evidence (`extraction` list) together with a hash of the original body.
"""
import os, re, glob, json, shlex, subprocess, time
from common import *
import rustlex as L
import scratch as S


class VUnit:
    def __init__(self, path):
        self.path = path
        self.uid = None
        self.title = ""
        self.props = []
        self.tier = "quick"
        self.profile = "rel"
        self.assumes = []
        self.text = read(path)
        for ln in self.text.split("\n"):
            if ln.startswith("//@unit "):
                self.uid, _, self.title = [s.strip() for s in ln[len("//@unit "):].partition(":")]
            elif ln.startswith("//@props "):
                self.props = [p for p in ln.split()[1].split(",") if p]
            elif ln.startswith("//@tier "):
                self.tier = ln.split()[1]
            elif ln.startswith("//@profile "):
                self.profile = ln.split()[1]
            elif ln.startswith("//@assume "):
                self.assumes.append(ln[len("//@assume "):].strip())


def load_units():
    return [VUnit(p) for p in sorted(glob.glob(os.path.join(CONTRACTS, "verus", "*.rs")))]


# ---------------------------------------------------------------- extraction

def extract_fn(repo_file, fn, impl=None):
    """returns (signature_text, body_text_with_braces, start_line) verbatim from the real source"""
    path = os.path.join(REPO, repo_file)
    if not os.path.exists(path):
        raise Undecided("lost anchor: %s does not exist" % repo_file)
    src = read(path)
    lines = src.split("\n")
    li = S.find_fn_line(lines, fn, impl, repo_file)
    off = sum(len(l) + 1 for l in lines[:li])
    mask = L.code_mask(src)
    try:
        b = L.find_body_open(src, mask, off)
        e = L.match_close(src, mask, b)
    except ValueError as ex:
        raise Undecided("cannot delimit fn %s in %s: %s" % (fn, repo_file, ex))
    return src[off:b], src[b:e + 1], li + 1


def strip_macro_calls(body, name, replace):
    """replace every `name!( ... )` [optionally followed by `;`] using replace(args_text, had_semicolon) -> text"""
    out = []
    i = 0
    mask = L.code_mask(body)
    pat = re.compile(r"\b%s!\s*([(\[{])" % re.escape(name))
    while True:
        m = pat.search(body, i)
        if not m:
            out.append(body[i:])
            break
        if not mask[m.start()]:
            out.append(body[i:m.end()])
            i = m.end()
            continue
        o = m.end() - 1
        c = L.match_close(body, mask, o)
        args = body[o + 1:c]
        j = c + 1
        semi = False
        k = j
        while k < len(body) and body[k] in " \t":
            k += 1
        if k < len(body) and body[k] == ";":
            semi = True
            j = k + 1
        out.append(body[i:m.start()])
        out.append(replace(args, semi))
        i = j
    return "".join(out)


def strip_cfg_debug(body, profile, log_rules):
    """R-cfgdbg: `#[cfg(debug_assertions)] <stmt | block | field-init>` is compiled out of release builds -> removed in the rel profile"""
    tag = "#[cfg(debug_assertions)]"
    if profile == "dbg" or tag not in body:
        return body
    out = []
    i = 0
    while True:
        mask = L.code_mask(body)
        k = body.find(tag, i)
        while k >= 0 and not mask[k]:
            k = body.find(tag, k + 1)
        if k < 0:
            break
        j = k + len(tag)
        while j < len(body) and body[j].isspace():
            j += 1
        if body[j] == "{":
            e = L.match_close(body, mask, j) + 1
        else:
            depth = 0
            e = j
            while e < len(body):
                c = body[e]
                if mask[e]:
                    if c in "([{":
                        depth += 1
                    elif c in ")]}":
                        if depth == 0:
                            break
                        depth -= 1
                    elif c in ";," and depth == 0:
                        e += 1
                        break
                e += 1
        log_rules.add("R-cfgdbg `#[cfg(debug_assertions)]` item removed (rel profile: compiled out of release builds)")
        body = body[:k] + body[e:]
        i = k
    return body


def for_continue_to_while(body, log_rules):
    """R-forcontinue: Verus rejects `continue` inside `for`. A `for X in A..B { .. continue; .. }` whose own body (not a nested loop)
    contains `continue` becomes `let verif_end_X = B; let mut X = A; while X < verif_end_X { .. { X += 1; continue; } .. X += 1; }`
    (same iteration order, the end bound is still evaluated once)."""
    changed = True
    while changed:
        changed = False
        mask = L.code_mask(body)
        loops = L.find_loops(body, mask)
        for (kw, bopen) in loops:
            if not body.startswith("for", kw):
                continue
            hdr = body[kw:bopen]
            m = re.match(r"for\s+(\w+)\s+in\s+(.+?)\.\.(.+?)\s*$", hdr, re.S)
            if not m or m.group(3).startswith("="):
                continue
            var, lo, hi = m.group(1), m.group(2).strip(), m.group(3).strip()
            bclose = L.match_close(body, mask, bopen)
            # nested loop ranges inside this body
            nested = [(k2, L.match_close(body, mask, b2)) for (k2, b2) in loops if bopen < k2 < bclose]
            conts = [mm.start() for mm in re.finditer(r"\bcontinue\s*;", body[bopen:bclose])]
            conts = [bopen + c for c in conts if mask[bopen + c] and not any(a <= bopen + c <= b for (a, b) in nested)]
            if not conts:
                continue
            inner = body[bopen + 1:bclose]
            # replace from the back so indices stay valid
            for c in reversed(conts):
                rel = c - (bopen + 1)
                mm = re.match(r"continue\s*;", inner[rel:])
                inner = inner[:rel] + "{ %s += 1; continue; }" % var + inner[rel + mm.end():]
            new = ("let verif_end_%s: usize = %s;\n        let mut %s: usize = %s;\n        while %s < verif_end_%s {%s    %s += 1;\n        }"
                   % (var, hi, var, lo, var, var, inner, var))
            body = body[:kw] + new + body[bclose + 1:]
            log_rules.add("R-forcontinue `for X in A..B` containing `continue` -> equivalent `while` with explicit increment (end bound evaluated once)")
            changed = True
            break
    return body


def enumerate_to_index(body, log_rules):
    """R-enumerate: `for (I, X) in E.iter().enumerate() {` -> `for I in 0..E.len() { let X = &E[I];` (Verus has no spec for Enumerate);
    same elements in the same order; E must not be modified in the loop body (Rust's borrow rules already guarantee that for the original)."""
    pat = re.compile(r"for\s*\(\s*(\w+)\s*,\s*(\w+)\s*\)\s*in\s+([\w\.]+)\.iter\(\)\.enumerate\(\)\s*\{")
    def sub(m):
        log_rules.add("R-enumerate `for (i, x) in e.iter().enumerate()` -> `for i in 0..e.len() { let x = &e[i]; ..` (Verus has no spec for Enumerate)")
        return "for %s in 0..%s.len() { let %s = &%s[%s];" % (m.group(1), m.group(3), m.group(2), m.group(3), m.group(1))
    return pat.sub(sub, body)


def eta_expand_constructors(body, log_rules):
    """R-eta: `.map_err(Path::Variant)` -> `.map_err(|verif_e| Path::Variant(verif_e))` (Verus does not support a datatype constructor used
    as a function value; the eta-expansion is the same function)"""
    pat = re.compile(r"\.map_err\(((?:\w+::)+[A-Z]\w*)\)")
    def sub(m):
        log_rules.add("R-eta `.map_err(Path::Variant)` -> `.map_err(|e| Path::Variant(e))` (eta-expansion; constructors as function values are unsupported)")
        return ".map_err(|verif_e| %s(verif_e))" % m.group(1)
    return pat.sub(sub, body)


FEATURES_RULE = [False]            # set per unit by the directive `//@features default` (see render)
FEATURES_ON = ("std", "hash")     # the default feature set of the crate; the no_std / no-hash builds are Kani unit IO1 / E5's business


def strip_cfg_features(body, log_rules):
    """R-cfgfeat: `#[cfg(feature = "std")] <item>` is kept (attribute dropped), `#[cfg(not(feature = "std"))] <item>` is removed - the
    default feature set (std, hash) is what the Verus units verify"""
    for feat in FEATURES_ON:
        on = '#[cfg(feature = "%s")]' % feat
        off = '#[cfg(not(feature = "%s"))]' % feat
        while on in body:
            k = body.find(on)
            j = k + len(on)
            while j < len(body) and body[j].isspace():
                j += 1
            # a bare block right after a loop body confuses Verus' loop syntax: separate it with a unit statement
            body = body[:k] + ("();" if j < len(body) and body[j] == "{" else "") + body[k + len(on):]
            log_rules.add("R-cfgfeat `#[cfg(feature = \"%s\")]` item kept (default features)" % feat)
        while off in body:
            mask = L.code_mask(body)
            k = body.find(off)
            j = k + len(off)
            while j < len(body) and body[j].isspace():
                j += 1
            if body[j] == "{":
                e = L.match_close(body, mask, j) + 1
            else:
                depth = 0
                e = j
                while e < len(body):
                    c = body[e]
                    if mask[e]:
                        if c in "([{":
                            depth += 1
                        elif c in ")]}":
                            if depth == 0:
                                break
                            depth -= 1
                        elif c in ";," and depth == 0:
                            e += 1
                            break
                    e += 1
            body = body[:k] + body[e:]
            log_rules.add("R-cfgfeat `#[cfg(not(feature = \"%s\"))]` item removed (default features)" % feat)
    return body


def rev_range_to_while(body, log_rules):
    """R-rev: `for X in (A..=B).rev() {` -> descending `while` (Verus has no spec for Rev<RangeInclusive>):
    `let verif_lo_X: usize = A; let mut verif_next_X: usize = (B) + 1; while verif_next_X > verif_lo_X { verif_next_X -= 1; let X = verif_next_X; ..`
    same values in the same (descending) order; A and B are evaluated once, as in the original"""
    pat = re.compile(r"for\s+(\w+)\s+in\s+\(([^()]*(?:\([^()]*\)[^()]*)*)\.\.=([^()]*(?:\([^()]*\)[^()]*)*)\)\.rev\(\)\s*\{")
    def sub(m):
        x, a, b = m.group(1), m.group(2).strip(), m.group(3).strip()
        log_rules.add("R-rev `for x in (a..=b).rev()` -> equivalent descending `while` (Verus has no spec for Rev<RangeInclusive>)")
        return ("let verif_lo_%s: usize = %s; let mut verif_next_%s: usize = (%s) + 1;\n        while verif_next_%s > verif_lo_%s { verif_next_%s -= 1; let %s = verif_next_%s;"
                % (x, a, x, b, x, x, x, x, x))
    return pat.sub(sub, body)


def apply_rules(body, profile, log_rules):
    ctr = [0]
    body = strip_cfg_debug(body, profile, log_rules)
    body = rev_range_to_while(body, log_rules)
    if FEATURES_RULE[0]:
        body = strip_cfg_features(body, log_rules)
    body = eta_expand_constructors(body, log_rules)
    body = enumerate_to_index(body, log_rules)
    body = for_continue_to_while(body, log_rules)

    def rm(args, semi):
        log_rules.add("R-mac0 vprintln! removed")
        return ""
    body = strip_macro_calls(body, "vprintln", rm)

    def as_assert(args, semi):
        cond = L.split_top_commas(args)[0].strip()
        log_rules.add("R-assert assert!(c, ..) -> { let b = c; assert(b) } (condition still evaluated in exec mode; the panic site becomes a proof obligation)")
        ctr[0] += 1
        if not semi:
            return "{ let verif_assert_cond: bool = %s; assert(verif_assert_cond); }" % cond
        return "let verif_assert_cond_%d: bool = %s; assert(verif_assert_cond_%d);" % (ctr[0], cond, ctr[0])
    body = strip_macro_calls(body, "assert", as_assert)

    def as_assert_eq(args, semi):
        a = L.split_top_commas(args)
        log_rules.add("R-assert assert_eq!(a, b, ..) -> { let b = a == b; assert(b) }")
        ctr[0] += 1
        if not semi:
            return "{ let verif_assert_cond: bool = (%s) == (%s); assert(verif_assert_cond); }" % (a[0].strip(), a[1].strip())
        return "let verif_assert_cond_%d: bool = (%s) == (%s); assert(verif_assert_cond_%d);" % (ctr[0], a[0].strip(), a[1].strip(), ctr[0])
    body = strip_macro_calls(body, "assert_eq", as_assert_eq)

    def dbg(args, semi):
        if profile == "dbg":
            cond = L.split_top_commas(args)[0].strip()
            log_rules.add("R-assert debug_assert!(c) -> assert(c) (dbg profile)")
            return "assert(%s)%s" % (cond, ";" if semi else "")
        log_rules.add("R-assert debug_assert!(..) removed (rel profile: compiled out in release builds)")
        return ""
    body = strip_macro_calls(body, "debug_assert", dbg)

    def dbg_eq(args, semi):
        if profile == "dbg":
            a = L.split_top_commas(args)
            return "assert((%s) == (%s))%s" % (a[0].strip(), a[1].strip(), ";" if semi else "")
        log_rules.add("R-assert debug_assert_eq!(..) removed (rel profile)")
        return ""
    body = strip_macro_calls(body, "debug_assert_eq", dbg_eq)

    def pan(args, semi):
        log_rules.add("R-panic panic!/unreachable!/unimplemented! -> vpanic() (requires false)")
        return "vpanic()%s" % (";" if semi else "")
    for mname in ("panic", "unreachable", "unimplemented"):
        body = strip_macro_calls(body, mname, pan)
    return body


def splice(sig, body, spec, loops, ghosts, ret, make_pub, rules):
    # signature: name the return value (Verus needs it to be mentioned in `ensures`)
    sig2 = sig.rstrip()
    m = re.search(r"->\s*(.+)$", sig2, re.S)
    if m and ret:
        rty = m.group(1).strip()
        where = ""
        wm = re.search(r"\bwhere\b", rty)
        if wm:
            where = " " + rty[wm.start():]
            rty = rty[:wm.start()].strip()
        sig2 = sig2[:m.start()] + "-> (%s: %s)%s" % (ret, rty, where)
        rules.add("R-ret return value named in the signature")
    if make_pub and not re.match(r"\s*pub\b", sig2):
        sig2 = re.sub(r"^(\s*)", r"\1pub ", sig2, count=1)
        rules.add("R-vis extracted fn made pub")
    # loops, ghosts: operate on body text
    mask = L.code_mask(body)
    inserts = []  # (index, text)
    if loops:
        found = L.find_loops(body, mask)
        for (ordinal, text) in loops:
            if ordinal < 1 or ordinal > len(found):
                raise Undecided("lost anchor: loop #%d not found (function has %d loops)" % (ordinal, len(found)))
            inserts.append((found[ordinal - 1][1], "\n" + text.rstrip("\n") + "\n"))
        if len(found) != max(o for o, _ in loops) and any(o > len(found) for o, _ in loops):
            raise Undecided("loop count changed")
    for (where, needle, nth, text) in ghosts:
        if where in ("inloop", "endloop"):
            found = L.find_loops(body, mask)
            o = int(needle)
            if o < 1 or o > len(found):
                raise Undecided("lost anchor: loop #%d not found for %s ghost" % (o, where))
            if where == "inloop":
                inserts.append((found[o - 1][1] + 1, "\n" + text.rstrip("\n") + "\n"))
            else:
                e = L.match_close(body, mask, found[o - 1][1])
                inserts.append((e, "\n" + text.rstrip("\n") + "\n"))
            continue
        if where == "afterloop":
            found = L.find_loops(body, mask)
            o = int(needle)
            if o < 1 or o > len(found):
                raise Undecided("lost anchor: loop #%d not found for afterloop ghost" % o)
            e = L.match_close(body, mask, found[o - 1][1])
            inserts.append((e + 1, "\n" + text.rstrip("\n")))
            continue
        if where == "at":
            if needle == "end":
                # before a trailing expression there is no safe spot; `end` means: after the last statement (body must end with `;` or `}`)
                e = body.rstrip().rfind("}")
                inserts.append((e, text.rstrip("\n") + "\n"))
            elif needle == "start":
                inserts.append((body.find("{") + 1, "\n" + text.rstrip("\n")))
            else:
                raise Undecided("bad ghost position %r" % needle)
            continue
        idxs = [mm.start() for mm in re.finditer(re.escape(needle), body)]
        if len(idxs) < nth:
            raise Undecided("lost anchor: ghost anchor %r (occurrence %d) not found" % (needle, nth))
        at = idxs[nth - 1]
        if where == "after":
            e = body.find("\n", at)
            e = len(body) if e < 0 else e
            inserts.append((e, "\n" + text.rstrip("\n")))
        else:
            s = body.rfind("\n", 0, at)
            inserts.append((s + 1, text.rstrip("\n") + "\n"))
    for (idx, text) in sorted(inserts, key=lambda t: -t[0]):
        body = body[:idx] + text + body[idx:]
    spec_txt = ("\n" + spec.rstrip("\n") + "\n") if spec.strip() else "\n"
    return sig2 + spec_txt + body


def expand_includes(text):
    out = []
    for ln in text.split("\n"):
        if ln.startswith("//@include "):
            inc = os.path.join(CONTRACTS, "verus", "include", ln.split()[1])
            out.extend(expand_includes(read(inc)).split("\n"))
        else:
            out.append(ln)
    return "\n".join(out)


REACH = False   # when True, render() plants `assert(false)` at the start of every extracted function (reachability / vacuity guard)


def render(vu):
    """returns (generated_text, fn_ranges [(first_line, last_line, obligation_id, kind)], extraction_log)"""
    FEATURES_RULE[0] = bool(re.search(r"^//@features default", vu.text, re.M))
    lines = expand_includes(vu.text).split("\n")
    out = []
    ranges = []
    exlog = []
    i = 0
    while i < len(lines):
        ln = lines[i]
        if ln.startswith("//@extract "):
            kv = dict(tok.split("=", 1) for tok in shlex.split(ln)[1:])
            spec, loops, ghosts = "", [], []
            cur, cur_meta = None, None
            buf = []
            i += 1

            def flush():
                nonlocal spec
                t = "\n".join(buf)
                if cur == "spec":
                    spec = t
                elif cur == "loop":
                    loops.append((cur_meta, t))
                elif cur == "ghost":
                    ghosts.append(cur_meta + (t,))
            while not lines[i].startswith("//@end"):
                l2 = lines[i]
                if l2.startswith("//@spec"):
                    flush(); buf = []; cur = "spec"
                elif l2.startswith("//@loop "):
                    flush(); buf = []; cur = "loop"; cur_meta = int(l2.split()[1])
                elif l2.startswith("//@ghost "):
                    flush(); buf = []; cur = "ghost"
                    g = dict(tok.split("=", 1) for tok in shlex.split(l2)[1:])
                    where = next(w for w in ("after", "before", "afterloop", "inloop", "endloop", "at") if w in g)
                    cur_meta = (where, g[where], int(g.get("nth", "1")))
                else:
                    buf.append(l2)
                i += 1
            flush()
            if REACH:
                ghosts = list(ghosts) + [("at", "start", 1, "        proof { assert(false); } // verif-reach: must FAIL (a pass means the precondition is unsatisfiable)")]
            sig, body, line = extract_fn(kv["file"], kv["fn"], kv.get("impl"))
            rules = set()
            body2 = apply_rules(body, vu.profile, rules)
            for (a, b) in [tuple(r.replace("\\n", "\n").split("=>", 1)) for r in kv.get("rewrite", "").split("||") if "=>" in r]:
                if a not in body2:
                    raise Undecided("lost anchor: rewrite source %r not found in %s" % (a, kv["fn"]))
                body2 = body2.replace(a, b)
                rules.add("R-rewrite %r -> %r" % (a, b))
            for (a, b) in [tuple(r.split("=>", 1)) for r in kv.get("sigrewrite", "").split("||") if "=>" in r]:
                if a not in sig:
                    raise Undecided("lost anchor: signature rewrite source %r not found in %s" % (a, kv["fn"]))
                sig = sig.replace(a, b)
                rules.add("R-sig %r -> %r" % (a, b))
            text = splice(sig, body2, spec, loops, ghosts, kv.get("ret", "r"), kv.get("pub", "yes") == "yes", rules)
            first = len(out) + 1
            out.extend(text.split("\n"))
            last = len(out)
            impl_name = ""
            if kv.get("impl"):
                ids = re.findall(r"[A-Za-z_][A-Za-z0-9_]*", kv["impl"])
                ids = [x for x in ids if x not in ("impl", "for")]
                impl_name = (ids[-1] + "::") if ids else ""
            oid = "%s.%s" % (vu.uid, kv.get("id", impl_name + kv["fn"]))
            ranges.append((first, last, oid, "extracted", (kv.get("impl", "") + "::" if kv.get("impl") else "") + kv["fn"]))
            exlog.append({"fn": kv["fn"], "file": kv["file"], "line": line, "body_sha": sha(body), "rules": sorted(rules)})
        elif ln.startswith("//@struct-check "):
            kv = dict(tok.split("=", 1) for tok in shlex.split(ln)[1:])
            check_struct(kv["file"], kv["name"], [f.strip() for f in kv["fields"].split("|") if f.strip()])
            exlog.append({"struct": kv["name"], "file": kv["file"], "fields_checked": kv["fields"]})
        elif ln.startswith("//@const-check "):
            kv = dict(tok.split("=", 1) for tok in shlex.split(ln)[1:])
            src = read(os.path.join(REPO, kv["file"]))
            kv["text"] = kv["text"].replace("\\n", "\n")
            if kv["text"] not in src:
                raise Undecided("lost anchor: %r not found in %s" % (kv["text"], kv["file"]))
            exlog.append({"const": kv["text"], "file": kv["file"]})
        elif ln.startswith("//@"):
            pass
        else:
            out.append(ln)
        i += 1
    text = "\n".join(out)
    # lemma / helper proof fns in the template are obligations too
    for mm in re.finditer(r"^\s*(?:pub\s+)?(?:broadcast\s+)?proof\s+fn\s+(\w+)", text, re.M):
        first = text.count("\n", 0, mm.start()) + 1
        mask = L.code_mask(text)
        try:
            b = L.find_body_open(text, mask, mm.end())
            e = L.match_close(text, mask, b)
            last = text.count("\n", 0, e) + 1
        except ValueError:
            continue
        ranges.append((first, last, "%s.%s" % (vu.uid, mm.group(1)), "lemma", mm.group(1)))
    return text, ranges, exlog


def check_struct(repo_file, name, fields):
    src = read(os.path.join(REPO, repo_file))
    m = re.search(r"\bstruct\s+%s\b[^{;]*\{" % re.escape(name), src)
    if not m:
        raise Undecided("lost anchor: struct %s not found in %s" % (name, repo_file))
    mask = L.code_mask(src)
    e = L.match_close(src, mask, m.end() - 1)
    body = src[m.end():e]
    for f in fields:
        fname, _, fty = [x.strip() for x in f.partition(":")]
        if not re.search(r"\b%s\s*:\s*%s\s*," % (re.escape(fname), re.escape(fty)), body):
            raise Undecided("struct %s: field `%s` no longer declared as in the Verus unit" % (name, f))


# ---------------------------------------------------------------- running

ERR_KINDS = [
    ("postcondition not satisfied", "postcondition"),
    ("precondition not satisfied", "precondition"),
    ("assertion failed", "assertion"),
    ("possible arithmetic underflow/overflow", "overflow"),
    ("possible division by zero", "div0"),
    ("invariant not satisfied", "invariant"),
    ("decreases not satisfied", "decreases"),
    ("possible bit shift underflow/overflow", "shift"),
    ("failed this postcondition", "postcondition"),
    ("unable to prove", "assertion"),
]


def run_verus_file(path, rlimit=None, timeout=900):
    cmd = ["verus", path, "--output-json", "--time", "--num-threads", str(min(NCPU, 8))]
    if rlimit:
        cmd += ["--rlimit", str(rlimit)]
    t0 = time.time()
    try:
        p = subprocess.run(cmd, stdout=subprocess.PIPE, stderr=subprocess.PIPE, text=True, timeout=timeout,
                           cwd=os.path.dirname(path))
    except subprocess.TimeoutExpired:
        return None, "", "timeout", time.time() - t0
    js = None
    try:
        js = json.loads(p.stdout[p.stdout.index("{"):])
    except Exception:
        js = None
    return js, p.stdout, p.stderr, time.time() - t0


def parse_errors(stderr, fname):
    """[(kind, line, message)] for verification errors; second list = hard (compile/VIR) errors"""
    verr, hard = [], []
    blocks = re.split(r"\n(?=error|warning|note: )", "\n" + stderr)
    for b in blocks:
        b = b.strip("\n")
        if not b.startswith("error"):
            continue
        head = b.split("\n")[0]
        if head.startswith("error: aborting due to") or "verification results::" in head:
            continue
        locs = re.findall(r"--> [^\n:]*%s:(\d+):(\d+)" % re.escape(os.path.basename(fname)), b)
        locs += re.findall(r"::: [^\n:]*%s:(\d+):(\d+)" % re.escape(os.path.basename(fname)), b)
        kind = None
        for (needle, k) in ERR_KINDS:
            if needle in head:
                kind = k
                break
        if "rlimit" in b.lower() or "resource limit" in b.lower():
            kind = "rlimit"
        line = int(locs[0][0]) if locs else 0
        alll = [int(l) for l, _ in locs]
        if kind:
            verr.append((kind, line, alll, b[:1500]))
        else:
            hard.append(b[:1500])
    return verr, hard


def run_unit(vu, scratch_dir, prop):
    t0 = time.time()
    res = []

    def mk(oid, kind, fn, status, **kw):
        d = {"id": oid, "unit": vu.uid, "harness": oid, "kind": "verus", "declared_kind": kind, "backend": "verus/z3", "fn": fn,
             "status": status, "complete": True, "bound": "", "profile": vu.profile, "features": "default", "witness": "",
             "assumptions": ["[%s] %s" % (vu.uid, a) for a in vu.assumes]}
        d.update(kw)
        return d
    try:
        text, ranges, exlog = render(vu)
    except Undecided as e:
        return [mk(vu.uid + ".*", "extracted", "", "undecided", reason=str(e))]
    # vacuity / plumbing canary: a deliberately false lemma that Verus must reject in this very file
    marker = "} // verus!"
    if marker in text:
        cut = text.rindex(marker)
        first = text.count("\n", 0, cut) + 1
        canary = "pub proof fn verif_canary_must_fail(x: int)\n    requires x > 0,\n    ensures x > 1,\n{\n}\n"
        text = text[:cut] + canary + text[cut:]
        ranges.append((first, first + 4, vu.uid + ".<canary>", "canary", "verif_canary_must_fail"))
    os.makedirs(scratch_dir, exist_ok=True)
    path = os.path.join(scratch_dir, "%s.rs" % vu.uid.lower())
    write(path, text)
    gen_dir = os.path.join(EVIDENCE, "generated")
    os.makedirs(gen_dir, exist_ok=True)
    write(os.path.join(gen_dir, "%s.rs" % vu.uid.lower()), text)
    m_rl = re.search(r"^//@rlimit (\d+)", vu.text, re.M)
    unit_rlimit = int(m_rl.group(1)) if m_rl else None
    js, out, err, wall = run_verus_file(path, rlimit=unit_rlimit)
    if err == "timeout":
        return [mk(r[2], r[3], r[4], "undecided", reason="verus timeout") for r in ranges]
    verr, hard = parse_errors(err, path)
    if any(k == "rlimit" for k, _, _, _ in verr):
        js, out, err, wall2 = run_verus_file(path, rlimit=max(60, 3 * (unit_rlimit or 0)))
        wall += wall2
        verr, hard = parse_errors(err, path)
    vr = (js or {}).get("verification-results", {})
    if js is None or hard or vr.get("encountered-vir-error"):
        why = (hard[0] if hard else err[-1500:]) or "verus produced no result"
        return [mk(r[2], r[3], r[4], "undecided", reason="verus could not process the unit: " + why) for r in ranges]
    n_verified = vr.get("verified", 0)
    # attribute errors to functions
    bad = {}
    for (kind, line, alll, msg) in verr:
        owner = None
        for cand in [line] + alll:
            for (a, b, oid, k, fn) in ranges:
                if a <= cand <= b:
                    owner = oid
                    break
            if owner:
                break
        bad.setdefault(owner or (vu.uid + ".<template>"), []).append((kind, line, msg))
    smt = (js.get("times-ms", {}) or {}).get("smt", {}).get("total", 0) / 1000.0 if js else 0
    for (a, b, oid, k, fn) in ranges:
        if k == "canary":
            if oid in bad:
                g = mk(oid, k, fn, "guard-ok", checks=1)
            else:
                g = mk(oid, k, fn, "undecided", reason="the deliberately false canary lemma was NOT rejected by Verus")
            g["kind"] = "canary"
            res.append(g)
            continue
        if oid in bad:
            kinds = bad[oid]
            if all(kk == "rlimit" for kk, _, _ in kinds):
                res.append(mk(oid, k, fn, "undecided", reason="rlimit exceeded (solver instability, not a refutation)"))
            else:
                kk, line, msg = [x for x in kinds if x[0] != "rlimit"][0]
                tl = text.split("\n")
                gl = tl[line - 1].strip() if 0 < line <= len(tl) else ""
                if len(gl) < 24:       # e.g. `({` : show the beginning of the clause that follows
                    gl = " ".join(x.strip() for x in tl[line - 1:line + 3])
                res.append(mk(oid, k, fn, "violation", checks=1, time_s=round(wall, 2), has_input=False,
                              reason="Verus: %s at generated line %d: `%s`" % (kk, line, gl[:160]), verifier_output=msg))
        else:
            res.append(mk(oid, k, fn, "discharged", checks=1, time_s=round(wall / max(1, len(ranges)), 2)))
    if (vu.uid + ".<template>") in bad:
        kk, line, msg = bad[vu.uid + ".<template>"][0]
        res.append(mk(vu.uid + ".<template>", "lemma", "", "undecided", reason="verification error outside any tracked function: " + msg[:400]))
    # vacuity guard: verus must have verified at least as many items as we track
    if not [o for o in bad if not o.endswith(".<canary>")] and n_verified < len(ranges) - 1:
        res.append(mk(vu.uid + ".<count>", "lemma", "", "undecided", reason="verus verified %d items, expected >= %d" % (n_verified, len(ranges))))
    # reachability guard behind every precondition: with `assert(false)` planted at the start of each extracted function, Verus must
    # report that assertion for EVERY one of them; a function where it passes has a contradictory `requires` (everything after it
    # would verify vacuously)
    if not bad or all(o.endswith(".<canary>") for o in bad):
        global REACH
        try:
            REACH = True
            rtext, rranges, _ = render(vu)
        except Undecided:
            rtext = None
        finally:
            REACH = False
        if rtext is not None:
            rpath = os.path.join(scratch_dir, "%s_reach.rs" % vu.uid.lower())
            write(rpath, rtext)
            rjs, rout, rerr, rwall = run_verus_file(rpath, rlimit=unit_rlimit)
            rverr, rhard = parse_errors(rerr if rerr != "timeout" else "", rpath)
            rlines = rtext.split("\n")
            hit = set()
            for (kind, line, alll, msg) in rverr:
                for cand in [line] + alll:
                    if 0 < cand <= len(rlines) and "verif-reach" in rlines[cand - 1]:
                        for (a, b, oid, k, fn) in rranges:
                            if a <= cand <= b:
                                hit.add(oid)
            ext = [r for r in rranges if r[3] == "extracted"]
            missing = [r[2] for r in ext if r[2] not in hit]
            if rerr == "timeout" or rhard or rjs is None:
                g = mk(vu.uid + ".<reach>", "cover", "", "undecided", reason="reachability variant could not be processed by verus: %s" % ((rhard or [rerr[-300:]])[0]))
            elif missing:
                g = mk(vu.uid + ".<reach>", "cover", "", "undecided", reason="precondition unsatisfiable (planted assert(false) was NOT refuted) in: " + ", ".join(missing))
            else:
                g = mk(vu.uid + ".<reach>", "cover", "", "guard-ok", checks=len(ext), time_s=round(rwall, 2))
            g["kind"] = "cover"
            res.append(g)
    for r in res:
        r["extraction"] = exlog
        r["verus_verified_items"] = n_verified
    return res
