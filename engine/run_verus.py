"""Verus units: verbatim extraction + annotation splicing + single-file verus run. (filled in below)"""
def load_units():
    return []
def run_unit(vu, scratch, prop):
    return []
