#!/usr/bin/env python3
"""Regenerates /verif/MANIFEST.json from the table below (so it stays valid and in sync with evidence.PROP_LEVEL)."""
import json, os, sys
sys.path.insert(0, os.path.dirname(os.path.abspath(__file__)))
from common import VERIF
import evidence as E

TECH = "contract-based deductive verification: Kani function contracts/harnesses injected in place + Verus on verbatim-extracted functions"
NOTE = ("Trusted: rustc, Kani->CBMC translation, CBMC/SAT, Verus/Z3/vstd, the RFC 8878 transcription in contracts/spec/, std/alloc "
        "behaviour, x86_64 target. Contract stubs / external_body contracts are assumptions unless the obligation that discharges "
        "them is listed green in the same evidence file. Bounded obligations are listed separately and never counted as proved.")

# property -> (category, text, design_ref) ; only properties listed here are claimed
CLAIMED = {
    "C01": ("proof", "Partial, per stage: every stage of the decode path carries a machine-checked contract on the real code - headers and code tables "
            "against RFC-transcribed specs over their whole domains (Kani: H1 H2 H3 H5 H6 H7 S1 S2 F1 F2c HU2), and unbounded Verus proofs on verbatim bodies "
            "for the loop-carrying stages (BRR1 bit reader, F3 table description reader, Q1/Q2 table selection and sequence decoding, L1 literals, Q3 sequence "
            "execution = RFC interleaving of literal runs and overlapping match copies with the repeat-offset machine, D0 match copy, B2 block slicing). "
            "FSE table construction (F2) and Huffman table construction (HU1V/HU2V) are proved in Verus for all inputs. "
            "The composition of the stages into 'decode(frame) == original' is argued in DESIGN.md, not machine-checked.", "DESIGN.md 4 C01, Part II"),
    "C02": ("proof", "Inverse pairs as two-contract lemmas on the real encoder/decoder functions (S1 value<->code, H1' block header, H6' sequence count, H7' modes byte, "
            "E3 frame header, E8 literals-header widths), block decision logic (E4) and frame structure incl. reuse and read fragmentation (E5, bounded sizes), "
            "ES1 (Verus, unbounded, verbatim encode_sequences): the fields handed to the bit writer are exactly the RFC 3.1.1.3.2.1 reading order reversed (initial states, "
            "extra bits, state updates) plus the padding marker, with each FSE transition taken from the next sequence's state; HU5 (Verus): encode4x split / jump table; "
            "matcher truthfulness (E7V, Verus, unbounded: every reported sequence is a true in-window match and the sequences tile the block), BW1 (Kani, complete over "
            "pending-word states: the BitWriter appends exactly the low bits, LSB first; change_bits/flush/dump keep every other bit). "
            "Whole-pipeline 'decode(compress(x)) == x' is not claimed; libzstd is not consulted.", "DESIGN.md 4 C02"),
    "C03": ("proof", "Every panic site on the decode path is a proof obligation: Verus (verbatim bodies, all input sizes) proves absence of index, overflow, shift, "
            "slice and explicit panics plus termination for BRR1, F3, Q1/Q2, Q3, L1, B2, D0, R1; Kani proves the parsers total over their whole input domains "
            "(H1 H2 H5 H6) and the raw-pointer ring buffer memory-safe from arbitrary invariant states at fixed capacities (R2 R3 R4). Callee preconditions are "
            "discharged at call sites by construction (contract stubs / external_body). FSE / Huffman table construction: F2, HU1V, HU2V (Verus, all inputs). FD6 (Kani, bounded lengths): the dictionary parser is total whatever the table parsers report; SD1 (Kani, bounded): streaming front end.", "DESIGN.md 4 C03"),
    "C04": ("proof", "Four layers on the real code: R1 (Verus, verbatim bodies, ALL capacities) position arithmetic and drop-front queue semantics; "
                     "R2 (Kani, real raw pointers, one step from an ARBITRARY invariant state, hence all operation histories) queue semantics, "
                     "invariant and in-allocation accesses for every operation at fixed capacities; R3/R4 (Kani) the over-copying primitive stays "
                     "inside the regions it is given and every call site gives it regions inside initialised data / free space; D0 (Verus, all sizes) "
                     "the callers establish the unsafe preconditions and the overlapping match copy equals the RFC byte-at-a-time copy. "
                     "R2/R3/R4 are bounded in capacity / region size and listed as bounded.", "DESIGN.md 3.5, 4 C04"),
    "C05": ("proof", "Q3 (Verus, verbatim execute_sequences, all sequence lists): on EVERY path a block appends at most 128 KiB (rejected before being expanded), no "
                     "counter overflow; B2 (Verus): literals header capped, no-sequence path bounded; H1 (Kani, all 2^24 headers): raw/RLE blocks <= 128 KiB; "
                     "FD1V (Verus, verbatim decode_blocks, every source / block count / strategy): with UptoBytes(n) the buffer grows by less than n + one maximum block "
                     "per call, at least one block per call; SD1: the streaming front end asks for at most the missing amount; D2: window drains keep min(len, window); "
                     "H4: window <= limit before the window reservation. The arithmetic composition is in DESIGN.md.", "DESIGN.md 4 C05"),
    "C06": ("other", "BOUNDED contract checking on the real code, not a proof for all sizes (hence category 'other'): D1/D2 (Kani, real ring buffer at fixed capacities, arbitrary invariant start state, symbolic sink behaviour incl. partial acceptance and errors): "
            "every drain path hands out a prefix of the queue in order, removes exactly the accepted bytes (also on the error path) and hashes exactly those; "
            "FD1V (Verus, unbounded, verbatim decode_blocks / decode_from_to): blocks strictly in order, exact byte accounting, the strategy only decides when to return, "
            "the slice-to-slice call never reports more than it was given and decodes a block only when it is entirely present; FD3V (Verus, unbounded): decode_all and StreamingDecoder::read on their verbatim bodies (a short read only when the frame is finished, Ok(0) only when finished and "
            "drained, at most the missing amount is requested from decode_blocks); FD7 accessors; Q3/D0 (Verus): decoding "
            "reads the window only at distance <= offset; SD1 (Kani, bounded script): StreamingDecoder::read serves min(request, available), short reads only at the end "
            "of the frame, asks for at most the missing amount. Schedule independence of the complete output is the composition argued in DESIGN.md.", "DESIGN.md 4 C06"),
    "C07": ("proof", "FD5 (Verus, verbatim bodies, unbounded Vec sizes): DecoderScratch::reset establishes, from ANY prior state, exactly the state DecoderScratch::new "
            "creates; all table reset/reinit functions; FD4 (Kani): FrameDecoder::reset/init install fresh per-frame fields whatever the previous state was "
            "(arbitrary counters, flags, checksum, dictionary use), a rejected header leaves the old state; D2 reset; H4 reuse path.", "DESIGN.md 4 C07"),
    "C08": ("other", "BOUNDED contract checking on the real code, not a proof for all sizes (hence category 'other'): D1/D2 (Kani, ring capacities 5/9, arbitrary invariant start state): on every drain path the hasher ends in exactly the state of a fresh XXH64 hasher fed the bytes handed out (state equality, "
            "twox-hash as reference), both ring segments, partial acceptance, errors; FD1: stored checksum = the 4 bytes after the last block, little-endian; "
            "FD7: calculated checksum accessor; E5V (Verus, unbounded): the compressor re-seeds the hasher per frame, it absorbs exactly the bytes read, the trailer is the "
            "low 32 bits of its digest; E5 (Kani, bounded): the same on concrete data incl. the little-endian byte order.", "DESIGN.md 4 C08"),
    "C09": ("proof", "FD4 (Kani): dictionary selected by id, missing id is DictNotProvided, frame without id sees no dictionary, force_dict; FD5 (Verus): init_from_dict "
            "installs exactly the dictionary's tables/offsets/content and reset removes all of it; D0 (Verus, unbounded): repeat_from_dict = match copy over "
            "dict ++ window incl. straddling, error iff the offset reaches before the dictionary or the window has passed; S2/Q3: hostile zero offsets resolve "
            "to the corrupt result. FD6 (Kani, dictionaries of 7/8/20/26 bytes with all contents, table parsers as contract stubs with arbitrary outcomes): "
            "id, offsets, content at the positions the format defines, table order and max logs, Ok iff complete.", "DESIGN.md 4 C09"),
    "C10": ("proof", "Exact consumption per stage: H2 (frame header length == bytes taken, every truncation is an error), H1 (3 bytes), B2 (content_size bytes), FD1V "
            "(Verus, unbounded, verbatim decode_blocks and decode_from_to: counter growth == bytes taken from the source == 3 per header + body + 4 checksum bytes iff "
            "flagged; Ok(finished) only after the last block and its checksum; decode_from_to never reports more than it was given), FD3V (Verus, unbounded, verbatim "
            "decode_all: frames and skippable frames strictly in order, skipped by exactly the declared length, a frame is drained before the next starts, Ok only "
            "when the whole input is consumed, TargetTooSmall), FD4/FD7 counters restart per frame, R2 extend_from_reader takes exactly n bytes, FD3 (Kani, bounded): "
            "decode_all_to_vec length/capacity discipline.", "DESIGN.md 4 C10"),
    "C11": ("proof", "Loop-free/constant-loop Kani proofs over all 256 window descriptors, all single-segment sizes, all limits and every "
                     "<= 20-byte header: exact boundary of the comparison, rejection carries (requested, limit), the reuse path reaches the "
                     "window reservation only with window <= limit (callee precondition via contract stub), clamp to the format maximum, "
                     "and every front end passes the configured limit on.", "DESIGN.md 3.2 H3/H4, 4 C11"),
    "C12": ("proof", "F1 (Kani, complete for accuracy logs 5..=9): baseline/bit-count arithmetic equals RFC 4.1.1, states tile the table; F2c (Kani): the three predefined "
            "tables built by the real code equal RFC Appendix A cell by cell; F3 (Verus, unbounded): description reader - range, sum == 2^al, termination; "
            "Q2 (Verus): stepping stays inside a well-formed table, all bits consumed; F6 (Kani, bounded): encoder normalisation yields a valid distribution; "
            "F7 (Verus, unbounded): the encoder's table description writer is total (widths, indices, termination) - not yet that it parses back. "
            "F2 (Verus, unbounded, verbatim body of build_decoding_table / build_decoder / build_from_probabilities): for EVERY distribution with cell sum 2^al, al in 5..=9, "
            "the spread walk terminates and is a bijection (explicit modular inverse of the step), every cell's symbol is the one the RFC spread defines, the less-than-one "
            "symbols sit at the top in order, and every state's (baseline, bits) is calc_baseline_and_numbits at its rank (== RFC by F1). "
            "F5 (encoder tables == decoder tables for arbitrary histograms) is NOT proved and is listed as an assumption.", "DESIGN.md 4 C12, Part II 9"),
    "C13": ("proof", "Decoder side complete and unbounded in Verus on verbatim bodies: HU2V (read_weights: direct and FSE-compressed descriptions, no panic, termination, "
            "bytes used <= source, direct weights = nibbles), HU1V (build_table_from_weights for EVERY weight vector: Kraft assert, rejection of weights > 11 and "
            "of tables deeper than 11 bits, table well-formed: 2^max_bits cells each with 1..=max_bits bits), L1 (stepping stays inside the table, every literal "
            "consumes >= 1 bit, stream split / jump table arithmetic, exactly regenerated_size literals). Encoder side: HU5 (Verus, every literal run of a block): encode4x splits the literals "
            "into four consecutive runs covering them exactly once, the jump table holds the byte sizes of streams 1..3 at the three 16-bit fields in front of them, the "
            "`size <= u16::MAX` asserts hold; HU4D (Verus, every alphabet size 2..=256): distribute_weights is "
            "total and Kraft-complete; the rest of HU4 (depth limiting, code assignment, description round trip) is NOT under contract; E8 covers the literals header "
            "widths and table hand-back.", "DESIGN.md 4 C13, Part II"),
    "C14": ("proof", "Finite, loop-free functions (code tables, repeat-offset machine, block/frame/literals/sequence headers) are "
                     "proved against RFC-transcribed spec functions over their entire input domains by Kani contracts; encoder/decoder "
                     "inverse pairs are two-contract lemmas; E8 (Verus) literals-header field widths on the encoder side.", "DESIGN.md 3.2, 4 C14"),
    "C15": ("proof", "E5V (Verus, unbounded, verbatim FrameCompressor::compress, every input length / read fragmentation / slice size): the frame is header, blocks, trailer and nothing else; "
            "every block but the last carries one full matcher space, exactly the final block is flagged last, the blocks' data concatenate to exactly the input (an exact "
            "multiple ends with an empty raw last block); E4V (Verus, unbounded, verbatim compress_fastest, every block size and content): exactly one block - RLE iff all bytes equal, else compressed iff strictly smaller, "
            "else raw byte for byte; size field = payload length; cost <= 3 + data; E4 (Kani, bounded sizes, symbolic contents): per block header/payload consistency, RLE only for constant blocks, raw fallback, cost <= 3 + length, "
            "compressed strictly smaller; E5 (bounded): frame structure, one last block, empty final block for exact multiples, nothing after the trailer; "
            "E3 (complete): emitted frame header parses back with a legal window >= the matcher's; H1' block header inverse; E8 literal header widths; "
            "E7V (Verus, unbounded): match offsets within the retained data and the advertised window.", "DESIGN.md 4 C15"),
    "C16": ("proof", "Obligations of the block encoder under an assumed well-behaved matcher: S1 encoder maps total over the whole value ranges (unreachable! arms "
            "unreachable), H6' every sequence count, F6 (bounded) normalisation total incl. single-symbol histograms, F7 (Verus) table writer total, E6 (concrete, thorough tier) "
            "single-valued literals never reach the Huffman path, E4V (Verus) / E4 (Kani) ghost-sync (no Huffman table is kept "
            "that the decoder did not receive: the raw fallback forgets the table of the discarded compressed form), E8 literal header widths. Three defects of this class were found and repaired (F3 F4 F5 F8).", "DESIGN.md 4 C16, Part II 10"),
    "C17": ("proof", "E7V (Verus, verbatim bodies of MatchGenerator::new / reserve / add_data / skip_matching / next_sequence, every history of blocks, every window size): "
            "the window holds a chronological suffix of the blocks given, window_size = retained length <= maximum, base_offset of every entry = distance to the newest "
            "entry, stored suffix indices lie inside their entries; the property itself is the PRECONDITION OF THE CALLBACK, proved at each of the three call sites: literal "
            "runs are exactly the unreported bytes, every match has length >= 5, lies inside one retained entry at exactly the reported distance, 1 <= distance <= retained "
            "bytes <= maximum window, all match_len bytes equal, and each reported sequence ends where the next starts. The contracts E7V assumes of code outside Verus' "
            "reach are Kani obligations on the real functions (SuffixStore get/insert/contains_key/key: loop-free, 8 slots; common_prefix_len and add_suffixes_till: "
            "bounded lengths). Not covered: MatchGeneratorDriver's pool recycling closures (bounded Kani harnesses in the thorough tier only).", "DESIGN.md 4 C17, Part II 9"),
    "C18": ("other", "BOUNDED contract checking on the real code, not a proof (hence category 'other'): IO1 (Kani, built with --no-default-features, bounded buffers): the no_std read_exact / Read for &[u8], &mut T, Take / write_all / Write impls "
            "satisfy the documented contracts of the std items they replace (Interrupted retried, EOF -> UnexpectedEof, partial writes, WriteZero equivalent); "
            "E5 under !hash: no flag, no trailer, same blocks. Byte-identity of whole outputs across builds is the substitutability argument in DESIGN.md.", "DESIGN.md 4 C18"),
}

PENDING = {}
NA = {
    "C19": "CLI process behaviour (files created, exit status, clap defaults): no contract within reach of Kani/Verus expresses it; see DESIGN.md 6",
    "C20": "dictionary builder is floating point + fastrand + HashMap/BinaryHeap + BufReader: outside both verifiers' reach; see DESIGN.md 6",
}


def main():
    props = [json.loads(l)["id"] for l in open(os.path.join(VERIF, "properties.jsonl")) if l.strip()]
    checks = []
    for p in props:
        if p in CLAIMED:
            cat, text, ref = CLAIMED[p]
            assert E.PROP_LEVEL.get(p, "proof") == cat, p
            checks.append({
                "property_id": p,
                "quick_cmd": "./check %s --tier quick" % p,
                "thorough_cmd": "./check %s --tier thorough" % p,
                "evidence_file": "evidence/%s.json" % p,
                "replay_cmd_template": "./check replay {path}",
                "engine": "contracts",
                "level_claimed": {"category": cat, "text": text, "design_ref": ref},
                "level_note": NOTE,
                "technique": TECH,
            })
    na = []
    for p in props:
        if p in CLAIMED:
            continue
        if p in NA:
            na.append({"property_id": p, "reason": NA[p]})
        else:
            na.append({"property_id": p, "reason": PENDING.get(p, "contracts for this property are designed (DESIGN.md 4) but not yet built; not claimed until its check exists")})
    m = {
        "version": 1,
        "setup_cmd": "python3 engine/selftest.py",
        "hooks": {
            "guard": "killingspark_zstd_rs_verif",
            "enable": "no hooks are committed to /repo: contracts and harness modules are injected into a scratch copy of /repo's working tree on every run (cfg(kani) for proofs, --cfg killingspark_zstd_rs_verif for native replay)",
            "baseline_off_cmd": "cd /repo && cargo test --workspace --no-fail-fast --offline",
            "source_commits": [],
            "add_only": True,
        },
        "engines": [{
            "name": "contracts",
            "path": "engine/check.py",
            "serves_properties": sorted(CLAIMED),
            "kind_free_text": "deductive verification of contracts on the real functions: Kani 0.68/CBMC (in-place contracts on a scratch copy) and Verus (verbatim extraction)",
        }],
        "checks": checks,
        "not_applicable": na,
        "notes": "exit 0 = all obligations discharged; exit 1 = VIOLATION line (an obligation was refuted); exit 2 = undecided (tool failure, lost anchor, timeout) and never a VIOLATION line.",
    }
    with open(os.path.join(VERIF, "MANIFEST.json"), "w") as f:
        json.dump(m, f, indent=1)
    print("MANIFEST.json written: %d checks, %d not_applicable" % (len(checks), len(na)))


if __name__ == "__main__":
    main()
