#!/usr/bin/env python3
"""Regenerates /verif/MANIFEST.json from the table below (so it stays valid and in sync with evidence.PROP_LEVEL)."""
import json, os, sys
sys.path.insert(0, os.path.dirname(os.path.abspath(__file__)))
from common import VERIF
import evidence as E

TECH = "contract-based deductive verification: Kani function contracts/harnesses injected in place + Verus on verbatim-extracted functions"
NOTE = ("Trusted: rustc, Kani->CBMC translation, CBMC/SAT, Verus/Z3/vstd, the RFC 8878 transcription in contracts/spec/, std/alloc "
        "behaviour, x86_64 target. Contract stubs / external_body contracts are assumptions unless the obligation that discharges "
        "them is listed green in the same evidence file. Bounded obligations are listed separately and never counted as proved.")

# property -> (category, text, design_ref) ; only properties listed here are claimed
CLAIMED = {
    "C14": ("proof", "Finite, loop-free functions (code tables, repeat-offset machine, block/frame/literals/sequence headers) are "
                     "proved against RFC-transcribed spec functions over their entire input domains by Kani contracts; encoder/decoder "
                     "inverse pairs are two-contract lemmas.", "DESIGN.md 3.2, 4 C14"),
    "C04": ("proof", "Four layers on the real code: R1 (Verus, verbatim bodies, ALL capacities) position arithmetic and drop-front queue semantics; "
                     "R2 (Kani, real raw pointers, one step from an ARBITRARY invariant state, hence all operation histories) queue semantics, "
                     "invariant and in-allocation accesses for every operation at fixed capacities; R3/R4 (Kani) the over-copying primitive stays "
                     "inside the regions it is given and every call site gives it regions inside initialised data / free space; D0 (Verus, all sizes) "
                     "the callers establish the unsafe preconditions and the overlapping match copy equals the RFC byte-at-a-time copy. "
                     "R2/R3/R4 are bounded in capacity / region size and listed as bounded.", "DESIGN.md 3.5, 4 C04"),
    "C05": ("proof", "Q3 (Verus, verbatim execute_sequences, all sequence lists): Ok => a block appends at most 128 KiB, no counter overflow; H1 (Kani, all 2^24 "
                     "headers): raw/RLE blocks regenerate at most 128 KiB; H4: window <= limit before the window reservation. Composition with the "
                     "driver loop is argued in DESIGN.md, not machine-checked.", "DESIGN.md 4 C05"),
    "C11": ("proof", "Loop-free/constant-loop Kani proofs over all 256 window descriptors, all single-segment sizes, all limits and every "
                     "<= 20-byte header: exact boundary of the comparison, rejection carries (requested, limit), the reuse path reaches the "
                     "window reservation only with window <= limit (callee precondition via contract stub), clamp to the format maximum, "
                     "and every front end passes the configured limit on.", "DESIGN.md 3.2 H3/H4, 4 C11"),
}

PENDING = {}
NA = {
    "C19": "CLI process behaviour (files created, exit status, clap defaults): no contract within reach of Kani/Verus expresses it; see DESIGN.md 6",
    "C20": "dictionary builder is floating point + fastrand + HashMap/BinaryHeap + BufReader: outside both verifiers' reach; see DESIGN.md 6",
}


def main():
    props = [json.loads(l)["id"] for l in open(os.path.join(VERIF, "properties.jsonl")) if l.strip()]
    checks = []
    for p in props:
        if p in CLAIMED:
            cat, text, ref = CLAIMED[p]
            assert E.PROP_LEVEL.get(p, "proof") == cat, p
            checks.append({
                "property_id": p,
                "quick_cmd": "./check %s --tier quick" % p,
                "thorough_cmd": "./check %s --tier thorough" % p,
                "evidence_file": "evidence/%s.json" % p,
                "replay_cmd_template": "./check replay {path}",
                "engine": "contracts",
                "level_claimed": {"category": cat, "text": text, "design_ref": ref},
                "level_note": NOTE,
                "technique": TECH,
            })
    na = []
    for p in props:
        if p in CLAIMED:
            continue
        if p in NA:
            na.append({"property_id": p, "reason": NA[p]})
        else:
            na.append({"property_id": p, "reason": PENDING.get(p, "contracts for this property are designed (DESIGN.md 4) but not yet built; not claimed until its check exists")})
    m = {
        "version": 1,
        "setup_cmd": "python3 engine/selftest.py",
        "hooks": {
            "guard": "killingspark_zstd_rs_verif",
            "enable": "no hooks are committed to /repo: contracts and harness modules are injected into a scratch copy of /repo's working tree on every run (cfg(kani) for proofs, --cfg killingspark_zstd_rs_verif for native replay)",
            "baseline_off_cmd": "cd /repo && cargo test --workspace --no-fail-fast --offline",
            "source_commits": [],
            "add_only": True,
        },
        "engines": [{
            "name": "contracts",
            "path": "engine/check.py",
            "serves_properties": sorted(CLAIMED),
            "kind_free_text": "deductive verification of contracts on the real functions: Kani 0.68/CBMC (in-place contracts on a scratch copy) and Verus (verbatim extraction)",
        }],
        "checks": checks,
        "not_applicable": na,
        "notes": "exit 0 = all obligations discharged; exit 1 = VIOLATION line (an obligation was refuted); exit 2 = undecided (tool failure, lost anchor, timeout) and never a VIOLATION line.",
    }
    with open(os.path.join(VERIF, "MANIFEST.json"), "w") as f:
        json.dump(m, f, indent=1)
    print("MANIFEST.json written: %d checks, %d not_applicable" % (len(checks), len(na)))


if __name__ == "__main__":
    main()
