"""Parser for contract unit files (contracts/kani/*.rs, contracts/verus/*.rs).

Directive lines start with `//@`. See contracts/README.md for the format.
"""
import os, re, shlex, glob
from common import CONTRACTS, read, Undecided


class Harness:
    def __init__(self, unit, name, kv):
        self.unit = unit
        self.name = name
        self.kind = kv.get("kind", "proof")          # contract | proof | canary | cover | witness
        self.props = [p for p in kv.get("props", "").split(",") if p]
        self.tier = kv.get("tier", "quick")          # quick | thorough
        self.profile = kv.get("profile", "rel")      # rel | dbg
        self.complete = kv.get("complete", "no") == "yes"
        self.bound = kv.get("bound", "")
        self.fn = kv.get("fn", "")
        self.witness = kv.get("witness", "")
        self.timeout = int(kv.get("timeout", "900"))
        self.features = kv.get("features", "default")  # default | nostd | nohash | nostd_nohash
        self.note = kv.get("note", "")
        self.flags = kv.get("flags", "")
        self.known = kv.get("known", "")
        self.heavy = kv.get("heavy", "no") == "yes"
        self.native = kv.get("native", "yes") == "yes"   # no: harness relies on kani::stub, cannot be re-run natively
        self.file = None      # target source file (module owner)
        self.module = None    # name of the injected module that holds it

    @property
    def oid(self):
        return "%s.%s" % (self.unit.uid, self.name)

    def qualified(self):
        """fully qualified harness path for `--exact`"""
        rel = self.file
        assert rel.startswith("ruzstd/src/")
        p = rel[len("ruzstd/src/"):-3]
        parts = p.split("/")
        if parts[-1] in ("mod", "lib"):
            parts = parts[:-1]
        return "::".join(parts + [self.module, self.name])


class Unit:
    def __init__(self, path):
        self.path = path
        self.uid = None
        self.title = ""
        self.attrs = []     # (file, impl, fn, text)
        self.modules = []   # (file, text, modname)
        self.harnesses = []
        self.needs = []     # uids of units whose attrs/modules this unit relies on
        self.assumes = []   # free-text assumptions (//@assume ...)
        self.parse()

    def parse(self):
        cur_file = None
        lines = read(self.path).split("\n")
        i = 0
        pending = []
        while i < len(lines):
            ln = lines[i]
            if ln.startswith("//@unit "):
                rest = ln[len("//@unit "):]
                self.uid, _, self.title = [s.strip() for s in rest.partition(":")]
            elif ln.startswith("//@file "):
                cur_file = ln.split()[1]
            elif ln.startswith("//@needs "):
                self.needs += ln.split()[1:]
            elif ln.startswith("//@assume "):
                self.assumes.append(ln[len("//@assume "):].strip())
            elif ln.startswith("//@attrs") or ln.startswith("//@module"):
                kv = dict(tok.split("=", 1) for tok in shlex.split(ln)[1:])
                body = []
                i += 1
                while not lines[i].startswith("//@end"):
                    body.append(lines[i])
                    i += 1
                text = "\n".join(body) + "\n"
                if ln.startswith("//@attrs"):
                    self.attrs.append((cur_file, kv.get("impl"), kv["fn"], text))
                else:
                    m = re.search(r"^\s*(?:pub(?:\([a-z]+\))?\s+)?mod\s+(\w+)", text, re.M)
                    if not m:
                        raise Undecided("unit %s: module block without `mod`" % self.path)
                    self.modules.append((cur_file, text, m.group(1)))
            elif ln.startswith("//@harness "):
                toks = shlex.split(ln)[1:]
                name = toks[0]
                kv = dict(tok.split("=", 1) for tok in toks[1:])
                h = Harness(self, name, kv)
                self.harnesses.append(h)
            i += 1
        if not self.uid:
            raise Undecided("unit file %s has no //@unit line" % self.path)
        # attach each harness to the module that defines it
        for h in self.harnesses:
            for (f, text, modname) in self.modules:
                if re.search(r"\b%s\b" % re.escape(h.name), text):
                    h.file, h.module = f, modname
                    break
            if h.file is None:
                raise Undecided("unit %s: harness %s not found in any module block" % (self.uid, h.name))


def load_kani_units():
    units = []
    for p in sorted(glob.glob(os.path.join(CONTRACTS, "kani", "*.rs"))):
        units.append(Unit(p))
    return units
