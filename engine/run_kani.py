"""Run Kani harnesses on an injected scratch copy and parse per-harness results."""
import os, re, subprocess, time, threading, signal
from common import log, NCPU, Undecided

import shlex
# --no-assertion-reach-checks: Kani's automatic reachability instrumentation adds one cover property per assertion, and CBMC's JSON
# output carries a full trace for every satisfied cover: 3.2 GB of output and 12 GB of kani-driver memory for ONE harness of unit E5
# (49 GB for a 40-harness run, which took the machine down), and 7x the solving time. Vacuity is guarded by each unit's own canary
# and kani::cover! harnesses instead, which this flag does not affect.
KANI_Z = ["-Z", "function-contracts", "-Z", "stubbing", "-Z", "unstable-options", "--no-assertion-reach-checks"]
# extra cargo-kani arguments (experiments); default: CBMC verbosity lowered, see DESIGN Part II (driver memory)
KANI_EXTRA = shlex.split(os.environ.get("VERIF_KANI_EXTRA", ""))
FEATURE_ARGS = {
    "default": [],
    "nostd": ["--no-default-features", "--features", "hash"],
    "nohash": ["--no-default-features", "--features", "std"],
    "nostd_nohash": ["--no-default-features"],
}
RSS_LIMIT_KB = int(os.environ.get("VERIF_RSS_LIMIT_GB", "14")) * 1024 * 1024


class HResult:
    def __init__(self, qname):
        self.qname = qname
        self.status = "missing"   # success | failed | unwind | timeout | oom | error | missing
        self.checks = 0
        self.failed = 0
        self.failed_checks = []   # [(description, location)]
        self.covers = None        # (satisfied, total)
        self.time_s = 0.0
        self.raw = ""

    def __repr__(self):
        return "<%s %s %d checks %.1fs>" % (self.qname, self.status, self.checks, self.time_s)


def _descendant_cbmc(root_pid):
    """yield (pid, rss_kb) for cbmc processes below root_pid"""
    kids = {}
    procs = {}
    for d in os.listdir("/proc"):
        if not d.isdigit():
            continue
        try:
            with open("/proc/%s/stat" % d) as f:
                s = f.read()
            rp = s.rindex(")")
            comm = s[s.index("(") + 1:rp]
            fields = s[rp + 2:].split()
            ppid = int(fields[1])
            rss_pages = int(fields[21])
            procs[int(d)] = (comm, ppid, rss_pages * 4)
            kids.setdefault(ppid, []).append(int(d))
        except Exception:
            continue
    stack, seen = [root_pid], set()
    while stack:
        p = stack.pop()
        if p in seen:
            continue
        seen.add(p)
        for k in kids.get(p, []):
            stack.append(k)
        if p in procs and (procs[p][0].startswith("cbmc") or procs[p][0].startswith("kani-driver")):
            yield p, procs[p][2], procs[p][0]


DRIVER_RSS_LIMIT_KB = int(float(os.environ.get("VERIF_DRIVER_RSS_LIMIT_GB", "24")) * 1048576)
PEAK = {}


def _watchdog(proc, stop, killed):
    while not stop.is_set():
        try:
            for pid, rss, comm in _descendant_cbmc(proc.pid):
                limit = RSS_LIMIT_KB if comm.startswith("cbmc") else DRIVER_RSS_LIMIT_KB
                PEAK[comm[:11]] = max(PEAK.get(comm[:11], 0), rss)
                if rss > limit:
                    log("  watchdog: %s pid %d RSS %.1f GB > limit, killing" % (comm, pid, rss / 1048576.0))
                    killed.append(pid)
                    os.kill(pid, signal.SIGKILL)
        except Exception:
            pass
        stop.wait(2.0)


def build_cmd(harness_qnames, features="default", jobs=8, timeout_s=900, playback=False):
    cmd = ["cargo", "kani"] + KANI_Z + FEATURE_ARGS[features]
    if playback:
        cmd += ["-Z", "concrete-playback", "--concrete-playback=print"]
    else:
        cmd += ["--output-format", "terse", "-j", str(jobs)]
    cmd += ["--harness-timeout", "%ds" % timeout_s, "--exact"]
    for q in harness_qnames:
        cmd += ["--harness", q]
    cmd += KANI_EXTRA      # may end in `--cbmc-args ...`, which must come last
    return cmd


_LIVE = set()


def _kill_live(*_a):
    for pid in list(_LIVE):
        try:
            os.killpg(pid, signal.SIGKILL)
        except OSError:
            pass
    if _a:   # called as a signal handler: the check is undecided, never an alarm
        os._exit(2)


import atexit
atexit.register(_kill_live)
try:
    signal.signal(signal.SIGTERM, _kill_live)
    signal.signal(signal.SIGINT, _kill_live)
except ValueError:
    pass


def run(dest, harness_qnames, features="default", jobs=8, timeout_s=900, playback=False):
    """returns (dict qname->HResult, compile_ok, full_output)"""
    cmd = build_cmd(harness_qnames, features, jobs, timeout_s, playback)
    env = dict(os.environ)
    env["CARGO_NET_OFFLINE"] = "true"
    env["CARGO_TARGET_DIR"] = os.path.join(dest, "target-" + features)
    t0 = time.time()
    proc = subprocess.Popen(cmd, cwd=dest, env=env, stdout=subprocess.PIPE, stderr=subprocess.STDOUT,
                            text=True, start_new_session=True)
    _LIVE.add(proc.pid)
    stop, killed = threading.Event(), []
    th = threading.Thread(target=_watchdog, args=(proc, stop, killed), daemon=True)
    th.start()
    overall = timeout_s * (1 + len(harness_qnames) // max(1, jobs)) + 600
    try:
        out, _ = proc.communicate(timeout=overall)
    except subprocess.TimeoutExpired:
        os.killpg(proc.pid, signal.SIGKILL)
        out, _ = proc.communicate()
        out += "\nVERIF-ENGINE: overall timeout\n"
    stop.set()
    _LIVE.discard(proc.pid)
    res = parse(out, harness_qnames)
    compile_ok = ("Checking harness" in out) or not harness_qnames
    if "error: could not compile" in out or re.search(r"^error(\[E\d+\])?:", out, re.M):
        if "Checking harness" not in out:
            compile_ok = False
    for r in res.values():
        if r.status == "error" and killed:
            r.status = "oom"
    return res, compile_ok, out, time.time() - t0


def parse(out, qnames):
    res = {q: HResult(q) for q in qnames}
    # split into thread-tagged or sequential blocks
    cur_by_thread = {}
    cur = None
    blocks = {}   # qname -> list of lines
    thread_re = re.compile(r"^Thread (\d+): ?(.*)$")
    active_thread = None
    for ln in out.split("\n"):
        m = thread_re.match(ln)
        if m:
            active_thread = int(m.group(1))
            ln = m.group(2)
        m2 = re.match(r"^Checking harness (\S+?)\.\.\.\s*$", ln)
        if m2:
            q = m2.group(1)
            cur_by_thread[active_thread] = q
            blocks.setdefault(q, [])
            continue
        q = cur_by_thread.get(active_thread)
        if q is not None:
            blocks[q].append(ln)
            if ln.startswith("Verification Time:") or ln.startswith("CBMC timed out") or "timed out" in ln and "CBMC" in ln:
                pass
    for q, lines in blocks.items():
        if q not in res:
            res[q] = HResult(q)
        r = res[q]
        text = "\n".join(lines)
        r.raw = text[-6000:]
        m = re.search(r"\*\* (\d+) of (\d+) failed", text)
        if m:
            r.failed, r.checks = int(m.group(1)), int(m.group(2))
        m = re.search(r"\*\* (\d+) of (\d+) cover properties satisfied", text)
        if m:
            r.covers = (int(m.group(1)), int(m.group(2)))
        m = re.search(r"Verification Time: ([\d.]+)s", text)
        if m:
            r.time_s = float(m.group(1))
        r.failed_checks = []
        for chunk in text.split("Failed Checks: ")[1:]:
            chunk = chunk.split("\nVERIFICATION:-")[0]
            m = re.search(r"\n File: \"([^\"]*)\", line (\d+), in (\S+)", chunk)
            if m:
                desc = " ".join(chunk[:m.start()].split())
                r.failed_checks.append((desc[:400], "%s:%s in %s" % (m.group(1), m.group(2), m.group(3))))
            else:
                r.failed_checks.append((" ".join(chunk.split("\n")[0].split())[:400], ""))
        if "VERIFICATION:- SUCCESSFUL" in text:
            r.status = "success"
        elif "VERIFICATION:- FAILED" in text:
            descs = [d for d, _ in r.failed_checks]
            if "timed out" in text.lower() and not descs:
                r.status = "timeout"
            elif descs and all("unwinding assertion" in d for d in descs):
                r.status = "unwind"
            elif descs:
                r.status = "failed"
            else:
                # FAILED without listed checks: treat out-of-memory / crash as error
                r.status = "error"
        elif "timed out" in text.lower():
            r.status = "timeout"
        else:
            r.status = "error"
    return res
