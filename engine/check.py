#!/usr/bin/env python3
"""./check <Cxx> [--tier quick|thorough]   |   ./check replay <file>   |   ./check list

Decides one property by discharging every ledger obligation that serves it, on /repo's current tree.
Exit 0: all discharged (or only known findings). Exit 1: VIOLATION line. Exit 2: undecided (never an alarm).
"""
import os, sys, json, time, re, argparse, traceback
sys.path.insert(0, os.path.dirname(os.path.abspath(__file__)))
from common import *
import units as U
import scratch as S
import run_kani as K
import run_verus as V
import evidence as E
import replay as R


def select(all_units, prop, tier):
    hs = []
    for u in all_units:
        for h in u.harnesses:
            if h.kind == "witness":
                continue
            if prop in h.props and (tier == "thorough" or h.tier == "quick"):
                hs.append(h)
    return hs


def known_findings():
    """known_findings.txt lines:  known: property=<id> obligation=<oid> <text>   |   fixed: property=<id> <commit> <text>"""
    p = os.path.join(VERIF, "known_findings.txt")
    out = []
    if os.path.exists(p):
        for ln in read(p).split("\n"):
            m = re.match(r"^known:\s+property=(\S+)\s+obligation=(\S+)\s+(.*)$", ln)
            if m:
                out.append((m.group(1), m.group(2), m.group(3)))
    return out


def main():
    ap = argparse.ArgumentParser()
    ap.add_argument("prop")
    ap.add_argument("rest", nargs="*")
    ap.add_argument("--tier", default=os.environ.get("VERIF_TIER", "quick"))
    ap.add_argument("--keep", action="store_true", help="keep the scratch copy")
    ap.add_argument("--only", default="", help="comma list of unit ids (debugging)")
    a = ap.parse_args()
    if a.prop == "replay":
        sys.exit(R.replay_file(a.rest[0]))
    if a.prop == "list":
        for u in U.load_kani_units():
            for h in u.harnesses:
                print(h.oid, h.kind, ",".join(h.props), h.tier, h.profile)
        for vu in V.load_units():
            print(vu.uid, "verus", ",".join(vu.props), vu.tier)
        sys.exit(0)
    prop, tier = a.prop, a.tier
    if tier not in ("quick", "thorough"):
        tier = "quick"
    seed = int(os.environ.get("VERIF_SEED", "0") or 0)
    t0 = time.time()
    results = []      # list of dict per obligation
    undecided = []
    scratch_dir = os.path.join(SCRATCH_ROOT, "%s-%d" % (prop, os.getpid()))
    try:
        all_units = U.load_kani_units()
        if a.only:
            keep = set(a.only.split(","))
            all_units = [u for u in all_units if u.uid in keep]
        hs = select(all_units, prop, tier)
        groups = {}
        for h in hs:
            groups.setdefault((h.profile, h.features), []).append(h)
        for (profile, features), ghs in sorted(groups.items()):
            dest = os.path.join(scratch_dir, "kani-%s-%s" % (profile, features))
            if not os.path.exists(os.path.join(dest, "Cargo.toml")):
                S.copy_crate(dest, profile)
                try:
                    S.inject(dest, needed_all(all_units, ghs, profile))
                except Undecided as e:
                    undecided.append(("inject", str(e)))
                    for h in ghs:
                        results.append(E.oblig(h, "undecided", reason=str(e)))
                    continue
            light = [h for h in ghs if not h.heavy]
            heavy = [h for h in ghs if h.heavy]
            # the kani driver keeps every harness's CBMC output in memory: one invocation over 40 harnesses at -j 12 was seen at 49 GB
            # and took the whole machine down; so at most CHUNK harnesses per invocation (memory is returned between invocations)
            CHUNK = int(os.environ.get("VERIF_KANI_CHUNK", "10"))
            plan = [(light[i:i + CHUNK], min(NCPU, 8), False) for i in range(0, len(light), CHUNK)] + [(heavy[i:i + 4], 4, True) for i in range(0, len(heavy), 4)]
            for chunk_no, (batch, jobs, is_heavy) in enumerate(plan):
                if not batch:
                    continue
                tmo = max(h.timeout for h in batch)
                log("[%s] kani %s/%s: %d harnesses, -j %d" % (prop, profile, features, len(batch), jobs))
                res, compiled, out, wall = K.run(dest, [h.qualified() for h in batch], features, jobs, tmo)
                log("    chunk %d done in %.0fs; peak RSS %s" % (chunk_no, wall, ", ".join("%s %.1f GB" % (k, v / 1048576.0) for k, v in sorted(K.PEAK.items()))))
                K.PEAK.clear()
                try:
                    write(os.path.join(VERIF, "logs", "%s-%s-%s-%s-%d.log" % (prop, profile, features, "heavy" if is_heavy else "light", chunk_no)), out)
                except Exception:
                    pass
                if not compiled:
                    tail = "\n".join(out.split("\n")[-60:])
                    log(tail)
                    undecided.append(("compile", "harness crate does not compile (profile %s)" % profile))
                    for h in batch:
                        results.append(E.oblig(h, "undecided", reason="does not compile: " + first_error(out)))
                    continue
                for h in batch:
                    r = res.get(h.qualified())
                    results.append(classify_kani(h, r, dest, features, prop))
        # Verus units
        for vu in V.load_units():
            if prop in vu.props and (tier == "thorough" or vu.tier == "quick"):
                if a.only and vu.uid not in a.only.split(","):
                    continue
                log("[%s] verus unit %s" % (prop, vu.uid))
                results.extend(V.run_unit(vu, os.path.join(scratch_dir, "verus"), prop))
    except Undecided as e:
        undecided.append(("engine", str(e)))
    except Exception as e:
        undecided.append(("engine-crash", traceback.format_exc()))
    finally:
        if not a.keep:
            rmtree(scratch_dir)

    # ---- verdict ----
    kf = known_findings()
    violations, known_hits = [], []
    for o in results:
        if o["status"] == "violation":
            hit = [k for k in kf if k[0] == prop and k[1] == o["id"]]
            if hit:
                known_hits.append((o, hit[0]))
                o["status"] = "known-finding"
            else:
                violations.append(o)
        elif o["status"] == "undecided":
            undecided.append((o["id"], o.get("reason", "")))
    wall = time.time() - t0
    E.write_evidence(prop, tier, seed, results, undecided, wall, len(violations))
    for (o, k) in known_hits:
        print("KNOWN-FINDING: property=%s %s (%s)" % (prop, k[2], o["id"]))
    n_ob = len([o for o in results if o["kind"] in ("contract", "proof", "verus", "bounded")])
    n_ok = len([o for o in results if o["kind"] in ("contract", "proof", "verus", "bounded") and o["status"] == "discharged"])
    print("%s tier=%s obligations=%d discharged=%d guards=%d violations=%d undecided=%d wall=%.0fs" % (
        prop, tier, n_ob, n_ok, len([o for o in results if o["kind"] in ("cover", "canary")]),
        len(violations), len(undecided), wall))
    for o in violations:
        rp = o.get("replay") or R.write_replay(prop, o, None)
        suffix = "" if o.get("has_input") else " no-failing-input-found"
        print("FAILED-OBLIGATION %s: %s" % (o["id"], o.get("reason", "")))
        print("VIOLATION property=%s replay=%s%s" % (prop, rp, suffix))
    if violations:
        sys.exit(1)
    if undecided:
        for (w, why) in undecided:
            print("UNDECIDED %s %s" % (w, why.strip().split("\n")[-1][:300]))
        sys.exit(2)
    if n_ob == 0:
        print("UNDECIDED no obligations selected for %s" % prop)
        sys.exit(2)
    sys.exit(0)


def needed_all(all_units, hs, profile):
    """units to inject into this scratch copy: those owning a selected harness, plus their declared needs"""
    need = []
    for h in hs:
        if h.profile == profile and h.unit not in need:
            need.append(h.unit)
    changed = True
    while changed:
        changed = False
        for u in list(need):
            for dep in u.needs:
                for v in all_units:
                    if v.uid == dep and v not in need:
                        need.append(v)
                        changed = True
    return need


def first_error(out):
    m = re.search(r"^(error(\[E\d+\])?:.*(?:\n.*){0,6})", out, re.M)
    return m.group(1)[:600] if m else "unknown"


def classify_kani(h, r, dest, features, prop):
    if r is None or r.status == "missing":
        return E.oblig(h, "undecided", reason="harness did not run (not found by Kani)")
    base = dict(checks=r.checks, time_s=r.time_s)
    if h.kind == "canary":
        if r.status == "failed":
            return E.oblig(h, "guard-ok", **base)
        return E.oblig(h, "undecided", reason="canary (deliberately false contract) was not refuted: %s" % r.status, **base)
    if h.kind == "cover":
        if r.status in ("success", "failed") and r.covers and r.covers[0] == r.covers[1] and r.covers[1] > 0:
            return E.oblig(h, "guard-ok", covers=r.covers[1], **base)
        return E.oblig(h, "undecided", reason="vacuity guard: covers satisfied %s, status %s" % (r.covers, r.status), **base)
    if r.status == "success":
        if r.checks == 0:
            return E.oblig(h, "undecided", reason="zero checks generated", **base)
        return E.oblig(h, "discharged", **base)
    if r.status == "failed":
        descs = "; ".join("%s @ %s" % (d, loc) for d, loc in r.failed_checks[:4])
        if any(re.search(r"not currently supported|unsupported|Unsupported", d) for d, _ in r.failed_checks) and \
           all(re.search(r"not currently supported|unsupported|Unsupported|unwinding", d) for d, _ in r.failed_checks):
            return E.oblig(h, "undecided", reason="unsupported construct: " + descs, **base)
        o = E.oblig(h, "violation", reason=descs, verifier_output=r.raw, **base)
        R.extract_counterexample(o, h, dest, features, prop)
        return o
    return E.oblig(h, "undecided", reason="kani status %s" % r.status, verifier_output=r.raw[-1500:], **base)


if __name__ == "__main__":
    main()
