"""Scratch copy of /repo's working tree and in-place injection of Kani contracts.

What the copy changes relative to /repo/ruzstd (the complete list, also in DESIGN.md 2.2):
  * Readme.md / LICENSE symlinks are materialised
  * Cargo.toml: [[bench]] and [dev-dependencies] dropped; [workspace] + [profile.dev] + [lints] for cfg names added
  * src/verif_spec.rs added (contracts/spec/*.rs concatenated) and `mod verif_spec;` appended to lib.rs
  * attribute lines inserted directly above named fns; harness modules appended to the owning files
Nothing in any existing line is rewritten or removed.
"""
import os, re, shutil, glob
from common import REPO, CRATE, CONTRACTS, GUARD, read, write, rmtree, Undecided, sha

CFG = "#[cfg(any(kani, %s))]" % GUARD


def copy_crate(dest, profile="rel"):
    rmtree(dest)
    os.makedirs(dest)
    shutil.copytree(os.path.join(CRATE, "src"), os.path.join(dest, "src"), symlinks=False)
    for f in ("Readme.md", "LICENSE"):
        shutil.copyfile(os.path.join(REPO, f), os.path.join(dest, f))
    shutil.copyfile(os.path.join(REPO, "Cargo.lock"), os.path.join(dest, "Cargo.lock"))
    toml = read(os.path.join(CRATE, "Cargo.toml"))
    # drop [[bench]] and [dev-dependencies] sections (not compiled by cargo kani; need C deps)
    out, skip = [], False
    for ln in toml.split("\n"):
        if re.match(r"^\[\[?[\w.-]+\]?\]", ln):
            skip = ln.strip() in ("[[bench]]", "[dev-dependencies]")
        if not skip:
            out.append(ln)
    toml = "\n".join(out)
    dbg = "true" if profile == "dbg" else "false"
    toml += "\n[workspace]\n\n[profile.dev]\ndebug-assertions = %s\noverflow-checks = true\n" % dbg
    toml += "\n[lints.rust]\nunexpected_cfgs = { level = \"allow\" }\n"
    write(os.path.join(dest, "Cargo.toml"), toml)
    write(os.path.join(dest, ".cargo", "config.toml"), "[net]\noffline = true\n")


def spec_text():
    parts = []
    for p in sorted(glob.glob(os.path.join(CONTRACTS, "spec", "*.rs"))):
        parts.append("// ==== %s ====\n%s" % (os.path.basename(p), read(p)))
    return "\n".join(parts)


FN_RE = r"^(\s*)(?:pub(?:\([^)]*\))?\s+)?(?:const\s+)?(?:unsafe\s+)?fn\s+%s\s*[(<]"


def find_fn_line(lines, fn, impl=None, path="?"):
    start = 0
    if impl:
        pat = re.compile(impl) if impl.startswith("^") else re.compile(r"^\s*impl\b.*%s" % re.escape(impl))
        hits = [i for i, l in enumerate(lines) if pat.search(l)]
        if not hits:
            raise Undecided("lost anchor: `impl ... %s` not found in %s" % (impl, path))
        start = hits[0]
    pat = re.compile(FN_RE % re.escape(fn))
    for i in range(start, len(lines)):
        if pat.match(lines[i]):
            return i
    raise Undecided("lost anchor: fn %s%s not found in %s" % (fn, " in impl " + impl if impl else "", path))


def inject(dest, units):
    """units: list of Unit. Applies attrs + modules to the scratch copy at dest. Returns dict file->(orig_sha)."""
    by_file_attrs, by_file_mods = {}, {}
    for u in units:
        for (f, impl, fn, text) in u.attrs:
            by_file_attrs.setdefault(f, []).append((impl, fn, text, u.uid))
        for (f, text, _m) in u.modules:
            by_file_mods.setdefault(f, []).append((text, u.uid))
    info = {}
    for f in sorted(set(by_file_attrs) | set(by_file_mods)):
        assert f.startswith("ruzstd/")
        p = os.path.join(dest, f[len("ruzstd/"):])
        if not os.path.exists(p):
            raise Undecided("lost anchor: file %s does not exist" % f)
        src = read(p)
        info[f] = sha(src)
        lines = src.split("\n")
        # insert attrs bottom-up so indices stay valid
        ins = []
        for (impl, fn, text, uid) in by_file_attrs.get(f, []):
            i = find_fn_line(lines, fn, impl, f)
            ins.append((i, text, uid))
        seen = set()
        for (i, text, uid) in sorted(ins, key=lambda t: -t[0]):
            if i in seen:
                raise Undecided("two units put attributes on the same fn at %s:%d" % (f, i + 1))
            seen.add(i)
            indent = re.match(r"^(\s*)", lines[i]).group(1)
            block = [indent + l for l in text.rstrip("\n").split("\n")]
            lines[i:i] = block
        src = "\n".join(lines)
        for (text, uid) in by_file_mods.get(f, []):
            src += "\n// ---- injected by /verif (unit %s) ----\n%s" % (uid, text)
        write(p, src)
    # spec module + lib.rs hook
    write(os.path.join(dest, "src", "verif_spec.rs"), "#![allow(clippy::all)]\n" + spec_text())
    lib = os.path.join(dest, "src", "lib.rs")
    write(lib, read(lib) + "\n%s\n#[doc(hidden)]\npub mod verif_spec;\n" % CFG)
    return info
