"""prints the seeded-change table (markdown) from seeded/*/meta.json"""
import os, json, glob, sys
VERIF = os.path.dirname(os.path.dirname(os.path.abspath(__file__)))
print("| seed | property | the change (one line) | needs, to manifest | check exit | failed obligation(s) | replayed natively |")
print("|---|---|---|---|---|---|---|")
for d in sorted(glob.glob(os.path.join(VERIF, "seeded", "C*"))):
    mp = os.path.join(d, "meta.json")
    if not os.path.exists(mp):
        print("| %s | | (not run) | | | | |" % os.path.basename(d))
        continue
    m = json.load(open(mp))
    summ = m.get("summary", "").replace("|", "/").split(". ")[0][:230]
    need = m.get("needs_to_manifest", "").replace("|", "/").split(". ")[0][:200]
    print("| %s | %s | %s | %s | %s | %s | %s |" % (m["id"], m["property"], summ, need, m.get("check_exit"),
          ", ".join("`%s`" % o for o in m.get("failed_obligations", [])) or "-", "yes" if m.get("replayed_natively") else "no"))
