#!/usr/bin/env python3
"""setup_cmd: nothing to build (python stdlib + preinstalled kani/verus); verify tools and unit files parse."""
import os, sys, shutil, json
sys.path.insert(0, os.path.dirname(os.path.abspath(__file__)))
from common import *
import units as U
import run_verus as V
ok = True
for tool in ("cargo", "cargo-kani", "verus", "cbmc"):
    if not shutil.which(tool):
        print("missing tool:", tool); ok = False
ku = U.load_kani_units()
vu = V.load_units()
names = {}
for u in ku:
    for h in u.harnesses:
        if h.name in names:
            print("duplicate harness name", h.name); ok = False
        names[h.name] = h
print("kani units: %d (%d harnesses); verus units: %d" % (len(ku), len(names), len(vu)))
json.load(open(os.path.join(VERIF, "MANIFEST.json")))
os.makedirs(EVIDENCE, exist_ok=True)
sys.exit(0 if ok else 1)
