use vstd::prelude::*;
use vstd::arithmetic::power2::*;
verus! {

global size_of usize == 8;

pub open spec fn fits(v: u64, n: usize) -> bool { n >= 64 || v < (1u64 << (n as u64)) }
pub uninterp spec fn into_u64<T>(v: T) -> u64;
pub broadcast axiom fn into_u64_u32(v: u32) ensures #[trigger] into_u64::<u32>(v) == v as u64;
pub broadcast axiom fn into_u64_u64(v: u64) ensures #[trigger] into_u64::<u64>(v) == v;

/// r is the integer binary logarithm of x
#[verifier::opaque]
pub open spec fn is_ilog2(r: u32, x: usize) -> bool { r < 64 && pow2(r as nat) <= x && x < pow2((r + 1) as nat) }
pub assume_specification [usize::ilog2] (x: usize) -> (r: u32)
    requires x > 0,
    ensures is_ilog2(r, x);

/// one field of the bitstream: (value, width in bits)
pub struct Field { pub v: u64, pub w: int }

#[verifier::external_body]
pub struct BitWriter { _o: u8 }
impl BitWriter {
    pub uninterp spec fn log(&self) -> Seq<Field>;
    pub uninterp spec fn idx(&self) -> int;
    #[verifier::external_body]
    pub fn write_bits<T: Into<u64> + Copy>(&mut self, bits: T, num_bits: usize)
        requires num_bits <= 63, fits(into_u64(bits), num_bits),
        ensures final(self).log() == old(self).log().push(Field { v: into_u64(bits), w: num_bits as int }), final(self).idx() == old(self).idx() + num_bits,
    { unimplemented!() }
    #[verifier::external_body]
    pub fn misaligned(&self) -> (r: usize)
        ensures r < 8, (self.idx() + r) % 8 == 0,
    { unimplemented!() }
}

#[derive(Clone, Copy)]
pub struct Sequence { pub ll: u32, pub ml: u32, pub of: u32 }

pub struct State { pub num_bits: u8, pub baseline: usize, pub last_index: usize, pub index: usize }

#[verifier::external_body]
pub struct SymbolStates { _o: u8 }
pub struct FSETable { pub states: [SymbolStates; 256], pub table_size: usize }
impl FSETable {
    pub uninterp spec fn al(&self) -> int;
    pub uninterp spec fn has(&self, symbol: u8) -> bool;
    pub uninterp spec fn spec_next(&self, symbol: u8, idx: int) -> State;
    pub uninterp spec fn spec_start(&self, symbol: u8) -> State;
    pub open spec fn wf(&self) -> bool { 5 <= self.al() <= 9 && self.table_size == pow2(self.al() as nat) }
    #[verifier::external_body]
    pub fn next_state(&self, symbol: u8, idx: usize) -> (r: &State)
        requires self.wf(), self.has(symbol), idx < self.table_size,
        ensures *r == self.spec_next(symbol, idx as int),
            r.baseline <= idx <= r.last_index, r.num_bits <= self.al(), idx - r.baseline < pow2(r.num_bits as nat), r.index < self.table_size,
    { unimplemented!() }
    #[verifier::external_body]
    pub fn start_state(&self, symbol: u8) -> (r: &State)
        requires self.wf(), self.has(symbol),
        ensures *r == self.spec_start(symbol), r.index < self.table_size,
    { unimplemented!() }
}

pub uninterp spec fn spec_ll(len: u32) -> (u8, u32, usize);
pub uninterp spec fn spec_ml(len: u32) -> (u8, u32, usize);
pub uninterp spec fn spec_of(len: u32) -> (u8, u32, usize);
/// S1 (Kani, complete): code, extra-bit value, extra-bit width of a literal length
#[verifier::external_body]
pub fn encode_literal_length(len: u32) -> (r: (u8, u32, usize))
    ensures r == spec_ll(len), r.2 <= 32, fits(r.1 as u64, r.2),
{ unimplemented!() }
#[verifier::external_body]
pub fn encode_match_len(len: u32) -> (r: (u8, u32, usize))
    requires len >= 3,
    ensures r == spec_ml(len), r.2 <= 32, fits(r.1 as u64, r.2),
{ unimplemented!() }
#[verifier::external_body]
pub fn encode_offset(len: u32) -> (r: (u8, u32, usize))
    requires len >= 1,
    ensures r == spec_of(len), r.2 <= 32, fits(r.1 as u64, r.2),
{ unimplemented!() }

// ---------------------------------------------------------------- the specification (RFC 8878 3.1.1.3.2.1)

pub struct Tabs { pub ll: FSETable, pub ml: FSETable, pub of: FSETable }

/// FSE state the DECODER is in while it decodes sequence i (the encoder computes them from the last sequence backwards)
pub open spec fn st_ll(s: Seq<Sequence>, t: &FSETable, i: int) -> State
    decreases s.len() - i,
{
    if i >= s.len() - 1 { t.spec_start(spec_ll(s[s.len() - 1].ll).0) } else { t.spec_next(spec_ll(s[i].ll).0, st_ll(s, t, i + 1).index as int) }
}
pub open spec fn st_ml(s: Seq<Sequence>, t: &FSETable, i: int) -> State
    decreases s.len() - i,
{
    if i >= s.len() - 1 { t.spec_start(spec_ml(s[s.len() - 1].ml).0) } else { t.spec_next(spec_ml(s[i].ml).0, st_ml(s, t, i + 1).index as int) }
}
pub open spec fn st_of(s: Seq<Sequence>, t: &FSETable, i: int) -> State
    decreases s.len() - i,
{
    if i >= s.len() - 1 { t.spec_start(spec_of(s[s.len() - 1].of).0) } else { t.spec_next(spec_of(s[i].of).0, st_of(s, t, i + 1).index as int) }
}
pub open spec fn fld(v: int, w: int) -> Field { Field { v: v as u64, w: w } }

/// what the decoder READS for sequence i, in reading order: extra bits of offset, match length, literal length; then (unless it is the
/// last sequence) the bits that take the LL, ML, OF states to the next sequence's states
pub open spec fn read_for(s: Seq<Sequence>, ll: &FSETable, ml: &FSETable, of: &FSETable, i: int) -> Seq<Field> {
    let adds = seq![
        fld(spec_of(s[i].of).1 as int, spec_of(s[i].of).2 as int),
        fld(spec_ml(s[i].ml).1 as int, spec_ml(s[i].ml).2 as int),
        fld(spec_ll(s[i].ll).1 as int, spec_ll(s[i].ll).2 as int),
    ];
    if i >= s.len() - 1 { adds } else {
        adds + seq![
            fld(st_ll(s, ll, i + 1).index - st_ll(s, ll, i).baseline, st_ll(s, ll, i).num_bits as int),
            fld(st_ml(s, ml, i + 1).index - st_ml(s, ml, i).baseline, st_ml(s, ml, i).num_bits as int),
            fld(st_of(s, of, i + 1).index - st_of(s, of, i).baseline, st_of(s, of, i).num_bits as int),
        ]
    }
}
/// reading order from sequence j to the end
pub open spec fn read_from(s: Seq<Sequence>, ll: &FSETable, ml: &FSETable, of: &FSETable, j: int) -> Seq<Field>
    decreases s.len() - j,
{
    if j >= s.len() { Seq::empty() } else { read_for(s, ll, ml, of, j) + read_from(s, ll, ml, of, j + 1) }
}
/// the whole sequences bitstream in READING order (the decoder reads the byte stream backwards, starting behind the padding marker)
pub open spec fn rfc_read_order(s: Seq<Sequence>, ll: &FSETable, ml: &FSETable, of: &FSETable) -> Seq<Field> {
    seq![
        fld(st_ll(s, ll, 0).index as int, ll.al()),
        fld(st_of(s, of, 0).index as int, of.al()),
        fld(st_ml(s, ml, 0).index as int, ml.al()),
    ] + read_from(s, ll, ml, of, 0)
}

pub proof fn lemma_rev_concat(a: Seq<Field>, b: Seq<Field>)
    ensures (a + b).reverse() =~= b.reverse() + a.reverse(),
{
}

pub proof fn lemma_fits(v: usize, n: int)
    requires 0 <= n <= 9, v < pow2(n as nat),
    ensures fits(v as u64, n as usize),
{
    lemma2_to64();
    assert((1u64 << 0u64) == 1 && (1u64 << 1u64) == 2 && (1u64 << 2u64) == 4 && (1u64 << 3u64) == 8 && (1u64 << 4u64) == 16 && (1u64 << 5u64) == 32
        && (1u64 << 6u64) == 64 && (1u64 << 7u64) == 128 && (1u64 << 8u64) == 256 && (1u64 << 9u64) == 512) by (bit_vector);
}
pub proof fn lemma_fits_all()
    ensures forall|v: usize, n: u8| n <= 9 && v < pow2(n as nat) ==> #[trigger] fits(v as u64, n as usize),
{
    assert forall|v: usize, n: u8| n <= 9 && v < pow2(n as nat) implies #[trigger] fits(v as u64, n as usize) by { lemma_fits(v, n as int); }
}
/// ilog2 of a table size is its accuracy log
pub proof fn lemma_ilog2_is_al(t: &FSETable, r: u32)
    requires t.wf(), pow2(r as nat) <= t.table_size, t.table_size < pow2((r + 1) as nat),
    ensures r == t.al(),
{
    let k = t.al() as nat;
    if (r as nat) < k { if r + 1 < k { lemma_pow2_strictly_increases((r + 1) as nat, k); } }
    if (r as nat) > k { lemma_pow2_strictly_increases(k, r as nat); }
}
pub proof fn lemma_ilog2_all(t: &FSETable)
    requires t.wf(),
    ensures forall|r: u32| #[trigger] is_ilog2(r, t.table_size) ==> r == t.al(),
{
    assert forall|r: u32| #[trigger] is_ilog2(r, t.table_size) implies r == t.al() by { reveal(is_ilog2); lemma_ilog2_is_al(t, r); }
}
pub open spec fn codes_ok(s: Seq<Sequence>, ll: &FSETable, ml: &FSETable, of: &FSETable) -> bool {
    forall|i: int| 0 <= i < s.len() ==> (#[trigger] s[i]).ml >= 3 && s[i].of >= 1
        && ll.has(spec_ll(s[i].ll).0) && ml.has(spec_ml(s[i].ml).0) && of.has(spec_of(s[i].of).0)
}

#[verifier::loop_isolation(false)]
pub fn encode_sequences(
    sequences: &[Sequence],
    writer: &mut BitWriter,
    ll_table: &FSETable,
    ml_table: &FSETable,
    of_table: &FSETable,
)
    requires
        sequences@.len() >= 1,
        ll_table.wf(), ml_table.wf(), of_table.wf(),
        codes_ok(sequences@, ll_table, ml_table, of_table),
    ensures
        // everything before the padding marker is the RFC's reading order, reversed
        final(writer).log().len() == old(writer).log().len() + rfc_read_order(sequences@, ll_table, ml_table, of_table).len() + 1,
        final(writer).log().subrange(0, final(writer).log().len() - 1) =~= old(writer).log() + rfc_read_order(sequences@, ll_table, ml_table, of_table).reverse(),
        // the last field is the padding marker: a single 1 bit in a field that ends the byte
        final(writer).log().last().v == 1 && 1 <= final(writer).log().last().w <= 8,
        final(writer).idx() % 8 == 0,
{
    let ghost s = sequences@;
    let ghost n = s.len() as int;
    let ghost log0 = writer.log();
    proof { broadcast use into_u64_u32, into_u64_u64; lemma2_to64(); lemma_fits_all(); assert((1u64 << 8u64) == 256 && (1u64 << 1u64) == 2 && (1u64 << 2u64) == 4 && (1u64 << 3u64) == 8
        && (1u64 << 4u64) == 16 && (1u64 << 5u64) == 32 && (1u64 << 6u64) == 64 && (1u64 << 7u64) == 128) by (bit_vector); }
    let sequence = sequences[sequences.len() - 1];
    let (ll_code, ll_add_bits, ll_num_bits) = encode_literal_length(sequence.ll);
    let (of_code, of_add_bits, of_num_bits) = encode_offset(sequence.of);
    let (ml_code, ml_add_bits, ml_num_bits) = encode_match_len(sequence.ml);
    let mut ll_state: &State = ll_table.start_state(ll_code);
    let mut ml_state: &State = ml_table.start_state(ml_code);
    let mut of_state: &State = of_table.start_state(of_code);

    writer.write_bits(ll_add_bits, ll_num_bits);
    writer.write_bits(ml_add_bits, ml_num_bits);
    writer.write_bits(of_add_bits, of_num_bits);

    // encode backwards so the decoder reads the first sequence first
    proof {
        assert(read_from(s, ll_table, ml_table, of_table, n) =~= Seq::<Field>::empty());
        assert(read_from(s, ll_table, ml_table, of_table, n - 1) =~= read_for(s, ll_table, ml_table, of_table, n - 1));
        assert(writer.log() =~= log0 + read_from(s, ll_table, ml_table, of_table, n - 1).reverse());
    }
    let ghost mut j: int = n - 1;
    if sequences.len() > 1 {
        let verif_lo_sequence: usize = 0; let mut verif_next_sequence: usize = (sequences.len() - 2) + 1;
        while verif_next_sequence > verif_lo_sequence 
            invariant
                0 <= j <= n - 1, j == verif_next_sequence, verif_lo_sequence == 0,
                writer.log() =~= log0 + read_from(s, ll_table, ml_table, of_table, j).reverse(),
                *ll_state == st_ll(s, ll_table, j), *ml_state == st_ml(s, ml_table, j), *of_state == st_of(s, of_table, j),
                ll_state.index < ll_table.table_size, ml_state.index < ml_table.table_size, of_state.index < of_table.table_size,
            decreases verif_next_sequence,
{
            let ghost logj = writer.log();
 verif_next_sequence -= 1; let sequence = verif_next_sequence;
            let sequence = sequences[sequence];
            let (ll_code, ll_add_bits, ll_num_bits) = encode_literal_length(sequence.ll);
            let (of_code, of_add_bits, of_num_bits) = encode_offset(sequence.of);
            let (ml_code, ml_add_bits, ml_num_bits) = encode_match_len(sequence.ml);

            {
                let next = of_table.next_state(of_code, of_state.index);
                let diff = of_state.index - next.baseline;
                writer.write_bits(diff as u64, next.num_bits as usize);
                of_state = next;
            }
            {
                let next = ml_table.next_state(ml_code, ml_state.index);
                let diff = ml_state.index - next.baseline;
                writer.write_bits(diff as u64, next.num_bits as usize);
                ml_state = next;
            }
            {
                let next = ll_table.next_state(ll_code, ll_state.index);
                let diff = ll_state.index - next.baseline;
                writer.write_bits(diff as u64, next.num_bits as usize);
                ll_state = next;
            }

            writer.write_bits(ll_add_bits, ll_num_bits);
            writer.write_bits(ml_add_bits, ml_num_bits);
            writer.write_bits(of_add_bits, of_num_bits);
        
            proof {
                let i = j - 1;
                let rf = read_for(s, ll_table, ml_table, of_table, i);
                assert(writer.log() =~= logj + rf.reverse());
                lemma_rev_concat(rf, read_from(s, ll_table, ml_table, of_table, i + 1));
                j = j - 1;
            }
}
    }
    proof {
        if n == 1 { assert(j == 0); }
        assert(j == 0);
        lemma_ilog2_all(ll_table); lemma_ilog2_all(ml_table); lemma_ilog2_all(of_table);
        lemma2_to64();
        lemma_fits(ml_state.index, ml_table.al()); lemma_fits(of_state.index, of_table.al()); lemma_fits(ll_state.index, ll_table.al());
    }
    let ghost logb = writer.log();
    writer.write_bits(ml_state.index as u64, ml_table.table_size.ilog2() as usize);
    writer.write_bits(of_state.index as u64, of_table.table_size.ilog2() as usize);
    writer.write_bits(ll_state.index as u64, ll_table.table_size.ilog2() as usize);

    proof {
        let head = seq![
            fld(st_ll(s, ll_table, 0).index as int, ll_table.al()),
            fld(st_of(s, of_table, 0).index as int, of_table.al()),
            fld(st_ml(s, ml_table, 0).index as int, ml_table.al()),
        ];
        assert(writer.log() =~= logb + head.reverse());
        lemma_rev_concat(head, read_from(s, ll_table, ml_table, of_table, 0));
        assert(writer.log() =~= log0 + rfc_read_order(s, ll_table, ml_table, of_table).reverse());
    }
    let bits_to_fill = writer.misaligned();
    if bits_to_fill == 0 {
        writer.write_bits(1u32, 8);
    } else {
        writer.write_bits(1u32, bits_to_fill);
    }
}

pub proof fn verif_canary_must_fail(x: int)
    requires x > 0,
    ensures x > 1,
{
}
} // verus!
fn main() {}
