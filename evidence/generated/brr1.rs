use vstd::prelude::*;
verus! {

global size_of usize == 8;

pub struct BitReaderReversed<'s> {
    pub index: usize,
    pub bits_consumed: u8,
    pub extra_bits: usize,
    pub source: &'s [u8],
    pub bit_container: u64,
}

/// little-endian load of 8 bytes (the real code: u64::from_le_bytes((&src[i..][..8]).try_into().unwrap()))
#[verifier::external_body]
pub fn le64_at(src: &[u8], at: usize) -> (r: u64)
    requires at + 8 <= src@.len(),
{
    let mut a = [0u8; 8];
    a.copy_from_slice(&src[at..at + 8]);
    u64::from_le_bytes(a)
}
/// little-endian load of the first min(8, len) bytes, zero padded
#[verifier::external_body]
pub fn le64_prefix(src: &[u8]) -> (r: u64) {
    let mut a = [0u8; 8];
    let n = if src.len() < 8 { src.len() } else { 8 };
    a[..n].copy_from_slice(&src[..n]);
    u64::from_le_bytes(a)
}

pub const EXTRA_LIMIT: usize = 0x4000_0000_0000_0000;

/// 2^n - 1 for n < 64 (0 for n == 0)
pub open spec fn low_mask(n: u8) -> u64 {
    ((1u64 << n) - 1) as u64
}

impl<'s> BitReaderReversed<'s> {
    /// data invariant: consumed bits within the container; the window [index, index+8) lies inside the source unless the reader is
    /// fresh (nothing loaded yet) or at the front (index == 0)
    pub open spec fn wf(&self) -> bool {
        self.bits_consumed <= 64
        && self.index <= self.source@.len()
        && self.source@.len() <= 0x1_0000_0000
        && (self.index + 8 <= self.source@.len() || self.index == 0 || (self.index == self.source@.len() && self.bits_consumed == 64))
        && self.extra_bits <= EXTRA_LIMIT
    }
    /// abstract position: how many bits have been handed out so far = 8 * len - bits_remaining()
    pub open spec fn remaining(&self) -> int {
        self.index as int * 8 + (64 - self.bits_consumed as int) - self.extra_bits as int
    }

    pub fn bits_remaining(&self) -> (r: isize)
        requires self.wf(),
        ensures r == self.remaining(), 0 <= self.extra_bits <= 8 * self.source@.len() + 64 - self.remaining(), self.source@.len() <= 0x1_0000_0000,
{
        self.index as isize * 8 + (64 - self.bits_consumed as isize) - self.extra_bits as isize
    }

    pub fn new(source: &'s [u8]) -> (r: BitReaderReversed<'s>)
        requires source@.len() <= 0x1_0000_0000,
        ensures r.wf(), r.remaining() == 8 * source@.len(), r.source@ == source@, r.extra_bits == 0,
{
        BitReaderReversed {
            index: source.len(),
            bits_consumed: 64,
            source,
            bit_container: 0,
            extra_bits: 0,
        }
    }

    pub fn refill(&mut self)
        requires old(self).wf(), old(self).extra_bits + 64 <= EXTRA_LIMIT,
        ensures
            final(self).wf(), final(self).source@ == old(self).source@,
            final(self).remaining() == old(self).remaining(),       // refilling does not move the position
            final(self).bits_consumed < 8,                          // at least 56 bits are available afterwards
            final(self).extra_bits <= old(self).extra_bits + 64,
            final(self).extra_bits >= old(self).extra_bits,
{
        proof {
            let b = self.bits_consumed;
            assert(b & 7 == b % 8) by (bit_vector);
        }
        let bytes_consumed = self.bits_consumed as usize / 8;
        if bytes_consumed == 0 {
            return;
        }

        if self.index >= bytes_consumed {
            // We can safely move the window contained in `bit_container` down by `bytes_consumed`
            // If the reader wasn't byte aligned, the byte that was partially read is now in the highest order bits in the `bit_container`
            self.index -= bytes_consumed;
            // Some bits of the `bits_container` might have been consumed already because we read the window byte aligned
            self.bits_consumed &= 7;
            self.bit_container =
                le64_at(self.source, self.index);
        } else if self.index > 0 {
            // Read the last portion of source into the `bit_container`
            if self.source.len() >= 8 {
                self.bit_container = le64_prefix(self.source);
            } else {
                
                
                self.bit_container = le64_prefix(self.source);
            }

            self.bits_consumed -= 8 * self.index as u8;
            self.index = 0;

            self.bit_container <<= self.bits_consumed;
            self.extra_bits += self.bits_consumed as usize;
            self.bits_consumed = 0;
        } else if self.bits_consumed < 64 {
            // Shift out already used bits and fill up with zeroes
            self.bit_container <<= self.bits_consumed;
            self.extra_bits += self.bits_consumed as usize;
            self.bits_consumed = 0;
        } else {
            // All useful bits have already been read and more than 64 bits have been consumed, all we now do is return zeroes
            self.extra_bits += self.bits_consumed as usize;
            self.bits_consumed = 0;
            self.bit_container = 0;
        }

        // Assert that at least `56 = 64 - 8` bits are available to read.
        
    }

    pub fn peek_bits(&mut self, n: u8) -> (r: u64)
        requires old(self).wf(), n <= 56, old(self).bits_consumed + n <= 64,
        ensures *final(self) == *old(self), r <= low_mask(n),
{
        proof {
            assert(n < 64 ==> (1u64 << n) >= 1) by (bit_vector);
            assert(forall|c: u64, m: u64| #[trigger] (c & m) <= m) by (bit_vector);
        }
        if n == 0 {
            return 0;
        }

        let mask = (1u64 << n) - 1u64;
        let shift_by = 64 - self.bits_consumed - n;
        (self.bit_container >> shift_by) & mask
    }

    pub fn peek_bits_triple(&mut self, sum: u8, n1: u8, n2: u8, n3: u8) -> (r: (u64, u64, u64))
        requires old(self).wf(), sum == n1 + n2 + n3, sum <= 56, old(self).bits_consumed + sum <= 64,
        ensures *final(self) == *old(self), r.0 <= low_mask(n1), r.1 <= low_mask(n2), r.2 <= low_mask(n3),
{
        proof {
            assert(forall|c: u64, m: u64| #[trigger] (c & m) <= m) by (bit_vector);
            assert(n1 < 64 ==> (1u64 << n1) >= 1) by (bit_vector);
            assert(n2 < 64 ==> (1u64 << n2) >= 1) by (bit_vector);
            assert(n3 < 64 ==> (1u64 << n3) >= 1) by (bit_vector);
        }
        if sum == 0 {
            return (0, 0, 0);
        }

        // all_three contains bits like this: |XXXX..XXX111122223333|
        // Where XXX are already consumed bytes, 1/2/3 are bits of the respective value
        // Lower bits are to the right
        let all_three = self.bit_container >> (64 - self.bits_consumed - sum);

        let mask1 = (1u64 << n1) - 1u64;
        let shift_by1 = n3 + n2;
        let val1 = (all_three >> shift_by1) & mask1;

        let mask2 = (1u64 << n2) - 1u64;
        let shift_by2 = n3;
        let val2 = (all_three >> shift_by2) & mask2;

        let mask3 = (1u64 << n3) - 1u64;
        let val3 = all_three & mask3;

        (val1, val2, val3)
    }

    pub fn consume(&mut self, n: u8)
        requires old(self).wf(), old(self).bits_consumed + n <= 64,
        ensures final(self).wf(), final(self).source@ == old(self).source@, final(self).remaining() == old(self).remaining() - n,
                final(self).extra_bits == old(self).extra_bits, final(self).bits_consumed == old(self).bits_consumed + n,
{
        self.bits_consumed += n;
        
    }

    pub fn get_bits(&mut self, n: u8) -> (r: u64)
        requires old(self).wf(), n <= 56, old(self).extra_bits + 64 <= EXTRA_LIMIT,
        ensures
            final(self).wf(), final(self).source@ == old(self).source@,
            final(self).remaining() == old(self).remaining() - n,
            final(self).extra_bits <= old(self).extra_bits + 64, final(self).extra_bits >= old(self).extra_bits,
            r <= low_mask(n),
{
        if self.bits_consumed + n > 64 {
            self.refill();
        }

        let value = self.peek_bits(n);
        self.consume(n);
        value
    }

    pub fn get_bits_triple(&mut self, n1: u8, n2: u8, n3: u8) -> (r: (u64, u64, u64))
        requires old(self).wf(), n1 <= 56, n2 <= 56, n3 <= 56, old(self).extra_bits + 192 <= EXTRA_LIMIT,
        ensures
            final(self).wf(), final(self).source@ == old(self).source@,
            final(self).remaining() == old(self).remaining() - (n1 + n2 + n3),
            final(self).extra_bits <= old(self).extra_bits + 192, final(self).extra_bits >= old(self).extra_bits,
            r.0 <= low_mask(n1), r.1 <= low_mask(n2), r.2 <= low_mask(n3),
{
        let sum = n1 + n2 + n3;
        if sum <= 56 {
            self.refill();

            let triple = self.peek_bits_triple(sum, n1, n2, n3);
            self.consume(sum);
            return triple;
        }

        (self.get_bits(n1), self.get_bits(n2), self.get_bits(n3))
    }
}

pub proof fn verif_canary_must_fail(x: int)
    requires x > 0,
    ensures x > 1,
{
}
} // verus!
fn main() {}
