use vstd::prelude::*;
verus! {

global size_of usize == 8;

#[verifier::external_body]
pub fn vpanic() -> !
    requires false,
{ panic!() }

pub const MAX_BLOCK_SIZE: u32 = 128 * 1024;

pub struct Error { pub k: u8 }
pub trait Read {
    spec fn avail(&self) -> int;
    /// std contract of `read`: SOME bytes, at most buf.len() (callers that need an exact count must use read_exact)
    fn read(&mut self, buf: &mut [u8]) -> (r: Result<usize, Error>)
        ensures
            final(buf)@.len() == old(buf)@.len(),
            r matches Ok(n) ==> n <= old(buf)@.len() && n <= old(self).avail() && final(self).avail() == old(self).avail() - n,
            r is Err ==> final(self).avail() <= old(self).avail();
    /// ghost mode flag: the reader is a caller-provided chunk of an incremental (slice-to-slice) decode; running out of bytes in the
    /// middle of a block would then turn "need more input" into a hard error, so a block body may only be decoded when it is entirely present
    spec fn incremental() -> bool;
    fn read_exact(&mut self, buf: &mut [u8]) -> (r: Result<(), Error>)
        ensures
            final(buf)@.len() == old(buf)@.len(),
            final(self).avail() >= 0 || old(self).avail() < 0,
            r is Ok ==> final(self).avail() == old(self).avail() - old(buf)@.len() && old(self).avail() >= old(buf)@.len(),
            r is Err ==> final(self).avail() <= old(self).avail();
}
#[verifier::external_body]
pub fn le_u32(b: [u8; 4]) -> (r: u32) { unimplemented!() }
/// `s[..4].try_into().expect(..)`: the first four bytes as an array (slice -> array conversion is outside Verus' std specs)
#[verifier::external_body]
pub fn first4(s: &[u8]) -> (r: [u8; 4])
    requires s@.len() >= 4,
{ unimplemented!() }

/// std / io_nostd: a byte slice is a reader that hands out its prefix and shrinks (Kani IO1 checks the no_std implementation)
impl<'a> Read for &'a [u8] {
    open spec fn avail(&self) -> int { self@.len() as int }
    open spec fn incremental() -> bool { true }
    #[verifier::external_body]
    fn read(&mut self, buf: &mut [u8]) -> (r: Result<usize, Error>) { unimplemented!() }
    #[verifier::external_body]
    fn read_exact(&mut self, buf: &mut [u8]) -> (r: Result<(), Error>) { unimplemented!() }
}

#[derive(Clone, Copy, PartialEq, Eq)]
pub enum BlockType { Raw, RLE, Compressed, Reserved }
pub struct BlockHeader { pub last_block: bool, pub block_type: BlockType, pub decompressed_size: u32, pub content_size: u32 }

pub enum BlockHeaderReadError { Any }
pub enum DecodeBlockContentError { Any }
pub enum FrameDecoderError {
    FailedToReadBlockHeader(BlockHeaderReadError),
    FailedToReadBlockBody(DecodeBlockContentError),
    FailedToReadChecksum(Error),
    FailedToDrainDecodebuffer(Error),
    NotYetInitialized,
    Other,
}

#[verifier::external_body]
pub struct DecodeBuffer { _o: u8 }
impl DecodeBuffer {
    pub uninterp spec fn spec_len(&self) -> int;
    #[verifier::external_body]
    pub fn len(&self) -> (r: usize) ensures r == self.spec_len(), { unimplemented!() }
}
pub struct DecoderScratch { pub buffer: DecodeBuffer }

pub struct FrameDescriptor(pub u8);
impl FrameDescriptor {
    pub uninterp spec fn spec_checksum_flag(&self) -> bool;
    #[verifier::external_body]
    pub fn content_checksum_flag(&self) -> (r: bool) ensures r == self.spec_checksum_flag(), { unimplemented!() }
}
pub struct FrameHeader { pub descriptor: FrameDescriptor }

pub struct FrameDecoderState {
    pub frame_header: FrameHeader,
    pub decoder_scratch: DecoderScratch,
    pub frame_finished: bool,
    pub block_counter: usize,
    pub bytes_read_counter: u64,
    pub check_sum: Option<u32>,
    pub using_dict: Option<u32>,
}
pub struct FrameDecoder { pub state: Option<FrameDecoderState> }

pub enum BlockDecodingStrategy { All, UptoBlocks(usize), UptoBytes(usize) }

pub struct BlockDecoder { _o: u8 }
#[verifier::external_body]
pub fn block_decoder_new() -> BlockDecoder { unimplemented!() }
impl BlockDecoder {
    /// H1 (Kani, all 2^24 headers + every truncation)
    #[verifier::external_body]
    pub fn read_block_header<R: Read>(&mut self, r: &mut R) -> (res: Result<(BlockHeader, u8), BlockHeaderReadError>)
        ensures
            final(r).avail() <= old(r).avail(),
            res matches Ok(hs) ==> hs.1 == 3 && final(r).avail() == old(r).avail() - 3 && old(r).avail() >= 3,
    { unimplemented!() }
    /// B1 (Kani) / B2 (Verus): the block body
    #[verifier::external_body]
    pub fn decode_block_content<R: Read>(&mut self, header: &BlockHeader, workspace: &mut DecoderScratch, source: &mut R) -> (res: Result<u64, DecodeBlockContentError>)
        requires R::incremental() ==> old(source).avail() >= header.content_size,
        ensures
            res matches Ok(n) ==> final(source).avail() == old(source).avail() - n && old(source).avail() >= n
                && final(workspace).buffer.spec_len() >= old(workspace).buffer.spec_len()
                && final(workspace).buffer.spec_len() <= old(workspace).buffer.spec_len() + MAX_BLOCK_SIZE,
    { unimplemented!() }
}

pub open spec fn max1(n: int) -> int { if n < 1 { 1 } else { n } }

impl FrameDecoder {
    /// FD4 / H2 / H4 (Kani): a successful init installs a fresh state whose consumed-bytes counter is exactly the header bytes taken
    #[verifier::external_body]
    pub fn init<R: Read>(&mut self, source: &mut R) -> (r: Result<(), FrameDecoderError>)
        ensures
            final(source).avail() <= old(source).avail(),
            r is Ok ==> final(self).state is Some
                && final(self).state->0.bytes_read_counter == old(source).avail() - final(source).avail()
                && !final(self).state->0.frame_finished && final(self).state->0.check_sum is None && final(self).state->0.block_counter == 0,
    { unimplemented!() }
    /// D1/D2 (Kani): draining touches only the decode buffer
    #[verifier::external_body]
    pub fn read(&mut self, target: &mut [u8]) -> (r: Result<usize, Error>)
        ensures
            final(target)@.len() == old(target)@.len(),
            r matches Ok(n) ==> n <= old(target)@.len(),
            final(self).state is Some <==> old(self).state is Some,
            old(self).state matches Some(s0) ==> ({
                let s1 = final(self).state->0;
                s1.bytes_read_counter == s0.bytes_read_counter && s1.block_counter == s0.block_counter && s1.frame_finished == s0.frame_finished
                && s1.check_sum == s0.check_sum && s1.using_dict == s0.using_dict && s1.frame_header == s0.frame_header
            }),
    { unimplemented!() }

    pub fn is_finished(&self) -> (r: bool)
        ensures r == self.spec_is_finished(),
{
        let state = match &self.state {
            None => return true,
            Some(s) => s,
        };
        if state.frame_header.descriptor.content_checksum_flag() {
            state.frame_finished && state.check_sum.is_some()
        } else {
            state.frame_finished
        }
    }

    pub open spec fn spec_is_finished(&self) -> bool {
        match self.state {
            None => true,
            Some(s) => if s.frame_header.descriptor.spec_checksum_flag() { s.frame_finished && s.check_sum is Some } else { s.frame_finished },
        }
    }

#[verifier::loop_isolation(false)]
    pub fn decode_from_to(
        &mut self,
        source: &[u8],
        target: &mut [u8],
    ) -> (r: Result<(usize, usize), FrameDecoderError>)
        requires
            source@.len() <= usize::MAX,      // true of every slice; stated because the spec-level length is unbounded
            old(self).state matches Some(st) ==> st.bytes_read_counter + source@.len() <= u64::MAX && st.block_counter + source@.len() <= usize::MAX
                && st.decoder_scratch.buffer.spec_len() >= 0,
        ensures
            r matches Ok(rw) ==> ({
                let read = rw.0;
                let written = rw.1;
                // never more than it was given, and exactly what the consumed-bytes counter says
                &&& read <= source@.len() && written <= old(target)@.len()
                &&& final(self).state is Some
                &&& (old(self).state matches Some(s0) ==> final(self).state->0.bytes_read_counter - s0.bytes_read_counter == read)
                &&& (old(self).state is None ==> final(self).state->0.bytes_read_counter == read)
            }),
{
        use FrameDecoderError as err;
        let bytes_read_at_start = match &self.state {
            Some(s) => s.bytes_read_counter,
            None => 0,
        };

        if !self.is_finished() || self.state.is_none() {
            let mut mt_source = source;

            if self.state.is_none() {
                self.init(&mut mt_source)?;
            }

            //pseudo block to scope "state" so we can borrow self again after the block
            {
                let state = match &mut self.state {
                    Some(s) => s,
                    None => vpanic(),
                };
                let mut block_dec = block_decoder_new();

                if state.frame_header.descriptor.content_checksum_flag()
                    && state.frame_finished
                    && state.check_sum.is_none()
                {
                    //this block is needed if the checksum were the only 4 bytes that were not included in the last decode_from_to call for a frame
                    if mt_source.len() >= 4 {
                        let chksum = first4(mt_source);
                        state.bytes_read_counter += 4;
                        let chksum = le_u32(chksum);
                        state.check_sum = Some(chksum);
                        return Ok((4, 0));
                    }
                    // Not enough bytes for the checksum yet, nothing was consumed
                    return Ok((0, 0));
                }

                let ghost cm0 = state.bytes_read_counter as int;
                let ghost lm0 = mt_source@.len() as int;
                let ghost bm0 = state.block_counter as int;
                proof {
                    if old(self).state is None {
                        assert(cm0 == source@.len() - lm0);
                        assert(bm0 == 0);
                    } else {
                        assert(lm0 == source@.len());
                        assert(cm0 == old(self).state->0.bytes_read_counter);
                        assert(bm0 == old(self).state->0.block_counter);
                    }
                }
                loop 
                    invariant
                        mt_source@.len() <= lm0,
                        state.bytes_read_counter - cm0 == lm0 - mt_source@.len(),
                        state.block_counter >= bm0, 3 * (state.block_counter - bm0) <= lm0 - mt_source@.len(),
                        cm0 + lm0 <= u64::MAX, bm0 + lm0 <= usize::MAX,
                    decreases mt_source@.len(),
{
                    //check if there are enough bytes for the next header
                    if mt_source.len() < 3 {
                        // progress: the block loop may stop for lack of a header only if fewer than 3 bytes are left (a block header is 3
                        // bytes, and an empty last block is nothing but its header)
                        proof { assert(mt_source@.len() < 3); }
                        break;
                    }
                    let (block_header, block_header_size) = block_dec
                        .read_block_header(&mut mt_source)
                        .map_err(|verif_e| err::FailedToReadBlockHeader(verif_e))?;

                    // check the needed size for the block before updating counters.
                    // If not enough bytes are in the source, the header will have to be read again, so act like we never read it in the first place
                    if mt_source.len() < block_header.content_size as usize {
                        // ... and for lack of content only if the block body is not entirely present yet
                        proof { assert(mt_source@.len() < block_header.content_size); }
                        break;
                    }
                    state.bytes_read_counter += u64::from(block_header_size);

                    let bytes_read_in_block_body = block_dec
                        .decode_block_content(
                            &block_header,
                            &mut state.decoder_scratch,
                            &mut mt_source,
                        )
                        .map_err(|verif_e| err::FailedToReadBlockBody(verif_e))?;
                    state.bytes_read_counter += bytes_read_in_block_body;
                    state.block_counter += 1;

                    if block_header.last_block {
                        state.frame_finished = true;
                        if state.frame_header.descriptor.content_checksum_flag() {
                            //if there are enough bytes handle this here. Else the block at the start of this function will handle it at the next call
                            if mt_source.len() >= 4 {
                                let chksum = first4(mt_source);
                                state.bytes_read_counter += 4;
                                let chksum = le_u32(chksum);
                                state.check_sum = Some(chksum);
                            }
                        }
                        break;
                    }
                }
            }
        }

        let result_len = self.read(target).map_err(|verif_e| err::FailedToDrainDecodebuffer(verif_e))?;
        let bytes_read_at_end = match &mut self.state {
            Some(s) => s.bytes_read_counter,
            None => vpanic(),
        };
        let read_len = bytes_read_at_end - bytes_read_at_start;
        Ok((read_len as usize, result_len))
    }

#[verifier::loop_isolation(false)]
    pub fn decode_blocks<R: Read>(
        &mut self,
        source: &mut R,
        strat: BlockDecodingStrategy,
    ) -> (r: Result<bool, FrameDecoderError>)
        // contract of FrameDecoder::decode_blocks: PROVED in unit FD1V (on the verbatim body), ASSUMED in unit FD3V
        requires
            old(source).avail() >= 0,
            !R::incremental(),      // the streaming entry point: a truncated source is an error (C10), not "need more"
            old(self).state matches Some(st) ==> st.bytes_read_counter + old(source).avail() <= u64::MAX && st.block_counter + old(source).avail() <= usize::MAX
                && st.decoder_scratch.buffer.spec_len() >= 0
                && !st.frame_finished,        // callers ask is_finished() first (SD1, FD3); a finished frame has no next block
        ensures
            old(self).state is None ==> r is Err && final(source).avail() == old(source).avail(),
            final(self).state is Some <==> old(self).state is Some,
            r matches Ok(fin) ==> ({
                let s0 = old(self).state->0;
                let s1 = final(self).state->0;
                let blocks = s1.block_counter - s0.block_counter;
                let grown = s1.decoder_scratch.buffer.spec_len() - s0.decoder_scratch.buffer.spec_len();
                &&& fin == s1.frame_finished
                &&& final(source).avail() >= 0
                // exact accounting of source bytes
                &&& s1.bytes_read_counter - s0.bytes_read_counter == old(source).avail() - final(source).avail()
                // strictly one block after the other, at least one per call
                &&& blocks >= 1 && grown >= 0
                &&& old(source).avail() - final(source).avail() >= 3 * blocks      // every block costs at least its 3-byte header
                // the strategy only decides when to return
                &&& (strat matches BlockDecodingStrategy::UptoBlocks(n) ==> blocks <= max1(n as int) && (!fin ==> blocks >= n))
                &&& (strat matches BlockDecodingStrategy::UptoBytes(n) ==> grown < n + MAX_BLOCK_SIZE + (if n == 0 { 1int } else { 0int }) && (!fin ==> grown >= n))
                &&& (strat is All ==> fin)
                // checksum stored iff the frame says there is one (and only when the last block was just decoded)
                &&& (fin && s1.frame_header.descriptor.spec_checksum_flag() ==> s1.check_sum is Some)
                &&& (!fin ==> s1.check_sum == s0.check_sum)
                &&& s1.using_dict == s0.using_dict
            }),
{
        // the prophesied final value of self.state, named before the field is mutably borrowed (afterwards `final(self)` cannot be mentioned)
        let ghost fstate = final(self).state;
        use FrameDecoderError as err;
        let state = self.state.as_mut().ok_or(err::NotYetInitialized)?;

        let mut block_dec = block_decoder_new();

        let ghost s0 = old(self).state->0;
        let ghost a0 = old(source).avail();
        proof {
            assert(old(self).state is Some);
            assert(*state == s0);
            assert(fstate == Some(*final(state)));
        }
        let buffer_size_before = state.decoder_scratch.buffer.len();
        let block_counter_before = state.block_counter;
        loop 
            invariant
                old(self).state is Some, s0 == old(self).state->0, a0 == old(source).avail(),
                fstate == Some(*final(state)),
                a0 >= 0, 0 <= source.avail() <= a0,
                s0.bytes_read_counter + a0 <= u64::MAX, s0.block_counter + a0 <= usize::MAX, !s0.frame_finished,
                state.bytes_read_counter - s0.bytes_read_counter == a0 - source.avail(),
                state.block_counter >= s0.block_counter, 3 * (state.block_counter - s0.block_counter) <= a0 - source.avail(),
                block_counter_before == s0.block_counter, buffer_size_before == s0.decoder_scratch.buffer.spec_len(),
                state.decoder_scratch.buffer.spec_len() >= buffer_size_before,
                state.block_counter == s0.block_counter ==> state.decoder_scratch.buffer.spec_len() == buffer_size_before,
                state.frame_finished == s0.frame_finished, state.check_sum == s0.check_sum, state.using_dict == s0.using_dict,
                state.frame_header == s0.frame_header,
                strat matches BlockDecodingStrategy::UptoBlocks(n) ==> state.block_counter == s0.block_counter || state.block_counter - s0.block_counter < n,
                strat matches BlockDecodingStrategy::UptoBytes(n) ==> state.block_counter == s0.block_counter || state.decoder_scratch.buffer.spec_len() - buffer_size_before < n,
            decreases source.avail(),
{
            
            
            
            let (block_header, block_header_size) = block_dec
                .read_block_header(source)
                .map_err(|verif_e| err::FailedToReadBlockHeader(verif_e))?;
            state.bytes_read_counter += u64::from(block_header_size);

            
            

            let bytes_read_in_block_body = block_dec
                .decode_block_content(&block_header, &mut state.decoder_scratch, source)
                .map_err(|verif_e| err::FailedToReadBlockBody(verif_e))?;
            state.bytes_read_counter += bytes_read_in_block_body;

            state.block_counter += 1;

            

            if block_header.last_block {
                state.frame_finished = true;
                if state.frame_header.descriptor.content_checksum_flag() {
                    let mut chksum = [0u8; 4];
                    source
                        .read_exact(&mut chksum)
                        .map_err(|verif_e| err::FailedToReadChecksum(verif_e))?;
                    state.bytes_read_counter += 4;
                    let chksum = le_u32(chksum);
                    state.check_sum = Some(chksum);
                }
                break;
            }

            match strat {
                BlockDecodingStrategy::All => { /* keep going */ }
                BlockDecodingStrategy::UptoBlocks(n) => {
                    if state.block_counter - block_counter_before >= n {
                        break;
                    }
                }
                BlockDecodingStrategy::UptoBytes(n) => {
                    if state.decoder_scratch.buffer.len() - buffer_size_before >= n {
                        break;
                    }
                }
            }
        }
        proof {
            let s1 = *state;
            let blocks = s1.block_counter - s0.block_counter;
            let grown = s1.decoder_scratch.buffer.spec_len() - s0.decoder_scratch.buffer.spec_len();
            assert(s1.bytes_read_counter - s0.bytes_read_counter == a0 - source.avail());
            assert(blocks >= 1 && grown >= 0);
            assert(strat matches BlockDecodingStrategy::UptoBlocks(n) ==> blocks <= max1(n as int) && (!s1.frame_finished ==> blocks >= n));
            assert(strat matches BlockDecodingStrategy::UptoBytes(n) ==> grown < n + MAX_BLOCK_SIZE + (if n == 0 { 1int } else { 0int }) && (!s1.frame_finished ==> grown >= n));
            assert(strat is All ==> s1.frame_finished);
            assert(s1.frame_finished && s1.frame_header.descriptor.spec_checksum_flag() ==> s1.check_sum is Some);
            assert(!s1.frame_finished ==> s1.check_sum == s0.check_sum);
            assert(s1.using_dict == s0.using_dict);
        }

        Ok(state.frame_finished)
    }
}

pub proof fn verif_canary_must_fail(x: int)
    requires x > 0,
    ensures x > 1,
{
}
} // verus!
fn main() {}
