use vstd::prelude::*;
verus! {

global size_of usize == 8;   // x86_64, as in the Kani units

pub enum DecodeBufferError {
    NotEnoughBytesInDictionary { got: usize, need: usize },
    OffsetTooBig { offset: usize, buf_len: usize },
}

#[verifier::external_body]
pub struct RingBuffer { _opaque: u8 }

impl RingBuffer {
    /// queue content
    pub uninterp spec fn view(&self) -> Seq<u8>;
    /// free() of the real buffer
    pub uninterp spec fn freecap(&self) -> int;
    /// documented invariant 1: the allocation never exceeds isize::MAX
    pub open spec fn inv(&self) -> bool {
        0 <= self.freecap() && self.view().len() + self.freecap() < isize::MAX
    }

    #[verifier::external_body]
    pub fn len(&self) -> (r: usize)
        requires self.inv(),
        ensures r == self.view().len(),
    { unimplemented!() }

    #[verifier::external_body]
    pub fn reserve(&mut self, amount: usize)
        requires old(self).inv(),
        ensures final(self).inv(), final(self).view() == old(self).view(), final(self).freecap() >= amount,
    { unimplemented!() }

    #[verifier::external_body]
    pub fn extend(&mut self, data: &[u8])
        requires old(self).inv(),
        ensures final(self).inv(), final(self).view() == old(self).view() + data@,
    { unimplemented!() }

    /// SAFETY contract of the real unsafe fn: start + len <= self.len() and free() >= len
    #[verifier::external_body]
    pub unsafe fn extend_from_within_unchecked(&mut self, start: usize, len: usize)
        requires old(self).inv(), start + len <= old(self).view().len(), old(self).freecap() >= len,
        ensures
            final(self).inv(),
            final(self).view() == old(self).view() + old(self).view().subrange(start as int, start + len),
            final(self).freecap() == old(self).freecap() - len,
    { unimplemented!() }
}

pub struct DecodeBuffer {
    pub buffer: RingBuffer,
    pub dict_content: Vec<u8>,
    pub window_size: usize,
    pub total_output_counter: u64,
}

/// RFC 8878 3.1.1.4: byte i of a match is the byte `offset` positions before it in the output produced so far
pub open spec fn match_copy(v: Seq<u8>, offset: int, n: int) -> Seq<u8>
    decreases n,
{
    if n <= 0 { Seq::empty() } else {
        let prev = match_copy(v, offset, n - 1);
        prev.push((v + prev)[v.len() + (n - 1) - offset])
    }
}

pub proof fn lemma_match_copy_len(v: Seq<u8>, offset: int, n: int)
    requires n >= 0,
    ensures match_copy(v, offset, n).len() == n,
    decreases n,
{
    if n > 0 { lemma_match_copy_len(v, offset, n - 1); }
}

/// copying `chunk <= offset` bytes from `offset` back is one step of the byte-at-a-time copy done `chunk` times
pub proof fn lemma_chunk(v: Seq<u8>, offset: int, done: int, chunk: int)
    requires 1 <= offset <= v.len(), 0 <= done, 0 <= chunk <= offset,
    ensures ({
        let cur = v + match_copy(v, offset, done);
        cur + cur.subrange(cur.len() - offset, cur.len() - offset + chunk) == v + match_copy(v, offset, done + chunk)
    }),
    decreases chunk,
{
    lemma_match_copy_len(v, offset, done);
    let cur = v + match_copy(v, offset, done);
    if chunk == 0 {
        assert(cur.subrange(cur.len() - offset, cur.len() - offset) =~= Seq::<u8>::empty());
        assert(cur + Seq::<u8>::empty() =~= cur);
    } else {
        lemma_chunk(v, offset, done, chunk - 1);
        lemma_match_copy_len(v, offset, done + chunk - 1);
        let prev = match_copy(v, offset, done + chunk - 1);
        let a = cur + cur.subrange(cur.len() - offset, cur.len() - offset + chunk - 1);
        assert(a == v + prev);
        let b = cur.subrange(cur.len() - offset, cur.len() - offset + chunk);
        assert(b =~= cur.subrange(cur.len() - offset, cur.len() - offset + chunk - 1).push(cur[cur.len() - offset + chunk - 1]));
        // the byte appended by the spec: (v + prev)[|v| + done + chunk - 1 - offset] == cur[|cur| - offset + chunk - 1]  (chunk - 1 < offset)
        assert((v + prev)[v.len() + (done + chunk - 1) - offset] == cur[cur.len() - offset + chunk - 1]);
        assert(cur + b =~= (v + prev).push(cur[cur.len() - offset + chunk - 1]));
        assert(v + match_copy(v, offset, done + chunk) =~= (v + prev).push((v + prev)[v.len() + (done + chunk - 1) - offset]));
    }
}

/// a match that does not overlap itself is a plain subrange
pub proof fn lemma_no_overlap(v: Seq<u8>, offset: int, n: int)
    requires 1 <= offset <= v.len(), 0 <= n <= offset,
    ensures match_copy(v, offset, n) == v.subrange(v.len() - offset, v.len() - offset + n),
{
    lemma_chunk(v, offset, 0, n);
    assert(match_copy(v, offset, 0) =~= Seq::<u8>::empty());
    assert(v + Seq::<u8>::empty() =~= v);
    lemma_match_copy_len(v, offset, n);
    let s = v.subrange(v.len() - offset, v.len() - offset + n);
    assert((v + s).subrange(v.len() as int, v.len() + n) =~= s);
    assert((v + match_copy(v, offset, n)).subrange(v.len() as int, v.len() + n) =~= match_copy(v, offset, n));
}

impl DecodeBuffer {
    pub open spec fn inv(&self) -> bool { self.buffer.inv() }

    pub fn len(&self) -> (r: usize)
        requires self.inv(),
        ensures r == self.buffer.view().len(),
{
        self.buffer.len()
    }

    pub fn push(&mut self, data: &[u8])
        requires old(self).inv(), old(self).total_output_counter + data@.len() <= u64::MAX,
        ensures
            final(self).inv(),
            final(self).buffer.view() == old(self).buffer.view() + data@,
            final(self).total_output_counter == old(self).total_output_counter + data@.len(),
            final(self).dict_content == old(self).dict_content, final(self).window_size == old(self).window_size,
{
        self.buffer.extend(data);
        self.total_output_counter += data.len() as u64;
    }

    pub fn repeat_in_chunks(&mut self, offset: usize, match_length: usize, start_idx: usize)
        requires
            old(self).inv(),
            offset >= 1,                                   // offset 0 would never terminate: callers must exclude it (Q3 does)
            offset <= old(self).buffer.view().len(),
            start_idx + offset == old(self).buffer.view().len(),
            old(self).buffer.freecap() >= match_length,
        ensures
            final(self).inv(),
            final(self).buffer.view() == old(self).buffer.view() + match_copy(old(self).buffer.view(), offset as int, match_length as int),
            final(self).total_output_counter == old(self).total_output_counter,
            final(self).dict_content == old(self).dict_content, final(self).window_size == old(self).window_size,
{
        proof {
            assert(match_copy(old(self).buffer.view(), offset as int, 0) =~= Seq::<u8>::empty());
            assert(old(self).buffer.view() + Seq::<u8>::empty() =~= old(self).buffer.view());
        }
        // We have at max offset bytes in one chunk, the last one can be smaller
        let mut start_idx = start_idx;
        let mut copied_counter_left = match_length;
        // TODO this can  be optimized further I think.
        // Each time we copy a chunk we have a repetiton of length 'offset', so we can copy offset * iteration many bytes from start_idx
        while copied_counter_left > 0 
            invariant
                self.inv(), offset >= 1, offset <= old(self).buffer.view().len(),
                copied_counter_left <= match_length,
                start_idx + offset == self.buffer.view().len(),
                self.buffer.freecap() >= copied_counter_left,
                self.buffer.view() == old(self).buffer.view() + match_copy(old(self).buffer.view(), offset as int, match_length - copied_counter_left),
                self.total_output_counter == old(self).total_output_counter,
                self.dict_content == old(self).dict_content, self.window_size == old(self).window_size,
            decreases copied_counter_left,
{
            let chunksize = usize::min(offset, copied_counter_left);

            // SAFETY: Requirements checked:
            // 1. start_idx + chunksize must be <= self.buffer.len()
            //      We know that:
            //      1. start_idx starts at buffer.len() - offset
            //      2. chunksize <= offset (== offset for each iteration but the last, and match_length modulo offset in the last iteration)
            //      3. the buffer grows by offset many bytes each iteration but the last
            //      4. start_idx is increased by the same amount as the buffer grows each iteration
            //
            //      Thus follows: start_idx + chunksize == self.buffer.len() in each iteration but the last, where match_length modulo offset == chunksize < offset
            //          Meaning: start_idx + chunksize <= self.buffer.len()
            //
            // 2. explicitly reserved enough memory for the whole match_length
            unsafe {
                self.buffer
                    .extend_from_within_unchecked(start_idx, chunksize)
            };
            proof {
                lemma_chunk(old(self).buffer.view(), offset as int, match_length - copied_counter_left, chunksize as int);
                lemma_match_copy_len(old(self).buffer.view(), offset as int, match_length - copied_counter_left);
            }
            copied_counter_left -= chunksize;
            start_idx += chunksize;
        }
    }

    pub fn repeat(&mut self, offset: usize, match_length: usize) -> (r: Result<(), DecodeBufferError>)
        requires
            old(self).inv(), offset >= 1,
            match_length <= u32::MAX,                      // call site: `seq.ml as usize`
            old(self).total_output_counter + match_length + old(self).dict_content@.len() <= u64::MAX,
        ensures
            final(self).inv(),
            final(self).dict_content == old(self).dict_content, final(self).window_size == old(self).window_size,
            // the only errors: the offset reaches before everything retained
            r is Err ==> offset > old(self).buffer.view().len() && final(self).buffer.view() == old(self).buffer.view(),
            offset <= old(self).buffer.view().len() ==> r is Ok,
            r is Ok && offset <= old(self).buffer.view().len() ==>
                final(self).buffer.view() == old(self).buffer.view() + match_copy(old(self).buffer.view(), offset as int, match_length as int)
                && final(self).total_output_counter == old(self).total_output_counter + match_length,
            // dictionary case: the bytes are those of the match copy over dict ++ view
            r is Ok && offset > old(self).buffer.view().len() ==>
                final(self).buffer.view() == old(self).buffer.view() + match_copy(old(self).dict_content@ + old(self).buffer.view(), offset as int, match_length as int),
            r is Ok ==> final(self).buffer.view().len() == old(self).buffer.view().len() + match_length,
            // the output counter (which decides how long the dictionary stays reachable) advances by exactly the match length,
            // except - the code's actual rule, see DESIGN.md C09 - for a match taken entirely from the dictionary, which does not advance it
            r is Ok ==> final(self).total_output_counter == old(self).total_output_counter
                + (if offset > old(self).buffer.view().len() && offset - old(self).buffer.view().len() >= match_length { 0int } else { match_length as int }),
            r is Err ==> final(self).total_output_counter == old(self).total_output_counter,
        decreases (if offset > old(self).buffer.view().len() { 1int } else { 0int }), 1int,
{
        if offset > self.buffer.len() {
            self.repeat_from_dict(offset, match_length)
        } else {
            let buf_len = self.buffer.len();
            let start_idx = buf_len - offset;
            let end_idx = start_idx + match_length;

            self.buffer.reserve(match_length);
            if end_idx > buf_len {
                // We need to copy in chunks.
                self.repeat_in_chunks(offset, match_length, start_idx);
            } else {
                // can just copy parts of the existing buffer
                // SAFETY: Requirements checked:
                // 1. start_idx + match_length must be <= self.buffer.len()
                //      We know that:
                //      1. start_idx = self.buffer.len() - offset
                //      2. end_idx = start_idx + match_length
                //      3. end_idx <= self.buffer.len()
                //      Thus follows: start_idx + match_length <= self.buffer.len()
                //
                // 2. explicitly reserved enough memory for the whole match_length
                unsafe {
                    self.buffer
                        .extend_from_within_unchecked(start_idx, match_length)
                };
            }

            proof {
                if end_idx <= buf_len {
                    lemma_no_overlap(old(self).buffer.view(), offset as int, match_length as int);
                }
                lemma_match_copy_len(old(self).buffer.view(), offset as int, match_length as int);
            }
            self.total_output_counter += match_length as u64;
            Ok(())
        }
    }

    pub fn repeat_from_dict(
        &mut self,
        offset: usize,
        match_length: usize,
    ) -> (r: Result<(), DecodeBufferError>)
        requires
            old(self).inv(), offset >= 1, offset > old(self).buffer.view().len(),
            match_length <= u32::MAX,
            old(self).total_output_counter + match_length + old(self).dict_content@.len() <= u64::MAX,
        ensures
            final(self).inv(),
            final(self).dict_content == old(self).dict_content, final(self).window_size == old(self).window_size,
            r is Err ==> final(self).buffer.view() == old(self).buffer.view(),
            // Err exactly when the dictionary is out of reach (window passed) or too short
            (r is Err) <==> (old(self).total_output_counter > old(self).window_size as u64
                             || offset - old(self).buffer.view().len() > old(self).dict_content@.len()),
            r is Ok ==>
                final(self).buffer.view() == old(self).buffer.view() + match_copy(old(self).dict_content@ + old(self).buffer.view(), offset as int, match_length as int),
            r is Ok ==> final(self).buffer.view().len() == old(self).buffer.view().len() + match_length,
            r is Ok ==> final(self).total_output_counter == old(self).total_output_counter
                + (if offset - old(self).buffer.view().len() >= match_length { 0int } else { match_length as int }),
            r is Err ==> final(self).total_output_counter == old(self).total_output_counter,
        decreases 1int, 0int,
{
        proof {
            if offset - old(self).buffer.view().len() <= old(self).dict_content@.len() {
                lemma_dict_split(old(self).dict_content@, old(self).buffer.view(), offset as int, match_length as int);
            }
        }
        if self.total_output_counter <= self.window_size as u64 {
            // at least part of that repeat is from the dictionary content
            let bytes_from_dict = offset - self.buffer.len();

            if bytes_from_dict > self.dict_content.len() {
                return Err(DecodeBufferError::NotEnoughBytesInDictionary {
                    got: self.dict_content.len(),
                    need: bytes_from_dict,
                });
            }

            if bytes_from_dict < match_length {
                let dict_slice = &self.dict_content[self.dict_content.len() - bytes_from_dict..];
                self.buffer.extend(dict_slice);

                self.total_output_counter += bytes_from_dict as u64;
                return self.repeat(self.buffer.len(), match_length - bytes_from_dict);
            } else {
                let low = self.dict_content.len() - bytes_from_dict;
                let high = low + match_length;
                let dict_slice = &self.dict_content[low..high];
                self.buffer.extend(dict_slice);
            }
            Ok(())
        } else {
            Err(DecodeBufferError::OffsetTooBig {
                offset,
                buf_len: self.buffer.len(),
            })
        }
    }
}

/// match copy over dict ++ view with an offset reaching `k = offset - |view|` bytes into the dictionary:
///  * n <= k : the bytes are dict[|dict|-k .. |dict|-k+n]
///  * n >  k : first the k dictionary bytes, then a match copy over the grown view with offset == its length
pub proof fn lemma_dict_split(dict: Seq<u8>, view: Seq<u8>, offset: int, n: int)
    requires offset > view.len(), offset - view.len() <= dict.len(), n >= 0,
    ensures ({
        let k = offset - view.len();
        let all = dict + view;
        (n <= k ==> match_copy(all, offset, n) == dict.subrange(dict.len() - k, dict.len() - k + n))
        && (n > k ==> match_copy(all, offset, n)
                == dict.subrange(dict.len() - k, dict.len() as int)
                   + match_copy(view + dict.subrange(dict.len() - k, dict.len() as int), view.len() + k, n - k))
    }),
    decreases n,
{
    let k = offset - view.len();
    let all = dict + view;
    let tailk = dict.subrange(dict.len() - k, dict.len() as int);
    if n == 0 {
        assert(match_copy(all, offset, 0) =~= Seq::<u8>::empty());
        assert(dict.subrange(dict.len() - k, dict.len() - k) =~= Seq::<u8>::empty());
    } else {
        lemma_dict_split(dict, view, offset, n - 1);
        lemma_match_copy_len(all, offset, n - 1);
        let prev = match_copy(all, offset, n - 1);
        if n <= k {
            // byte n-1 comes from all[|all| + n - 1 - offset] = all[|dict| - k + n - 1] = dict[...]
            assert((all + prev)[all.len() + (n - 1) - offset] == dict[dict.len() - k + n - 1]);
            assert(match_copy(all, offset, n) =~= dict.subrange(dict.len() - k, dict.len() - k + n));
        } else if n - 1 == k {
            // prev == tailk ; the new byte is all[|dict|] .. i.e. position |all| + k - offset = |dict| in all+prev  => (view ++ tailk)[0]
            assert(prev =~= tailk);
            let w = view + tailk;
            assert(match_copy(w, view.len() + k, 0) =~= Seq::<u8>::empty());
            let m1 = match_copy(w, view.len() + k, 1);
            assert(m1 =~= Seq::<u8>::empty().push((w + Seq::<u8>::empty())[w.len() + 0 - (view.len() + k)]));
            assert((all + prev)[all.len() + (n - 1) - offset] == (w + Seq::<u8>::empty())[0]);
            assert(match_copy(all, offset, n) =~= tailk + m1);
        } else {
            let w = view + tailk;
            let j = n - 1 - k;     // bytes already produced by the second phase
            lemma_match_copy_len(w, view.len() + k, j);
            let p2 = match_copy(w, view.len() + k, j);
            assert(prev == tailk + p2);
            // index of the source byte inside all + prev:  |all| + n - 1 - offset = |dict| + j - ... relative to w + p2 it is position j - ... = (w+p2)[|w| + j - (|view|+k)] = (w+p2)[j]
            assert((all + prev)[all.len() + (n - 1) - offset] == (w + p2)[w.len() + j - (view.len() + k)]);
            assert(match_copy(w, view.len() + k, j + 1) =~= p2.push((w + p2)[w.len() + j - (view.len() + k)]));
            assert(match_copy(all, offset, n) =~= tailk + match_copy(w, view.len() + k, j + 1));
        }
    }
}

pub proof fn verif_canary_must_fail(x: int)
    requires x > 0,
    ensures x > 1,
{
}
} // verus!
fn main() {}
