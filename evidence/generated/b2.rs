use vstd::prelude::*;
verus! {

global size_of usize == 8;

#[verifier::external_body]
pub fn vpanic() -> !
    requires false,
{ panic!() }

pub const MAX_BLOCK_SIZE: u32 = 128 * 1024;

pub struct Error { pub k: u8 }
pub trait Read {
    /// bytes still available (abstract)
    spec fn avail(&self) -> int;
    /// std contract: Ok => exactly buf.len() bytes were taken; Err otherwise
    fn read_exact(&mut self, buf: &mut [u8]) -> (r: Result<(), Error>)
        ensures
            final(buf)@.len() == old(buf)@.len(),
            r is Ok ==> final(self).avail() == old(self).avail() - old(buf)@.len() && old(self).avail() >= old(buf)@.len(),
            r is Err ==> old(self).avail() < old(buf)@.len();
}

#[derive(Clone, Copy, PartialEq, Eq)]
pub enum BlockType { Raw, RLE, Compressed, Reserved }

pub struct BlockHeader {
    pub last_block: bool,
    pub block_type: BlockType,
    pub decompressed_size: u32,
    pub content_size: u32,
}
impl BlockHeader {
    /// H1's postcondition (Kani, all 2^24 headers)
    pub open spec fn from_h1(&self) -> bool {
        !(self.block_type is Reserved) && self.content_size <= MAX_BLOCK_SIZE && self.decompressed_size <= MAX_BLOCK_SIZE
        && (self.block_type is RLE ==> self.content_size == 1)
        && (self.block_type is Raw ==> self.content_size == self.decompressed_size)
    }
}

pub enum LiteralsSectionType { Raw, RLE, Compressed, Treeless }
pub struct LiteralsSection {
    pub regenerated_size: u32,
    pub compressed_size: Option<u32>,
    pub num_streams: Option<u8>,
    pub ls_type: LiteralsSectionType,
}
pub enum LiteralsSectionParseError { Any }
impl LiteralsSection {
    pub fn new() -> (r: LiteralsSection) {
        LiteralsSection { regenerated_size: 0, compressed_size: None, num_streams: None, ls_type: LiteralsSectionType::Raw }
    }
    /// what H5 (Kani: equality with the RFC header layout for every prefix) implies
    #[verifier::external_body]
    pub fn parse_from_header(&mut self, raw: &[u8]) -> (r: Result<u8, LiteralsSectionParseError>)
        ensures r matches Ok(n) ==> 1 <= n <= 5 && n <= raw@.len()
            && ((final(self).ls_type is Compressed || final(self).ls_type is Treeless) <==> final(self).compressed_size is Some)
            && (final(self).num_streams matches Some(k) ==> k == 1 || k == 4)
            && final(self).regenerated_size < 0x10_0000
            && (final(self).compressed_size matches Some(c) ==> c < 0x4_0000),
    { unimplemented!() }
}
pub open spec fn literal_bytes(section: &LiteralsSection) -> int {
    match section.compressed_size {
        Some(x) => x as int,
        None => match section.ls_type { LiteralsSectionType::RLE => 1, _ => section.regenerated_size as int },
    }
}

pub struct CompressionModes(pub u8);
pub struct SequencesHeader { pub num_sequences: u32, pub modes: Option<CompressionModes> }
pub enum SequencesHeaderParseError { Any }
impl SequencesHeader {
    pub fn new() -> (r: SequencesHeader) { SequencesHeader { num_sequences: 0, modes: None } }
    #[verifier::external_body]
    pub fn parse_from_header(&mut self, source: &[u8]) -> (r: Result<u8, SequencesHeaderParseError>)
        ensures r matches Ok(n) ==> 1 <= n <= 4 && n <= source@.len(),
    { unimplemented!() }
}

#[derive(Clone, Copy)]
pub struct Sequence { pub ll: u32, pub ml: u32, pub of: u32 }

#[verifier::external_body]
pub struct HuffmanScratch { _o: u8 }
impl HuffmanScratch { pub uninterp spec fn wf(&self) -> bool; }
#[verifier::external_body]
pub struct FSEScratch { _o: u8 }
impl FSEScratch { pub uninterp spec fn wf(&self) -> bool; }

#[verifier::external_body]
pub struct DecodeBuffer { _o: u8 }
impl DecodeBuffer {
    pub uninterp spec fn view(&self) -> Seq<u8>;
    pub uninterp spec fn inv(&self) -> bool;
    #[verifier::external_body]
    pub fn push(&mut self, data: &[u8])
        requires old(self).inv(), data@.len() <= u32::MAX,
        ensures final(self).inv(), final(self).view() == old(self).view() + data@,
    { unimplemented!() }
    #[verifier::external_body]
    pub fn extend_and_fill(&mut self, fill_with: u8, fill_length: usize)
        requires old(self).inv(), fill_length <= u32::MAX,
        ensures final(self).inv(), final(self).view() == old(self).view() + Seq::new(fill_length as nat, |i: int| fill_with),
    { unimplemented!() }
    /// R2: appends exactly fill_length bytes from the reader, or fails leaving the view unchanged
    #[verifier::external_body]
    pub fn extend_from_reader<R: Read>(&mut self, read: &mut R, fill_length: usize) -> (r: Result<(), Error>)
        requires old(self).inv(), fill_length <= u32::MAX,
        ensures
            final(self).inv(),
            r is Ok ==> final(self).view().len() == old(self).view().len() + fill_length && final(read).avail() == old(read).avail() - fill_length
                && old(read).avail() >= fill_length,
            r is Err ==> final(self).view() == old(self).view(),
    { unimplemented!() }
}

pub struct DecoderScratch {
    pub huf: HuffmanScratch,
    pub fse: FSEScratch,
    pub buffer: DecodeBuffer,
    pub offset_hist: [u32; 3],
    pub literals_buffer: Vec<u8>,
    pub sequences: Vec<Sequence>,
    pub block_content_buffer: Vec<u8>,
}
impl DecoderScratch {
    pub open spec fn wf(&self) -> bool { self.huf.wf() && self.fse.wf() && self.buffer.inv() }
}

pub enum DecompressLiteralsError { Any }
pub enum DecodeSequenceError { ExtraBits { bits_remaining: isize }, Other }
pub enum ExecuteSequencesError { Any }

/// L1
#[verifier::external_body]
pub fn decode_literals(section: &LiteralsSection, scratch: &mut HuffmanScratch, source: &[u8], target: &mut Vec<u8>) -> (r: Result<u32, DecompressLiteralsError>)
    requires
        old(scratch).wf(), source@.len() <= 0x1_0000_0000, source@.len() >= literal_bytes(section),
        (section.ls_type is Compressed || section.ls_type is Treeless) <==> section.compressed_size is Some,
        section.num_streams matches Some(k) ==> k == 1 || k == 4,
        old(target)@.len() == 0,
    ensures
        final(scratch).wf() || r is Err,
        r matches Ok(n) ==> n == literal_bytes(section) && final(target)@.len() == section.regenerated_size,
{ unimplemented!() }

/// Q2
#[verifier::external_body]
pub fn decode_sequences(section: &SequencesHeader, source: &[u8], scratch: &mut FSEScratch, target: &mut Vec<Sequence>) -> (r: Result<(), DecodeSequenceError>)
    requires old(scratch).wf(), source@.len() <= 0x1_0000_0000,
    ensures
        final(scratch).wf() || r is Err,
        r is Ok ==> final(target)@.len() == section.num_sequences && forall|i: int| 0 <= i < final(target)@.len() ==> (#[trigger] final(target)@[i]).of >= 1,
{ unimplemented!() }

/// Q3
#[verifier::external_body]
pub fn execute_sequences(scratch: &mut DecoderScratch) -> (r: Result<(), ExecuteSequencesError>)
    requires
        old(scratch).buffer.inv(),
        forall|i: int| 0 <= i < old(scratch).sequences@.len() ==> (#[trigger] old(scratch).sequences@[i]).of >= 1,
        old(scratch).literals_buffer@.len() <= MAX_BLOCK_SIZE,
    ensures
        final(scratch).buffer.inv(), final(scratch).huf == old(scratch).huf, final(scratch).fse == old(scratch).fse,
        r is Ok ==> final(scratch).buffer.view().len() - old(scratch).buffer.view().len() <= MAX_BLOCK_SIZE,
        final(scratch).buffer.view().len() >= old(scratch).buffer.view().len(),     // Q3 proves both bounds on every path
{ unimplemented!() }

pub enum DecompressBlockError {
    BlockContentReadError(Error),
    MalformedSectionHeader { expected_len: usize, remaining_bytes: usize },
    LiteralsSizeTooLarge { size: u32 },
    DecompressLiteralsError(DecompressLiteralsError),
    LiteralsSectionParseError(LiteralsSectionParseError),
    SequencesHeaderParseError(SequencesHeaderParseError),
    DecodeSequenceError(DecodeSequenceError),
    ExecuteSequencesError(ExecuteSequencesError),
}
macro_rules! from_impl {
    ($src:ty, $dst:ty, $variant:ident) => {
        verus! {
        impl vstd::std_specs::convert::FromSpecImpl<$src> for $dst {
            open spec fn obeys_from_spec() -> bool { true }
            open spec fn from_spec(v: $src) -> Self { <$dst>::$variant(v) }
        }
        impl From<$src> for $dst {
            fn from(val: $src) -> Self { Self::$variant(val) }
        }
        }
    };
}
from_impl!(Error, DecompressBlockError, BlockContentReadError);
from_impl!(DecompressLiteralsError, DecompressBlockError, DecompressLiteralsError);
from_impl!(LiteralsSectionParseError, DecompressBlockError, LiteralsSectionParseError);
from_impl!(SequencesHeaderParseError, DecompressBlockError, SequencesHeaderParseError);
from_impl!(DecodeSequenceError, DecompressBlockError, DecodeSequenceError);
from_impl!(ExecuteSequencesError, DecompressBlockError, ExecuteSequencesError);

pub enum DecodeBlockContentError {
    DecoderStateIsFailed,
    ExpectedHeaderOfPreviousBlock,
    ReadError { step: BlockType, source: Error },
    DecompressBlockError(DecompressBlockError),
}
from_impl!(DecompressBlockError, DecodeBlockContentError, DecompressBlockError);

pub enum DecoderState { ReadyToDecodeNextHeader, ReadyToDecodeNextBody, Failed }

pub struct BlockDecoder {
    pub header_buffer: [u8; 3],
    pub internal_state: DecoderState,
}

impl BlockDecoder {
    pub fn decompress_block<R: Read>(
        &mut self,
        header: &BlockHeader,
        workspace: &mut DecoderScratch, //reuse this as often as possible. Not only if the trees are reused but also reuse the allocations when building new trees
        source: &mut R,
    ) -> (r: Result<(), DecompressBlockError>)
        requires
            old(workspace).wf(), header.from_h1(),
        ensures
            final(workspace).buffer.inv(),
            r is Ok ==> final(workspace).wf(),
            // C05: at most one block's worth of output
            r is Ok ==> final(workspace).buffer.view().len() - old(workspace).buffer.view().len() <= MAX_BLOCK_SIZE,
            // C10: exactly content_size bytes are taken from the source
            r is Ok ==> final(source).avail() == old(source).avail() - header.content_size && old(source).avail() >= header.content_size
                && final(workspace).buffer.view().len() >= old(workspace).buffer.view().len(),
{
        workspace
            .block_content_buffer
            .resize(header.content_size as usize, 0);

        source.read_exact(workspace.block_content_buffer.as_mut_slice())?;
        let raw = workspace.block_content_buffer.as_slice();

        let mut section = LiteralsSection::new();
        let bytes_in_literals_header = section.parse_from_header(raw)?;
        let raw = &raw[bytes_in_literals_header as usize..];
        

        // The literals are part of the block's regenerated content, which is limited to MAX_BLOCK_SIZE
        if section.regenerated_size > MAX_BLOCK_SIZE {
            return Err(DecompressBlockError::LiteralsSizeTooLarge {
                size: section.regenerated_size,
            });
        }

        let upper_limit_for_literals = match section.compressed_size {
            Some(x) => x as usize,
            None => match section.ls_type {
                LiteralsSectionType::RLE => 1,
                LiteralsSectionType::Raw => section.regenerated_size as usize,
                _ => vpanic(),
            },
        };

        if raw.len() < upper_limit_for_literals {
            return Err(DecompressBlockError::MalformedSectionHeader {
                expected_len: upper_limit_for_literals,
                remaining_bytes: raw.len(),
            });
        }

        let raw_literals = &raw[..upper_limit_for_literals];
        

        workspace.literals_buffer.clear(); //all literals of the previous block must have been used in the sequence execution anyways. just be defensive here
        let bytes_used_in_literals_section = decode_literals(
            &section,
            &mut workspace.huf,
            raw_literals,
            &mut workspace.literals_buffer,
        )?;
        let verif_assert_cond_1: bool = section.regenerated_size == workspace.literals_buffer.len() as u32; assert(verif_assert_cond_1);
        let verif_assert_cond_2: bool = bytes_used_in_literals_section == upper_limit_for_literals as u32; assert(verif_assert_cond_2);

        let raw = &raw[upper_limit_for_literals..];
        

        let mut seq_section = SequencesHeader::new();
        let bytes_in_sequence_header = seq_section.parse_from_header(raw)?;
        let raw = &raw[bytes_in_sequence_header as usize..];
        

        let verif_assert_cond_3: bool = u32::from(bytes_in_literals_header)
                + bytes_used_in_literals_section
                + u32::from(bytes_in_sequence_header)
                + raw.len() as u32
                == header.content_size; assert(verif_assert_cond_3);
        

        if seq_section.num_sequences != 0 {
            decode_sequences(
                &seq_section,
                raw,
                &mut workspace.fse,
                &mut workspace.sequences,
            )?;
            
            execute_sequences(workspace)?;
        } else {
            if !raw.is_empty() {
                return Err(DecompressBlockError::DecodeSequenceError(
                    DecodeSequenceError::ExtraBits {
                        bits_remaining: raw.len() as isize * 8,
                    },
                ));
            }
            workspace.buffer.push(&workspace.literals_buffer);
            workspace.sequences.clear();
        }

        Ok(())
    }

    pub fn decode_block_content<R: Read>(
        &mut self,
        header: &BlockHeader,
        workspace: &mut DecoderScratch, //reuse this as often as possible. Not only if the trees are reused but also reuse the allocations when building new trees
        source: &mut R,
    ) -> (r: Result<u64, DecodeBlockContentError>)
        requires
            old(workspace).wf(), header.from_h1(),
        ensures
            final(workspace).buffer.inv(),
            r matches Ok(n) ==> final(workspace).wf() && old(source).avail() >= n
                && final(workspace).buffer.view().len() >= old(workspace).buffer.view().len()
                // C10: Ok(n) = exactly n bytes were taken from the source: 1 for RLE, the content size otherwise
                && final(source).avail() == old(source).avail() - n
                && n == (if header.block_type is RLE { 1 } else { header.content_size as int })
                // C05: at most one block's worth of output
                && final(workspace).buffer.view().len() - old(workspace).buffer.view().len() <= MAX_BLOCK_SIZE
                // C01: raw and RLE blocks regenerate exactly decompressed_size bytes
                && (!(header.block_type is Compressed) ==> final(workspace).buffer.view().len() - old(workspace).buffer.view().len() == header.decompressed_size),
{
        match self.internal_state {
            DecoderState::ReadyToDecodeNextBody => { /* Happy :) */ }
            DecoderState::Failed => return Err(DecodeBlockContentError::DecoderStateIsFailed),
            DecoderState::ReadyToDecodeNextHeader => {
                return Err(DecodeBlockContentError::ExpectedHeaderOfPreviousBlock)
            }
        }

        let block_type = header.block_type;
        match block_type {
            BlockType::RLE => {
                let mut buf = [0u8; 1];
                source.read_exact(&mut buf[..]).map_err(|err| {
                    DecodeBlockContentError::ReadError {
                        step: block_type,
                        source: err,
                    }
                })?;
                workspace
                    .buffer
                    .extend_and_fill(buf[0], header.decompressed_size as usize);

                self.internal_state = DecoderState::ReadyToDecodeNextHeader;

                Ok(1)
            }
            BlockType::Raw => {
                workspace
                    .buffer
                    .extend_from_reader(source, header.decompressed_size as usize)
                    .map_err(|err| DecodeBlockContentError::ReadError {
                        step: block_type,
                        source: err,
                    })?;

                self.internal_state = DecoderState::ReadyToDecodeNextHeader;
                Ok(u64::from(header.decompressed_size))
            }

            BlockType::Reserved => {
                vpanic();
            }

            BlockType::Compressed => {
                self.decompress_block(header, workspace, source)?;

                self.internal_state = DecoderState::ReadyToDecodeNextHeader;
                Ok(u64::from(header.content_size))
            }
        }
    }

}

pub proof fn verif_canary_must_fail(x: int)
    requires x > 0,
    ensures x > 1,
{
}
} // verus!
fn main() {}
