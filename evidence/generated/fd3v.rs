use vstd::prelude::*;
verus! {

global size_of usize == 8;

#[verifier::external_body]
pub fn vpanic() -> !
    requires false,
{ panic!() }

pub const MAX_BLOCK_SIZE: u32 = 128 * 1024;

pub struct Error { pub k: u8 }
pub trait Read {
    spec fn avail(&self) -> int;
    /// std contract of `read`: SOME bytes, at most buf.len() (callers that need an exact count must use read_exact)
    fn read(&mut self, buf: &mut [u8]) -> (r: Result<usize, Error>)
        ensures
            final(buf)@.len() == old(buf)@.len(),
            r matches Ok(n) ==> n <= old(buf)@.len() && n <= old(self).avail() && final(self).avail() == old(self).avail() - n,
            r is Err ==> final(self).avail() <= old(self).avail();
    /// ghost mode flag: the reader is a caller-provided chunk of an incremental (slice-to-slice) decode; running out of bytes in the
    /// middle of a block would then turn "need more input" into a hard error, so a block body may only be decoded when it is entirely present
    spec fn incremental() -> bool;
    fn read_exact(&mut self, buf: &mut [u8]) -> (r: Result<(), Error>)
        ensures
            final(buf)@.len() == old(buf)@.len(),
            final(self).avail() >= 0 || old(self).avail() < 0,
            r is Ok ==> final(self).avail() == old(self).avail() - old(buf)@.len() && old(self).avail() >= old(buf)@.len(),
            r is Err ==> final(self).avail() <= old(self).avail();
}
#[verifier::external_body]
pub fn le_u32(b: [u8; 4]) -> (r: u32) { unimplemented!() }
/// `s[..4].try_into().expect(..)`: the first four bytes as an array (slice -> array conversion is outside Verus' std specs)
#[verifier::external_body]
pub fn first4(s: &[u8]) -> (r: [u8; 4])
    requires s@.len() >= 4,
{ unimplemented!() }

/// std / io_nostd: a byte slice is a reader that hands out its prefix and shrinks (Kani IO1 checks the no_std implementation)
impl<'a> Read for &'a [u8] {
    open spec fn avail(&self) -> int { self@.len() as int }
    open spec fn incremental() -> bool { false }     // in decode_all the slice is the complete input: truncation is an error
    #[verifier::external_body]
    fn read(&mut self, buf: &mut [u8]) -> (r: Result<usize, Error>) { unimplemented!() }
    #[verifier::external_body]
    fn read_exact(&mut self, buf: &mut [u8]) -> (r: Result<(), Error>) { unimplemented!() }
}

#[derive(Clone, Copy, PartialEq, Eq)]
pub enum BlockType { Raw, RLE, Compressed, Reserved }
pub struct BlockHeader { pub last_block: bool, pub block_type: BlockType, pub decompressed_size: u32, pub content_size: u32 }

pub enum BlockHeaderReadError { Any }
pub enum DecodeBlockContentError { Any }
pub enum ReadFrameHeaderError { SkipFrame { magic_number: u32, length: u32 }, Other }
pub enum FrameDecoderError {
    ReadFrameHeaderError(ReadFrameHeaderError),
    TargetTooSmall,
    FailedToSkipFrame,
    FailedToReadBlockHeader(BlockHeaderReadError),
    FailedToReadBlockBody(DecodeBlockContentError),
    FailedToReadChecksum(Error),
    FailedToDrainDecodebuffer(Error),
    NotYetInitialized,
    Other,
}

#[verifier::external_body]
pub struct DecodeBuffer { _o: u8 }
impl DecodeBuffer {
    pub uninterp spec fn spec_len(&self) -> int;
    #[verifier::external_body]
    pub fn len(&self) -> (r: usize) ensures r == self.spec_len(), { unimplemented!() }
}
pub struct DecoderScratch { pub buffer: DecodeBuffer }

pub struct FrameDescriptor(pub u8);
impl FrameDescriptor {
    pub uninterp spec fn spec_checksum_flag(&self) -> bool;
    #[verifier::external_body]
    pub fn content_checksum_flag(&self) -> (r: bool) ensures r == self.spec_checksum_flag(), { unimplemented!() }
}
pub struct FrameHeader { pub descriptor: FrameDescriptor }

pub struct FrameDecoderState {
    pub frame_header: FrameHeader,
    pub decoder_scratch: DecoderScratch,
    pub frame_finished: bool,
    pub block_counter: usize,
    pub bytes_read_counter: u64,
    pub check_sum: Option<u32>,
    pub using_dict: Option<u32>,
}
pub struct FrameDecoder { pub state: Option<FrameDecoderState> }

pub enum BlockDecodingStrategy { All, UptoBlocks(usize), UptoBytes(usize) }

pub struct BlockDecoder { _o: u8 }
#[verifier::external_body]
pub fn block_decoder_new() -> BlockDecoder { unimplemented!() }
impl BlockDecoder {
    /// H1 (Kani, all 2^24 headers + every truncation)
    #[verifier::external_body]
    pub fn read_block_header<R: Read>(&mut self, r: &mut R) -> (res: Result<(BlockHeader, u8), BlockHeaderReadError>)
        ensures
            final(r).avail() <= old(r).avail(),
            res matches Ok(hs) ==> hs.1 == 3 && final(r).avail() == old(r).avail() - 3 && old(r).avail() >= 3,
    { unimplemented!() }
    /// B1 (Kani) / B2 (Verus): the block body
    #[verifier::external_body]
    pub fn decode_block_content<R: Read>(&mut self, header: &BlockHeader, workspace: &mut DecoderScratch, source: &mut R) -> (res: Result<u64, DecodeBlockContentError>)
        requires R::incremental() ==> old(source).avail() >= header.content_size,
        ensures
            final(source).avail() <= old(source).avail(),
            final(workspace).buffer.spec_len() >= old(workspace).buffer.spec_len(),
            res matches Ok(n) ==> final(source).avail() == old(source).avail() - n && old(source).avail() >= n
                && final(workspace).buffer.spec_len() <= old(workspace).buffer.spec_len() + MAX_BLOCK_SIZE,
    { unimplemented!() }
}

pub open spec fn max1(n: int) -> int { if n < 1 { 1 } else { n } }


/// ghost: "`remaining` bytes before the end of the input is a position where a frame (or skippable frame) starts, or the end".
/// Uninterpreted; it is DEFINED by the two facts below: the position right after a finished frame is one, and so is the position
/// `length` bytes after a skippable frame's 8-byte header. decode_all's own obligation is to call init only at such positions.
pub uninterp spec fn at_frame_boundary(remaining: int) -> bool;

impl FrameDecoder {
    pub open spec fn spec_is_finished(&self) -> bool {
        match self.state {
            None => true,
            Some(s) => if s.frame_header.descriptor.spec_checksum_flag() { s.frame_finished && s.check_sum is Some } else { s.frame_finished },
        }
    }
    pub uninterp spec fn spec_can_collect(&self) -> int;

    /// H2 / H4 / FD4 (Kani)
    #[verifier::external_body]
    pub fn init<R: Read>(&mut self, source: &mut R) -> (r: Result<(), FrameDecoderError>)
        requires at_frame_boundary(old(source).avail()),       // a header is only ever parsed where a frame starts
        ensures
            final(source).avail() <= old(source).avail(), final(source).avail() >= 0 || old(source).avail() < 0,
            r is Ok ==> final(self).state is Some
                && final(self).state->0.bytes_read_counter == old(source).avail() - final(source).avail()
                && old(source).avail() - final(source).avail() >= 1
                && !final(self).state->0.frame_finished && final(self).state->0.check_sum is None && final(self).state->0.block_counter == 0
                && final(self).state->0.decoder_scratch.buffer.spec_len() == 0,
            r is Err ==> final(self).spec_can_collect() == old(self).spec_can_collect(),      // FD4: a rejected header leaves the old state
            r matches Err(FrameDecoderError::ReadFrameHeaderError(ReadFrameHeaderError::SkipFrame { length, .. })) ==> final(source).avail() == old(source).avail() - 8 && old(source).avail() >= 8
                && (final(source).avail() >= length ==> at_frame_boundary(final(source).avail() - length)),
    { unimplemented!() }

    #[verifier::external_body]
    pub fn decode_blocks<R: Read>(&mut self, source: &mut R, strat: BlockDecodingStrategy) -> (r: Result<bool, FrameDecoderError>)
        // contract of FrameDecoder::decode_blocks: PROVED in unit FD1V (on the verbatim body), ASSUMED in unit FD3V
        requires
            old(source).avail() >= 0,
            !R::incremental(),      // the streaming entry point: a truncated source is an error (C10), not "need more"
            old(self).state matches Some(st) ==> st.bytes_read_counter + old(source).avail() <= u64::MAX && st.block_counter + old(source).avail() <= usize::MAX
                && st.decoder_scratch.buffer.spec_len() >= 0
                && !st.frame_finished,        // callers ask is_finished() first (SD1, FD3); a finished frame has no next block
        ensures
            old(self).state is None ==> r is Err && final(source).avail() == old(source).avail(),
            final(self).state is Some <==> old(self).state is Some,
            r matches Ok(fin) ==> ({
                let s0 = old(self).state->0;
                let s1 = final(self).state->0;
                let blocks = s1.block_counter - s0.block_counter;
                let grown = s1.decoder_scratch.buffer.spec_len() - s0.decoder_scratch.buffer.spec_len();
                &&& fin == s1.frame_finished
                &&& final(source).avail() >= 0
                // exact accounting of source bytes
                &&& s1.bytes_read_counter - s0.bytes_read_counter == old(source).avail() - final(source).avail()
                // strictly one block after the other, at least one per call
                &&& blocks >= 1 && grown >= 0
                &&& old(source).avail() - final(source).avail() >= 3 * blocks      // every block costs at least its 3-byte header
                // the strategy only decides when to return
                &&& (strat matches BlockDecodingStrategy::UptoBlocks(n) ==> blocks <= max1(n as int) && (!fin ==> blocks >= n))
                &&& (strat matches BlockDecodingStrategy::UptoBytes(n) ==> grown < n + MAX_BLOCK_SIZE + (if n == 0 { 1int } else { 0int }) && (!fin ==> grown >= n))
                &&& (strat is All ==> fin)
                // checksum stored iff the frame says there is one (and only when the last block was just decoded)
                &&& (fin && s1.frame_header.descriptor.spec_checksum_flag() ==> s1.check_sum is Some)
                &&& (!fin ==> s1.check_sum == s0.check_sum)
                &&& s1.using_dict == s0.using_dict
            }),

            // definitional: right after the last block (and checksum) of a frame the next frame starts
            r matches Ok(true) ==> at_frame_boundary(final(source).avail()),
    { unimplemented!() }

    /// D1/D2 (Kani): draining touches only the decode buffer; hands out at most target.len() bytes
    #[verifier::external_body]
    pub fn read(&mut self, target: &mut [u8]) -> (r: Result<usize, Error>)
        ensures
            final(target)@.len() == old(target)@.len(),
            r matches Ok(n) ==> n <= old(target)@.len()
                && n == (if old(self).spec_can_collect() < old(target)@.len() { old(self).spec_can_collect() } else { old(target)@.len() as int })
                && final(self).spec_can_collect() == old(self).spec_can_collect() - n,
            final(self).state is Some <==> old(self).state is Some,
            old(self).state matches Some(s0) ==> ({
                let s1 = final(self).state->0;
                s1.bytes_read_counter == s0.bytes_read_counter && s1.block_counter == s0.block_counter && s1.frame_finished == s0.frame_finished
                && s1.check_sum == s0.check_sum && s1.using_dict == s0.using_dict && s1.frame_header == s0.frame_header
                && 0 <= s1.decoder_scratch.buffer.spec_len() <= s0.decoder_scratch.buffer.spec_len()
            }),
    { unimplemented!() }
    #[verifier::external_body]
    pub fn can_collect(&self) -> (r: usize) ensures r == self.spec_can_collect(), { unimplemented!() }
    /// `BorrowMut<FrameDecoder> for FrameDecoder` is the identity
    pub fn borrow_mut(&mut self) -> (r: &mut FrameDecoder)
        ensures *r == *old(self), *final(r) == *final(self),
    { self }
    /// what every streaming entry point maintains: once the last block has been decoded, its checksum (if flagged) has been read too
    pub open spec fn streaming_inv(&self) -> bool {
        self.state matches Some(s) ==> (s.frame_finished && s.frame_header.descriptor.spec_checksum_flag() ==> s.check_sum is Some)
    }
    #[verifier::external_body]
    pub fn is_finished(&self) -> (r: bool) ensures r == self.spec_is_finished(), { unimplemented!() }

#[verifier::loop_isolation(false)]
    pub fn decode_all(
        &mut self,
        mut input: &[u8],
        mut output: &mut [u8],
    ) -> (r: Result<usize, FrameDecoderError>)
        requires input@.len() <= usize::MAX, old(output)@.len() <= usize::MAX,      // true of every slice
            at_frame_boundary(input@.len() as int),        // "`input` must contain an exact number of frames"
        ensures
            r matches Ok(n) ==> n <= old(output)@.len(),
{
        let ghost mut first_frame = true;
        let mut total_bytes_written = 0;
        while !input.is_empty() 
            invariant
                input@.len() <= usize::MAX,
                at_frame_boundary(input@.len() as int),
                total_bytes_written + output@.len() == old(output)@.len(),
                !first_frame ==> self.spec_can_collect() == 0,
            decreases input@.len(),
{
            let ghost in_at_frame = input@.len();
            // a new frame is only started once everything the previous one produced has been handed out (else those bytes would be lost:
            // init discards the buffer) - this is what turns an undersized target into TargetTooSmall
            proof { assert(!first_frame ==> self.spec_can_collect() == 0); }

            match self.init(&mut input) {
                Ok(_) => {}
                Err(FrameDecoderError::ReadFrameHeaderError(
                    ReadFrameHeaderError::SkipFrame { length, .. },
                )) => {
                    input = input
                        .get(length as usize..)
                        .ok_or(FrameDecoderError::FailedToSkipFrame)?;
                    continue;
                }
                Err(e) => return Err(e),
            };
            loop 
                invariant
                    total_bytes_written + output@.len() == old(output)@.len(),
                    self.state is Some, !self.state->0.frame_finished,
                    self.state->0.bytes_read_counter + input@.len() <= u64::MAX, self.state->0.block_counter + input@.len() <= usize::MAX,
                    self.state->0.decoder_scratch.buffer.spec_len() >= 0,
                    input@.len() < in_at_frame,
                decreases input@.len(),
{
                self.decode_blocks(&mut input, BlockDecodingStrategy::UptoBytes(1024 * 1024))?;
                let bytes_written = self
                    .read(output)
                    .map_err(|verif_e| FrameDecoderError::FailedToDrainDecodebuffer(verif_e))?;
                let ghost out_len_before = output@.len();
                output = &mut output[bytes_written..];
                proof { assert(output@.len() == out_len_before - bytes_written); }
                total_bytes_written += bytes_written;
                if self.can_collect() != 0 {
                    return Err(FrameDecoderError::TargetTooSmall);
                }
                if self.is_finished() {
                    break;
                }
            }
        
            proof { first_frame = false; }
}
        proof { assert(input@.len() == 0); }     // Ok is returned only when the whole input has been consumed

        Ok(total_bytes_written)
    }

}

impl Error {
    #[verifier::external_body]
    pub fn other<E>(e: E) -> Error { unimplemented!() }
}

pub struct StreamingDecoder<READ: Read> {
    pub decoder: FrameDecoder,
    pub source: READ,
}

impl<READ: Read> StreamingDecoder<READ> {
#[verifier::loop_isolation(false)]
    pub fn read(&mut self, buf: &mut [u8]) -> (r: Result<usize, Error>)
        requires
            !READ::incremental(), old(self).source.avail() >= 0,
            old(self).decoder.streaming_inv(), old(self).decoder.spec_can_collect() >= 0,
            old(self).decoder.state matches Some(st) ==> st.bytes_read_counter + old(self).source.avail() <= u64::MAX && st.block_counter + old(self).source.avail() <= usize::MAX
                && st.decoder_scratch.buffer.spec_len() >= 0,
        ensures
            final(buf)@.len() == old(buf)@.len(),
            r matches Ok(n) ==> n <= old(buf)@.len()
                // a short read happens only when the frame is finished (C06: the bytes do not depend on the request sizes)
                && (n < old(buf)@.len() ==> final(self).decoder.spec_is_finished())
                // Ok(0) for a non-empty request means: finished and drained
                && (n == 0 && old(buf)@.len() > 0 ==> final(self).decoder.spec_is_finished() && final(self).decoder.spec_can_collect() == 0),
{
        let decoder = self.decoder.borrow_mut();
        if decoder.is_finished() && decoder.can_collect() == 0 {
            //No more bytes can ever be decoded
            return Ok(0);
        }

        // need to loop. The UpToBytes strategy doesn't take any effort to actually reach that limit.
        // The first few calls can result in just filling the decode buffer but these bytes can not be collected.
        // So we need to call this until we can actually collect enough bytes

        // TODO add BlockDecodingStrategy::UntilCollectable(usize) that pushes this logic into the decode_blocks function
        while decoder.can_collect() < buf.len() && !decoder.is_finished() 
            invariant
                self.source.avail() >= 0,
                decoder.streaming_inv(),
                decoder.state matches Some(st) ==> st.bytes_read_counter + self.source.avail() <= u64::MAX && st.block_counter + self.source.avail() <= usize::MAX
                    && st.decoder_scratch.buffer.spec_len() >= 0,
            decreases self.source.avail(),
{
            //More bytes can be decoded
            let additional_bytes_needed = buf.len() - decoder.can_collect();
            // C05: never ask for more than what is missing to serve the request
            proof { assert(additional_bytes_needed + decoder.spec_can_collect() <= buf@.len()); assert(additional_bytes_needed >= 1); }
            match decoder.decode_blocks(
                &mut self.source,
                BlockDecodingStrategy::UptoBytes(additional_bytes_needed),
            ) {
                Ok(_) => { /*Nothing to do*/ }
                Err(e) => {
                    let err;
                    ();
                    {
                        err = Error::other(e);
                    }
                    
                    return Err(err);
                }
            }
        }

        decoder.read(buf)
    }
}

pub proof fn verif_canary_must_fail(x: int)
    requires x > 0,
    ensures x > 1,
{
}
} // verus!
fn main() {}
