use vstd::prelude::*;
verus! {

global size_of usize == 8;

#[verifier::external_body]
pub fn vpanic() -> !
    requires false,
{ panic!() }

pub open spec fn fits(v: u64, n: usize) -> bool { n >= 64 || v < (1u64 << (n as u64)) }

#[verifier::external_body]
pub struct BitWriter { _o: u8 }
impl BitWriter {
    pub uninterp spec fn idx(&self) -> int;
    /// ghost: how many Huffman table descriptions the bytes written so far (and not discarded) contain
    pub uninterp spec fn tables(&self) -> int;
    #[verifier::external_body]
    pub fn index(&self) -> (r: usize) ensures r == self.idx(), { unimplemented!() }
    /// documented contract of BitWriter::write_bits
    #[verifier::external_body]
    pub fn write_bits<T: Into<u64> + Copy>(&mut self, bits: T, num_bits: usize)
        requires num_bits <= 63, fits(into_u64(bits), num_bits),     // the domain Kani unit BW1 proves write_bits on
        ensures final(self).idx() == old(self).idx() + num_bits, final(self).tables() == old(self).tables(),
    { unimplemented!() }
    #[verifier::external_body]
    pub fn change_bits<T: Into<u64> + Copy>(&mut self, idx: usize, bits: T, num_bits: usize)
        requires idx + num_bits < old(self).idx(),
        ensures final(self).idx() == old(self).idx(), final(self).tables() == old(self).tables(),
    { unimplemented!() }
    #[verifier::external_body]
    pub fn reset_to(&mut self, index: usize)
        requires index % 8 == 0, index <= old(self).idx(),
        ensures final(self).idx() == index,     // (what was written after `index`, including a table description, is discarded)
    { unimplemented!() }
    #[verifier::external_body]
    pub fn append_bytes(&mut self, data: &[u8])
        requires old(self).idx() % 8 == 0,
        ensures final(self).idx() == old(self).idx() + 8 * data@.len(), final(self).tables() == old(self).tables(),
    { unimplemented!() }
}
pub uninterp spec fn into_u64<T>(v: T) -> u64;
pub broadcast axiom fn into_u64_u8(v: u8) ensures #[trigger] into_u64::<u8>(v) == v as u64;
pub broadcast axiom fn into_u64_u32(v: u32) ensures #[trigger] into_u64::<u32>(v) == v as u64;
pub broadcast axiom fn into_u64_u64(v: u64) ensures #[trigger] into_u64::<u64>(v) == v;

/// at least two different byte values occur
pub open spec fn two_distinct(s: Seq<u8>) -> bool { exists|i: int, j: int| 0 <= i < s.len() && 0 <= j < s.len() && s[i] != s[j] }

#[verifier::external_body]
pub struct HuffmanTable { _o: u8 }
impl HuffmanTable {
    /// precondition from the callee chain build_from_data -> build_from_counts -> distribute_weights(number of distinct bytes), which
    /// asserts `amount >= 2` (unit HU4D proves distribute_weights under exactly that precondition): a Huffman code needs two symbols (defect F8)
    #[verifier::external_body]
    pub fn build_from_data(data: &[u8]) -> (r: HuffmanTable)
        requires two_distinct(data@),
    { unimplemented!() }
    #[verifier::external_body]
    pub fn can_encode(&self, other: &HuffmanTable) -> (r: Option<usize>) { unimplemented!() }
}
/// table description (optional) + 1 or 4 Huffman streams: only advances the writer by whole bytes
#[verifier::external_body]
pub fn huff_encode(table: &HuffmanTable, writer: &mut BitWriter, data: &[u8], with_table: bool, single_stream: bool)
    requires old(writer).idx() % 8 == 0,
    ensures
        final(writer).tables() == old(writer).tables() + (if with_table { 1int } else { 0int }),
        final(writer).idx() >= old(writer).idx() + 8 /* every stream ends with a padding marker: at least one byte */, final(writer).idx() % 8 == 0, final(writer).idx() <= old(writer).idx() + 16 * 8 * (data@.len() + 1024),
{ unimplemented!() }

pub proof fn lemma_widths()
    ensures
        (1u64 << 2u64) == 4, (1u64 << 10u64) == 1024, (1u64 << 14u64) == 16384, (1u64 << 18u64) == 262144, (1u64 << 20u64) == 1048576,
{
    assert((1u64 << 2u64) == 4 && (1u64 << 10u64) == 1024 && (1u64 << 14u64) == 16384 && (1u64 << 18u64) == 262144 && (1u64 << 20u64) == 1048576) by (bit_vector);
}

pub fn raw_literals(literals: &[u8], writer: &mut BitWriter)
    requires
        literals@.len() < 0x10_0000,            // a block is at most 128 KiB; the 20-bit raw size format holds 0..=1048575
        old(writer).idx() % 8 == 0,
    ensures final(writer).idx() == old(writer).idx() + 24 + 8 * literals@.len(),
{
    proof { lemma_widths(); broadcast use into_u64_u8, into_u64_u32; }
    writer.write_bits(0u8, 2);
    writer.write_bits(0b11u8, 2);
    writer.write_bits(literals.len() as u32, 20);
    writer.append_bytes(literals);
}

pub fn compress_literals(
    literals: &[u8],
    last_table: Option<&HuffmanTable>,
    writer: &mut BitWriter,
) -> (r: Option<HuffmanTable>)
    requires
        literals@.len() < 0x4_0000,             // compress_block passes at most one block (128 KiB) of literals
        two_distinct(literals@),                // compress_block's `!single_symbol` guard (repair of defect F8); the call site itself is not under contract
        old(writer).idx() % 8 == 0,
    ensures
        final(writer).idx() % 8 == 0,
        // C02/C16 table synchronisation: the caller stores the returned table as "the table the decoder has"; so a table may be
        // returned only if its description was actually written into the (kept) output of this call
        r is Some ==> final(writer).tables() == old(writer).tables() + 1,
{
    proof { lemma_widths(); broadcast use into_u64_u8, into_u64_u32, into_u64_u64; }
    let reset_idx = writer.index();

    let new_encoder_table = HuffmanTable::build_from_data(literals);

    let (encoder_table, new_table) = if let Some(_table) = last_table {
        if let Some(diff) = _table.can_encode(&new_encoder_table) {
            // TODO this is a very simple heuristic, maybe we should try to do better
            if diff > 5 {
                (&new_encoder_table, true)
            } else {
                (_table, false)
            }
        } else {
            (&new_encoder_table, true)
        }
    } else {
        (&new_encoder_table, true)
    };

    if new_table {
        writer.write_bits(2u8, 2); // compressed literals type
    } else {
        writer.write_bits(3u8, 2); // treeless compressed literals type
    }

    let (size_format, size_bits) = match literals.len() {
        0..6 => (0b00u8, 10),
        6..1024 => (0b01, 10),
        1024..16384 => (0b10, 14),
        16384..262144 => (0b11, 18),
        _ => vpanic(),
    };

    proof {
        // RFC 8878 3.1.1.3.1.1: Size_Format 0 / 1 -> 10-bit sizes, 2 -> 14-bit, 3 -> 18-bit; both sizes must fit
        assert((size_format == 0 || size_format == 1) ==> size_bits == 10);
        assert(size_format == 2 ==> size_bits == 14);
        assert(size_format == 3 ==> size_bits == 18);
        assert(size_format <= 3);
        assert(fits(literals@.len() as u64, size_bits));
    }
    writer.write_bits(size_format, 2);
    writer.write_bits(literals.len() as u32, size_bits);
    let size_index = writer.index();
    writer.write_bits(0u32, size_bits);
    let index_before = writer.index();
    huff_encode(encoder_table, writer, literals, new_table, size_format == 0);
    let encoded_len = (writer.index() - index_before) / 8;
    writer.change_bits(size_index, encoded_len as u64, size_bits);
    let total_len = (writer.index() - reset_idx) / 8;

    // If encoded len is bigger than the raw literals we are better off just writing the raw literals here
    proof {
        // on the path that keeps the compressed literals the Compressed_Size field holds the real size
        if total_len < literals@.len() {
            assert(fits(encoded_len as u64, size_bits));
        }
    }
    if total_len >= literals.len() {
        writer.reset_to(reset_idx);
        raw_literals(literals, writer);
        None
    } else if new_table {
        Some(new_encoder_table)
    } else {
        None
    }
}

pub proof fn verif_canary_must_fail(x: int)
    requires x > 0,
    ensures x > 1,
{
}
} // verus!
fn main() {}
