use vstd::prelude::*;
verus! {

global size_of usize == 8;

#[verifier::external_body]
pub struct SuffixStore { _p: core::marker::PhantomData<u8> }

pub struct WindowEntry {
    pub data: Vec<u8>,
    pub suffixes: SuffixStore,
    pub base_offset: usize,
}

pub struct MatchGenerator {
    pub max_window_size: usize,
    pub window: Vec<WindowEntry>,
    pub window_size: usize,
    pub suffix_idx: usize,
    pub last_idx_in_sequence: usize,
}

/// total length of the entries from index `from` on
pub open spec fn len_from(w: Seq<WindowEntry>, from: int) -> int
    decreases w.len() - from,
{
    if from >= w.len() || from < 0 { 0 } else { w[from].data@.len() + len_from(w, from + 1) }
}
/// distance from the first byte of entry i to the first byte of the newest entry
pub open spec fn dist_to_last(w: Seq<WindowEntry>, i: int) -> int {
    len_from(w, i) - w[w.len() - 1].data@.len()
}
/// the blocks held, oldest first
pub open spec fn blocks(w: Seq<WindowEntry>) -> Seq<Seq<u8>> { Seq::new(w.len(), |i: int| w[i].data@) }

pub proof fn lemma_len_from_suffix(w: Seq<WindowEntry>, k: int, from: int)
    requires 0 <= k <= w.len(), 0 <= from,
    ensures len_from(w.subrange(k, w.len() as int), from) == len_from(w, from + k),
    decreases w.len() - from - k,
{
    let s = w.subrange(k, w.len() as int);
    if from >= s.len() {
    } else {
        lemma_len_from_suffix(w, k, from + 1);
    }
}
pub proof fn lemma_len_from_push(w: Seq<WindowEntry>, e: WindowEntry, from: int)
    requires 0 <= from <= w.len(),
    ensures len_from(w.push(e), from) == len_from(w, from) + e.data@.len(),
    decreases w.len() - from,
{
    if from < w.len() {
        lemma_len_from_push(w, e, from + 1);
        assert(w.push(e)[from] == w[from]);
    } else {
        assert(len_from(w.push(e), from + 1) == 0);
    }
}
/// len_from depends on the data lengths only
pub proof fn lemma_len_from_same_lens(a: Seq<WindowEntry>, b: Seq<WindowEntry>, from: int)
    requires a.len() == b.len(), forall|i: int| 0 <= i < a.len() ==> (#[trigger] a[i]).data@.len() == b[i].data@.len(), 0 <= from,
    ensures len_from(a, from) == len_from(b, from),
    decreases a.len() - from,
{
    if from < a.len() {
        lemma_len_from_same_lens(a, b, from + 1);
    }
}
pub proof fn lemma_len_from_mono(w: Seq<WindowEntry>, i: int)
    requires 0 <= i,
    ensures len_from(w, i) <= len_from(w, 0),
    decreases i,
{
    if i > 0 {
        lemma_len_from_mono(w, i - 1);
        lemma_len_from_nonneg(w, i);
        if i - 1 < w.len() { assert(len_from(w, i - 1) == w[i - 1].data@.len() + len_from(w, i)); } else { assert(len_from(w, i) == 0); lemma_len_from_nonneg(w, i - 1); }
    }
}
pub proof fn lemma_len_from_nonneg(w: Seq<WindowEntry>, from: int)
    ensures len_from(w, from) >= 0,
    decreases w.len() - from,
{
    if 0 <= from < w.len() { lemma_len_from_nonneg(w, from + 1); }
}

impl MatchGenerator {
    /// representation invariant of the window
    pub open spec fn wf(&self) -> bool {
        let w = self.window@;
        &&& self.window_size == len_from(w, 0)
        &&& self.window_size <= self.max_window_size
        &&& forall|i: int| 0 <= i < w.len() ==> (#[trigger] w[i]).base_offset == dist_to_last(w, i)
    }

    #[verifier::external_body]
    pub fn add_suffixes_till(&mut self, idx: usize)
        requires old(self).window@.len() > 0,
        ensures
            final(self).max_window_size == old(self).max_window_size, final(self).window_size == old(self).window_size,
            final(self).suffix_idx == old(self).suffix_idx, final(self).last_idx_in_sequence == old(self).last_idx_in_sequence,
            final(self).window@.len() == old(self).window@.len(),
            forall|i: int| 0 <= i < old(self).window@.len() ==> (#[trigger] final(self).window@[i]).data == old(self).window@[i].data
                && final(self).window@[i].base_offset == old(self).window@[i].base_offset,
    { unimplemented!() }

    pub fn new(max_size: usize) -> (r: Self)
        ensures r.wf(), r.window@.len() == 0, r.max_window_size == max_size, r.suffix_idx == 0, r.last_idx_in_sequence == 0,
{
        Self {
            max_window_size: max_size,
            window: Vec::new(),
            window_size: 0,
            
            suffix_idx: 0,
            last_idx_in_sequence: 0,
        }
    }

    pub fn skip_matching(&mut self)
        requires old(self).wf(), old(self).window@.len() > 0,
        ensures final(self).wf(), blocks(final(self).window@) =~= blocks(old(self).window@), final(self).max_window_size == old(self).max_window_size,
            final(self).suffix_idx == old(self).window@[old(self).window@.len() - 1].data@.len(),
            final(self).last_idx_in_sequence == final(self).suffix_idx,
{
        let len = self.window.last().unwrap().data.len();
        self.add_suffixes_till(len);
        self.suffix_idx = len;
        self.last_idx_in_sequence = len;
            proof {
            lemma_len_from_same_lens(self.window@, old(self).window@, 0);
            assert forall|i: int| 0 <= i < self.window@.len() implies (#[trigger] self.window@[i]).base_offset == dist_to_last(self.window@, i) by {
                lemma_len_from_same_lens(self.window@, old(self).window@, i);
                assert(old(self).window@[i].base_offset == dist_to_last(old(self).window@, i));
            }
        }
}

    pub fn reserve(&mut self, amount: usize, mut reuse_space: impl FnMut(Vec<u8>, SuffixStore))
        requires
            old(self).window_size == len_from(old(self).window@, 0),
            old(self).window_size <= old(self).max_window_size,
            old(self).max_window_size >= amount,
            old(self).max_window_size <= usize::MAX / 2,
            forall|d: Vec<u8>, s: SuffixStore| reuse_space.requires((d, s)),
        ensures
            final(self).max_window_size == old(self).max_window_size,
            final(self).suffix_idx == old(self).suffix_idx, final(self).last_idx_in_sequence == old(self).last_idx_in_sequence,
            // what is kept is a chronological suffix of what was there, entries untouched
            exists|k: int| 0 <= k <= old(self).window@.len() && #[trigger] evicted_to(old(self).window@, final(self).window@, k),
            final(self).window_size == len_from(final(self).window@, 0),
            final(self).window_size + amount <= final(self).max_window_size,
{
        let ghost mut k: int = 0;
        proof { assert(self.window@ =~= old(self).window@.subrange(0, old(self).window@.len() as int)); }
        let verif_assert_cond_1: bool = self.max_window_size >= amount; assert(verif_assert_cond_1);
        while self.window_size + amount > self.max_window_size 
            invariant
                self.max_window_size == old(self).max_window_size, self.max_window_size >= amount,
                self.suffix_idx == old(self).suffix_idx, self.last_idx_in_sequence == old(self).last_idx_in_sequence,
                0 <= k <= old(self).window@.len(),
                self.window@ =~= old(self).window@.subrange(k as int, old(self).window@.len() as int),
                self.window_size == len_from(old(self).window@, k as int),
                self.window_size <= self.max_window_size, self.max_window_size <= usize::MAX / 2,
                forall|d: Vec<u8>, s: SuffixStore| reuse_space.requires((d, s)),
            decreases old(self).window@.len() - k,
{
            proof {
                // the window cannot be empty here: an empty window has size 0 and amount <= max
                if k == old(self).window@.len() { assert(len_from(old(self).window@, k) == 0); }
                assert(self.window@.len() > 0);
                assert(self.window@[0] == old(self).window@[k]);
                lemma_len_from_nonneg(old(self).window@, k + 1);
            }

            let removed = self.window.remove(0);
            self.window_size -= removed.data.len();
            

            let WindowEntry {
                suffixes,
                data: leaked_vec,
                base_offset: _,
            } = removed;
            reuse_space(leaked_vec, suffixes);
        
            proof {
                k = k + 1;
            }
}
            proof {
            lemma_len_from_suffix(old(self).window@, k, 0);
            assert(evicted_to(old(self).window@, self.window@, k));
        }
}

    pub fn add_data(
        &mut self,
        data: Vec<u8>,
        suffixes: SuffixStore,
        reuse_space: impl FnMut(Vec<u8>, SuffixStore),
    )
        requires
            old(self).wf(),
            old(self).window@.len() == 0 || old(self).suffix_idx == old(self).window@[old(self).window@.len() - 1].data@.len(),
            data@.len() <= old(self).max_window_size,
            old(self).max_window_size <= usize::MAX / 2,
            forall|d: Vec<u8>, s: SuffixStore| reuse_space.requires((d, s)),
        ensures
            final(self).wf(),
            final(self).max_window_size == old(self).max_window_size,
            final(self).suffix_idx == 0, final(self).last_idx_in_sequence == 0,
            // the window now holds a chronological suffix of the old blocks followed by the new block, (how much is evicted is the implementation's choice: the property does not fix a retention policy)
            exists|k: int| 0 <= k <= old(self).window@.len()
                && #[trigger] blocks_after_append(blocks(old(self).window@), blocks(final(self).window@), k, data@),
            final(self).window@[final(self).window@.len() - 1].data == data,
            final(self).window@[final(self).window@.len() - 1].suffixes == suffixes,
{
        let verif_assert_cond_1: bool = self.window.is_empty() || self.suffix_idx == self.window.last().unwrap().data.len(); assert(verif_assert_cond_1);
        self.reserve(data.len(), reuse_space);
        

        let ghost w0 = old(self).window@;
        let ghost w1 = self.window@;
        let ghost k: int = choose|k: int| 0 <= k <= w0.len() && #[trigger] evicted_to(w0, w1, k);
        proof {
            // the entries kept still carry correct distances (their newest entry is unchanged)
            assert forall|i: int| 0 <= i < w1.len() implies (#[trigger] w1[i]).base_offset == dist_to_last(w1, i) by {
                assert(w1[i] == w0[i + k]);
                lemma_len_from_suffix(w0, k, i);
            }
            assert forall|i: int| 0 <= i < w1.len() implies #[trigger] len_from(w1, i) <= len_from(w1, 0) by { lemma_len_from_mono(w1, i); }
        }
        if let Some(last_len) = self.window.last().map(|last: &WindowEntry| -> (r: usize) ensures r == last.data@.len() { last.data.len() }) {
            proof {
                assert(w1.len() > 0);
                assert(last_len == w1[w1.len() - 1].data@.len());
                assert forall|i: int| 0 <= i < w1.len() implies #[trigger] w1[i].base_offset + last_len <= usize::MAX by {
                    assert(w1[i].base_offset == dist_to_last(w1, i));
                    assert(len_from(w1, i) <= len_from(w1, 0));
                }
            }
            for entry in it: self.window.iter_mut() 
                invariant
                    it.seq().len() == w1.len(),
                    forall|i: int| 0 <= i < w1.len() ==> #[trigger] w1[i].base_offset + last_len <= usize::MAX,
                    forall|i: int| 0 <= i < it.seq().len() ==> *(#[trigger] it.seq()[i]) == w1[i],
                    forall|i: int| 0 <= i < it.index() ==> (#[trigger] final(it.seq()[i])).base_offset == w1[i].base_offset + last_len
                        && final(it.seq()[i]).data == w1[i].data && final(it.seq()[i]).suffixes == w1[i].suffixes,
{
                entry.base_offset += last_len;
            }
        }

        let ghost w2 = self.window@;
        proof {
            assert(w2.len() == w1.len());
            if w1.len() > 0 {
                let last_len = w1[w1.len() - 1].data@.len();
                assert forall|i: int| 0 <= i < w1.len() implies (#[trigger] w2[i]).data == w1[i].data && w2[i].base_offset == len_from(w1, i) by {}
            }
        }
        let len = data.len();
        self.window.push(WindowEntry {
            data,
            suffixes,
            base_offset: 0,
        });
        self.window_size += len;
        self.suffix_idx = 0;
        self.last_idx_in_sequence = 0;
            proof {
            let w3 = self.window@;
            let e = w3[w3.len() - 1];
            assert(w3 =~= w2.push(e));
            lemma_len_from_same_lens(w2, w1, 0);
            lemma_len_from_push(w2, e, 0);
            assert forall|i: int| 0 <= i < w3.len() implies (#[trigger] w3[i]).base_offset == dist_to_last(w3, i) by {
                lemma_len_from_push(w2, e, i);
                if i < w2.len() {
                    lemma_len_from_same_lens(w2, w1, i);
                } else {
                    assert(len_from(w2, i) == 0);
                }
            }
            assert(blocks(w3) =~= blocks(w0).subrange(k, w0.len() as int).push(data@));
            assert(blocks_after_append(blocks(w0), blocks(w3), k, data@));
        }
}
}

pub open spec fn evicted_to(old_w: Seq<WindowEntry>, new_w: Seq<WindowEntry>, k: int) -> bool {
    new_w =~= old_w.subrange(k, old_w.len() as int)
}
pub open spec fn blocks_after_append(old_b: Seq<Seq<u8>>, new_b: Seq<Seq<u8>>, k: int, data: Seq<u8>) -> bool {
    new_b =~= old_b.subrange(k, old_b.len() as int).push(data)
}

pub proof fn verif_canary_must_fail(x: int)
    requires x > 0,
    ensures x > 1,
{
}
} // verus!
fn main() {}
