use vstd::prelude::*;
verus! {

global size_of usize == 8;

pub const MAX_BLOCK_SIZE: u32 = 128 * 1024;

pub enum DecodeBufferError {
    NotEnoughBytesInDictionary { got: usize, need: usize },
    OffsetTooBig { offset: usize, buf_len: usize },
}
pub enum ExecuteSequencesError {
    DecodebufferError(DecodeBufferError),
    NotEnoughBytesForSequence { wanted: usize, have: usize },
    ZeroOffset,
    BlockSizeTooLarge { size: u64 },
}
impl vstd::std_specs::convert::FromSpecImpl<DecodeBufferError> for ExecuteSequencesError {
    open spec fn obeys_from_spec() -> bool { true }
    open spec fn from_spec(v: DecodeBufferError) -> Self { ExecuteSequencesError::DecodebufferError(v) }
}
impl From<DecodeBufferError> for ExecuteSequencesError {
    fn from(val: DecodeBufferError) -> Self {
        Self::DecodebufferError(val)
    }
}

#[derive(Clone, Copy)]
pub struct Sequence {
    pub ll: u32,
    pub ml: u32,
    pub of: u32,
}

pub open spec fn match_copy(v: Seq<u8>, offset: int, n: int) -> Seq<u8>
    decreases n,
{
    if n <= 0 { Seq::empty() } else {
        let prev = match_copy(v, offset, n - 1);
        prev.push((v + prev)[v.len() + (n - 1) - offset])
    }
}

#[verifier::external_body]
pub struct DecodeBuffer { _opaque: u8 }

impl DecodeBuffer {
    pub uninterp spec fn view(&self) -> Seq<u8>;
    pub uninterp spec fn dict(&self) -> Seq<u8>;
    pub uninterp spec fn out_counter(&self) -> int;     // total_output_counter
    /// D0's invariant plus headroom of the 64-bit output counter
    pub uninterp spec fn inv(&self) -> bool;

    #[verifier::external_body]
    pub fn len(&self) -> (r: usize)
        requires self.inv(),
        ensures r == self.view().len(),
    { unimplemented!() }

    #[verifier::external_body]
    pub fn push(&mut self, data: &[u8])
        requires old(self).inv(), data@.len() <= u32::MAX,
        ensures final(self).inv(), final(self).view() == old(self).view() + data@, final(self).dict() == old(self).dict(),
    { unimplemented!() }

    #[verifier::external_body]
    pub fn repeat(&mut self, offset: usize, match_length: usize) -> (r: Result<(), DecodeBufferError>)
        requires old(self).inv(), offset >= 1, match_length <= u32::MAX,
        ensures
            final(self).inv(), final(self).dict() == old(self).dict(),
            r is Err ==> offset > old(self).view().len() && final(self).view() == old(self).view(),
            offset <= old(self).view().len() ==> r is Ok,
            r is Ok && offset <= old(self).view().len() ==>
                final(self).view() == old(self).view() + match_copy(old(self).view(), offset as int, match_length as int),
            r is Ok && offset > old(self).view().len() ==>
                final(self).view() == old(self).view() + match_copy(old(self).dict() + old(self).view(), offset as int, match_length as int),
            r is Ok ==> final(self).view().len() == old(self).view().len() + match_length,
    { unimplemented!() }
}

pub struct DecoderScratch {
    pub buffer: DecodeBuffer,
    pub offset_hist: [u32; 3],
    pub literals_buffer: Vec<u8>,
    pub sequences: Vec<Sequence>,
}

/// RFC 8878 3.1.1.5 (same statement as contracts/spec/10_rfc_codes.rs::spec_offset_history)
pub open spec fn spec_offset(of: u32, ll: u32, h: Seq<u32>) -> (int, Seq<u32>) {
    if of > 3 {
        ((of - 3) as int, seq![(of - 3) as u32, h[0], h[1]])
    } else if ll != 0 {
        if of == 1 { (h[0] as int, seq![h[0], h[1], h[2]]) }
        else if of == 2 { (h[1] as int, seq![h[1], h[0], h[2]]) }
        else { (h[2] as int, seq![h[2], h[0], h[1]]) }
    } else {
        if of == 1 { (h[1] as int, seq![h[1], h[0], h[2]]) }
        else if of == 2 { (h[2] as int, seq![h[2], h[0], h[1]]) }
        else {
            let o: u32 = if h[0] == 0 { 0u32 } else { (h[0] - 1) as u32 };
            (o as int, seq![o, h[0], h[1]])
        }
    }
}

pub fn do_offset_history(offset_value: u32, lit_len: u32, scratch: &mut [u32; 3]) -> (r: u32)
    requires offset_value >= 1,
    ensures
        r as int == spec_offset(offset_value, lit_len, old(scratch)@).0,
        final(scratch)@ =~= spec_offset(offset_value, lit_len, old(scratch)@).1,
{
    let actual_offset = if lit_len > 0 {
        match offset_value {
            1..=3 => scratch[offset_value as usize - 1],
            _ => {
                //new offset
                offset_value - 3
            }
        }
    } else {
        match offset_value {
            1..=2 => scratch[offset_value as usize],
            // A malformed dictionary can seed scratch[0] with 0; saturate so this
            // resolves to 0 (rejected upstream as ZeroOffset) instead of
            // underflowing. See #115.
            3 => scratch[0].saturating_sub(1),
            _ => {
                //new offset
                offset_value - 3
            }
        }
    };

    //update history
    if lit_len > 0 {
        match offset_value {
            1 => {
                //nothing
            }
            2 => {
                scratch[1] = scratch[0];
                scratch[0] = actual_offset;
            }
            _ => {
                scratch[2] = scratch[1];
                scratch[1] = scratch[0];
                scratch[0] = actual_offset;
            }
        }
    } else {
        match offset_value {
            1 => {
                scratch[1] = scratch[0];
                scratch[0] = actual_offset;
            }
            2 => {
                scratch[2] = scratch[1];
                scratch[1] = scratch[0];
                scratch[0] = actual_offset;
            }
            _ => {
                scratch[2] = scratch[1];
                scratch[1] = scratch[0];
                scratch[0] = actual_offset;
            }
        }
    }

    actual_offset
}

/// what a block's sequences produce, as a pure function: (output appended so far, literals consumed, history) after k sequences;
/// None = the block is rejected. `base` is everything in the window before the block, `dict` the dictionary content.
pub struct ExecState {
    pub out: Seq<u8>,
    pub lit_used: int,
    pub hist: Seq<u32>,
}
pub open spec fn exec_k(base: Seq<u8>, dict: Seq<u8>, lits: Seq<u8>, seqs: Seq<Sequence>, hist0: Seq<u32>, k: int) -> Option<ExecState>
    decreases k,
{
    if k <= 0 {
        Some(ExecState { out: Seq::empty(), lit_used: 0, hist: hist0 })
    } else {
        match exec_k(base, dict, lits, seqs, hist0, k - 1) {
            None => None,
            Some(st) => {
                let s = seqs[k - 1];
                if st.out.len() + s.ll + s.ml > MAX_BLOCK_SIZE as int { None }
                else if st.lit_used + s.ll > lits.len() { None }
                else {
                    let (off, h2) = spec_offset(s.of, s.ll, st.hist);
                    let with_lits = st.out + lits.subrange(st.lit_used, st.lit_used + s.ll);
                    let cur = base + with_lits;
                    if off == 0 { None }
                    else if s.ml == 0 { Some(ExecState { out: with_lits, lit_used: st.lit_used + s.ll, hist: h2 }) }
                    else if off <= cur.len() {
                        Some(ExecState { out: with_lits + match_copy(cur, off, s.ml as int), lit_used: st.lit_used + s.ll, hist: h2 })
                    } else {
                        // reaches into the dictionary; whether that is allowed (window not yet passed, dictionary long enough) is D0's contract
                        Some(ExecState { out: with_lits + match_copy(dict + cur, off, s.ml as int), lit_used: st.lit_used + s.ll, hist: h2 })
                    }
                }
            }
        }
    }
}

pub proof fn lemma_match_copy_len(v: Seq<u8>, offset: int, n: int)
    requires n >= 0,
    ensures match_copy(v, offset, n).len() == n,
    decreases n,
{
    if n > 0 { lemma_match_copy_len(v, offset, n - 1); }
}

pub fn execute_sequences(scratch: &mut DecoderScratch) -> (r: Result<(), ExecuteSequencesError>)
    requires
        old(scratch).buffer.inv(),
        forall|i: int| 0 <= i < old(scratch).sequences@.len() ==> (#[trigger] old(scratch).sequences@[i]).of >= 1,   // Q2: decode_sequences never emits offset value 0
        old(scratch).literals_buffer@.len() <= MAX_BLOCK_SIZE,          // B2: literals header capped at 128 KiB before decoding
    ensures
        final(scratch).buffer.inv(),
        final(scratch).sequences == old(scratch).sequences, final(scratch).literals_buffer == old(scratch).literals_buffer,
        final(scratch).buffer.dict() == old(scratch).buffer.dict(),
        // C05: a block regenerates at most 128 KiB - on EVERY path: an over-long block is rejected before it is expanded, so
        // even a failing call never leaves more than one block's worth of extra data in the window
        final(scratch).buffer.view().len() - old(scratch).buffer.view().len() <= MAX_BLOCK_SIZE,
        final(scratch).buffer.view().len() >= old(scratch).buffer.view().len(),
        // C01: the output is the interleaving of literal runs and matches, then the remaining literals
        r is Ok ==> ({
            let n = old(scratch).sequences@.len() as int;
            let e = exec_k(old(scratch).buffer.view(), old(scratch).buffer.dict(), old(scratch).literals_buffer@, old(scratch).sequences@, old(scratch).offset_hist@, n);
            e is Some
            && final(scratch).buffer.view() == old(scratch).buffer.view() + e->0.out + old(scratch).literals_buffer@.subrange(e->0.lit_used, old(scratch).literals_buffer@.len() as int)
            && final(scratch).offset_hist@ =~= e->0.hist
        }),
{
    let mut literals_copy_counter = 0;
    let old_buffer_size = scratch.buffer.len();
    let mut seq_sum = 0;

    for idx in 0..scratch.sequences.len() 
        invariant
            scratch.buffer.inv(),
            scratch.sequences == old(scratch).sequences, scratch.literals_buffer == old(scratch).literals_buffer,
            scratch.buffer.dict() == old(scratch).buffer.dict(),
            forall|i: int| 0 <= i < scratch.sequences@.len() ==> (#[trigger] scratch.sequences@[i]).of >= 1,
            scratch.literals_buffer@.len() <= MAX_BLOCK_SIZE,
            old_buffer_size == old(scratch).buffer.view().len(),
            literals_copy_counter <= scratch.literals_buffer@.len(),
            seq_sum <= MAX_BLOCK_SIZE,
            ({
                let e = exec_k(old(scratch).buffer.view(), old(scratch).buffer.dict(), old(scratch).literals_buffer@, old(scratch).sequences@, old(scratch).offset_hist@, idx as int);
                e is Some
                && scratch.buffer.view() == old(scratch).buffer.view() + e->0.out
                && e->0.out.len() == seq_sum
                && e->0.lit_used == literals_copy_counter
                && scratch.offset_hist@ =~= e->0.hist
            }),
{
        let seq = scratch.sequences[idx];

        // A block must not regenerate more than MAX_BLOCK_SIZE bytes. Check before copying anything
        // so corrupted data can not make the buffer grow without bounds (and seq_sum can not overflow).
        let block_size = u64::from(seq_sum) + u64::from(seq.ll) + u64::from(seq.ml);
        if block_size > u64::from(MAX_BLOCK_SIZE) {
            return Err(ExecuteSequencesError::BlockSizeTooLarge { size: block_size });
        }

        if seq.ll > 0 {
            let high = literals_copy_counter + seq.ll as usize;
            if high > scratch.literals_buffer.len() {
                return Err(ExecuteSequencesError::NotEnoughBytesForSequence {
                    wanted: high,
                    have: scratch.literals_buffer.len(),
                });
            }
            let literals = &scratch.literals_buffer[literals_copy_counter..high];
            literals_copy_counter += seq.ll as usize;

            scratch.buffer.push(literals);
        }

        let actual_offset = do_offset_history(seq.of, seq.ll, &mut scratch.offset_hist);
        if actual_offset == 0 {
            return Err(ExecuteSequencesError::ZeroOffset);
        }
        if seq.ml > 0 {
            scratch
                .buffer
                .repeat(actual_offset as usize, seq.ml as usize)?;
        }

        proof {
            let base = old(scratch).buffer.view();
            let dct = old(scratch).buffer.dict();
            let lits = old(scratch).literals_buffer@;
            let sq = old(scratch).sequences@;
            let h0 = old(scratch).offset_hist@;
            let st = exec_k(base, dct, lits, sq, h0, idx as int)->0;
            let cur = base + (st.out + lits.subrange(st.lit_used, st.lit_used + seq.ll));
            lemma_match_copy_len(cur, actual_offset as int, seq.ml as int);
            lemma_match_copy_len(dct + cur, actual_offset as int, seq.ml as int);
            assert(lits.subrange(st.lit_used, st.lit_used + 0) =~= Seq::<u8>::empty());
            assert(st.out + Seq::<u8>::empty() =~= st.out);
            assert(base + st.out + lits.subrange(st.lit_used, st.lit_used + seq.ll) =~= cur);
            assert(exec_k(base, dct, lits, sq, h0, idx + 1) is Some);
            assert(scratch.buffer.view() =~= base + exec_k(base, dct, lits, sq, h0, idx + 1)->0.out);
        }
        seq_sum += seq.ml;
        seq_sum += seq.ll;
    }
    if literals_copy_counter < scratch.literals_buffer.len() {
        let rest_literals = &scratch.literals_buffer[literals_copy_counter..];
        let block_size = u64::from(seq_sum) + rest_literals.len() as u64;
        if block_size > u64::from(MAX_BLOCK_SIZE) {
            return Err(ExecuteSequencesError::BlockSizeTooLarge { size: block_size });
        }
        scratch.buffer.push(rest_literals);
        seq_sum += rest_literals.len() as u32;
    }

    let diff = scratch.buffer.len() - old_buffer_size;
    let verif_assert_cond_1: bool = seq_sum as usize == diff; assert(verif_assert_cond_1);
    Ok(())
}

pub proof fn verif_canary_must_fail(x: int)
    requires x > 0,
    ensures x > 1,
{
}
} // verus!
fn main() {}
