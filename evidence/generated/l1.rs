use vstd::prelude::*;
verus! {

global size_of usize == 8;

#[verifier::external_body]
pub fn vpanic() -> !
    requires false,
{ panic!() }

// ---- abstract BitReaderReversed: exactly the contracts Verus unit BRR1 proves on the verbatim bodies ----
pub open spec fn low_mask(n: u8) -> u64 { ((1u64 << n) - 1) as u64 }
pub const EXTRA_LIMIT: usize = 0x4000_0000_0000_0000;

#[verifier::external_body]
pub struct BitReaderReversed<'s> { _s: &'s [u8] }
impl<'s> BitReaderReversed<'s> {
    pub uninterp spec fn wf(&self) -> bool;
    pub uninterp spec fn remaining(&self) -> int;
    pub uninterp spec fn extra(&self) -> int;
    pub uninterp spec fn src_len(&self) -> int;

    #[verifier::external_body]
    pub fn new(source: &'s [u8]) -> (r: BitReaderReversed<'s>)
        requires source@.len() <= 0x1_0000_0000,
        ensures r.wf(), r.remaining() == 8 * source@.len(), r.extra() == 0, r.src_len() == source@.len(),
    { unimplemented!() }
    #[verifier::external_body]
    pub fn bits_remaining(&self) -> (r: isize)
        requires self.wf(),
        ensures r == self.remaining(), 0 <= self.extra() <= 8 * self.src_len() + 64 - self.remaining(), self.src_len() <= 0x1_0000_0000,
    { unimplemented!() }
    #[verifier::external_body]
    pub fn get_bits(&mut self, n: u8) -> (r: u64)
        requires old(self).wf(), n <= 56, old(self).extra() + 64 <= EXTRA_LIMIT,
        ensures final(self).wf(), final(self).remaining() == old(self).remaining() - n, r <= low_mask(n),
                old(self).extra() <= final(self).extra() <= old(self).extra() + 64, final(self).src_len() == old(self).src_len(),
    { unimplemented!() }
    #[verifier::external_body]
    pub fn get_bits_triple(&mut self, n1: u8, n2: u8, n3: u8) -> (r: (u64, u64, u64))
        requires old(self).wf(), n1 <= 56, n2 <= 56, n3 <= 56, old(self).extra() + 192 <= EXTRA_LIMIT,
        ensures final(self).wf(), final(self).remaining() == old(self).remaining() - (n1 + n2 + n3),
                r.0 <= low_mask(n1), r.1 <= low_mask(n2), r.2 <= low_mask(n3),
                old(self).extra() <= final(self).extra() <= old(self).extra() + 192, final(self).src_len() == old(self).src_len(),
    { unimplemented!() }
}


pub enum HuffmanTableError { Any }
pub enum DecompressLiteralsError {
    MissingCompressedSize,
    MissingNumStreams,
    HuffmanTableError(HuffmanTableError),
    UninitializedHuffmanTable,
    MissingBytesForJumpHeader { got: usize },
    MissingBytesForLiterals { got: usize, needed: usize },
    ExtraPadding { skipped_bits: i32 },
    BitstreamReadMismatch { read_til: isize, expected: isize },
    DecodedLiteralCountMismatch { decoded: usize, expected: usize },
}
impl vstd::std_specs::convert::FromSpecImpl<HuffmanTableError> for DecompressLiteralsError {
    open spec fn obeys_from_spec() -> bool { true }
    open spec fn from_spec(v: HuffmanTableError) -> Self { DecompressLiteralsError::HuffmanTableError(v) }
}
impl From<HuffmanTableError> for DecompressLiteralsError {
    fn from(val: HuffmanTableError) -> Self {
        Self::HuffmanTableError(val)
    }
}

#[derive(Copy, Clone)]
pub struct Entry { pub symbol: u8, pub num_bits: u8 }

pub struct HuffmanTable {
    pub decode: Vec<Entry>,
    pub max_num_bits: u8,
}

impl HuffmanTable {
    /// what a successful table build establishes (HU1) and stepping relies on; max_num_bits == 0 means "no table yet"
    pub open spec fn huff_wf(&self) -> bool {
        self.max_num_bits != 0 ==> (
            self.max_num_bits <= 11
            && self.decode@.len() == (1u64 << self.max_num_bits)
            && forall|i: int| 0 <= i < self.decode@.len() ==> 1 <= (#[trigger] self.decode@[i]).num_bits <= self.max_num_bits)
    }

    #[verifier::external_body]
    pub fn build_decoder(&mut self, source: &[u8]) -> (r: Result<u32, HuffmanTableError>)
        ensures r matches Ok(n) ==> n <= source@.len() && final(self).huff_wf() && final(self).max_num_bits != 0,
    { unimplemented!() }
}

pub struct HuffmanDecoder<'table> {
    pub table: &'table HuffmanTable,
    pub state: u64,
}

pub proof fn lemma_huff_bits()
    ensures
        forall|k: u8| 1 <= k <= 11 ==> (#[trigger] (1u64 << k)) >= 2 && (1u64 << k) <= 2048 && low_mask(k) == (1u64 << k) - 1,
        forall|a: u64, b: u64, k: u8, nb: u8| 1 <= nb <= k <= 11 && b <= low_mask(nb) ==> #[trigger] ((a << nb) & (((1u64 << k) - 1) as u64) | b) <= (((1u64 << k) - 1) as u64),
{
    assert(forall|k: u8| 1 <= k <= 11 ==> (#[trigger] (1u64 << k)) >= 2 && (1u64 << k) <= 2048) by (bit_vector);
    assert(forall|a: u64, b: u64, k: u8, nb: u8| 1 <= nb <= k <= 11 && b <= (((1u64 << nb) - 1) as u64) ==> #[trigger] ((a << nb) & (((1u64 << k) - 1) as u64) | b) <= (((1u64 << k) - 1) as u64)) by (bit_vector);
}

impl<'t> HuffmanDecoder<'t> {
    pub open spec fn ok(&self) -> bool {
        self.table.huff_wf() && self.table.max_num_bits != 0 && self.state < self.table.decode@.len()
    }

    pub fn new(table: &'t HuffmanTable) -> (r: HuffmanDecoder<'t>)
        ensures r.table == table, r.state == 0,
{
        HuffmanDecoder { table, state: 0 }
    }
    pub fn decode_symbol(&mut self) -> (r: u8)
        requires old(self).ok(),
        ensures *final(self) == *old(self),
{
        self.table.decode[self.state as usize].symbol
    }
    pub fn init_state(&mut self, br: &mut BitReaderReversed<'_>) -> (r: u8)
        requires old(self).table.huff_wf(), old(self).table.max_num_bits != 0, old(br).wf(), old(br).extra() + 64 <= EXTRA_LIMIT,
        ensures
            final(self).ok(), final(self).table == old(self).table, final(br).wf(),
            final(br).remaining() == old(br).remaining() - old(self).table.max_num_bits,
            old(br).extra() <= final(br).extra() <= old(br).extra() + 64, final(br).src_len() == old(br).src_len(),
{
        proof { lemma_huff_bits(); }
        let num_bits = self.table.max_num_bits;
        let new_bits = br.get_bits(num_bits);
        self.state = new_bits;
        num_bits
    }
    pub fn next_state(&mut self, br: &mut BitReaderReversed<'_>) -> (r: u8)
        requires old(self).ok(), old(br).wf(), old(br).extra() + 64 <= EXTRA_LIMIT,
        ensures
            final(self).ok(), final(self).table == old(self).table, final(br).wf(),
            1 <= r <= old(self).table.max_num_bits,                       // every literal consumes at least one bit: the literal loops terminate
            final(br).remaining() == old(br).remaining() - r,
            old(br).extra() <= final(br).extra() <= old(br).extra() + 64, final(br).src_len() == old(br).src_len(),
{
        proof { lemma_huff_bits(); }
        // self.state stores a small section, or a window of the bit stream. The table can be indexed via this state,
        // telling you how many bits identify the current symbol.
        let num_bits = self.table.decode[self.state as usize].num_bits;
        // New bits are read from the stream
        let new_bits = br.get_bits(num_bits);
        // Shift and mask out the bits that identify the current symbol
        self.state <<= num_bits;
        self.state &= self.table.decode.len() as u64 - 1;
        // The new bits are appended at the end of the current state.
        self.state |= new_bits;
        num_bits
    }
}


pub enum LiteralsSectionType { Raw, RLE, Compressed, Treeless }

pub struct LiteralsSection {
    pub regenerated_size: u32,
    pub compressed_size: Option<u32>,
    pub num_streams: Option<u8>,
    pub ls_type: LiteralsSectionType,
}

pub struct HuffmanScratch { pub table: HuffmanTable }

/// how many source bytes the block decoder hands to decode_literals for this header (B2's slicing): compressed_size, 1 (RLE) or regenerated_size (raw)
pub open spec fn literal_bytes(section: &LiteralsSection) -> int {
    match section.compressed_size {
        Some(x) => x as int,
        None => match section.ls_type { LiteralsSectionType::RLE => 1, _ => section.regenerated_size as int },
    }
}

pub fn decompress_literals(
    section: &LiteralsSection,
    scratch: &mut HuffmanScratch,
    source: &[u8],
    target: &mut Vec<u8>,
) -> (r: Result<u32, DecompressLiteralsError>)
    requires
        old(scratch).table.huff_wf(),
        source@.len() <= 0x1_0000_0000,
        section.compressed_size matches Some(c) ==> c <= source@.len(),     // B2 checks raw.len() >= upper_limit before slicing
        section.num_streams matches Some(k) ==> k == 1 || k == 4,            // H5's postcondition
        section.ls_type is Compressed || section.ls_type is Treeless,        // the only caller (decode_literals) dispatches on the type
    ensures
        final(scratch).table.huff_wf() || r is Err,
        r matches Ok(n) ==> n == section.compressed_size->0 && section.compressed_size is Some
            && final(target)@.len() == section.regenerated_size,
{
    proof { assert(forall|b: u8| #[trigger] ((b as usize) << 8) <= 0xff00) by (bit_vector); }
    use DecompressLiteralsError as err;

    let compressed_size = section.compressed_size.ok_or(err::MissingCompressedSize)? as usize;
    let num_streams = section.num_streams.ok_or(err::MissingNumStreams)?;

    target.reserve(section.regenerated_size as usize);
    let source = &source[0..compressed_size];
    let mut bytes_read = 0;

    match section.ls_type {
        LiteralsSectionType::Compressed => {
            //read Huffman tree description
            bytes_read += scratch.table.build_decoder(source)?;
            
        }
        LiteralsSectionType::Treeless if scratch.table.max_num_bits == 0 => {
            return Err(err::UninitializedHuffmanTable);
        }

        _ => { /* nothing to do, huffman tree has been provided by previous block */ }
    }

    let source = &source[bytes_read as usize..];

    if num_streams == 4 {
        //build jumptable
        if source.len() < 6 {
            return Err(err::MissingBytesForJumpHeader { got: source.len() });
        }
        let jump1 = source[0] as usize + ((source[1] as usize) << 8);
        let jump2 = jump1 + source[2] as usize + ((source[3] as usize) << 8);
        let jump3 = jump2 + source[4] as usize + ((source[5] as usize) << 8);
        bytes_read += 6;
        let source = &source[6..];

        if source.len() < jump3 {
            return Err(err::MissingBytesForLiterals {
                got: source.len(),
                needed: jump3,
            });
        }

        //decode 4 streams
        let stream1 = &source[..jump1];
        let stream2 = &source[jump1..jump2];
        let stream3 = &source[jump2..jump3];
        let stream4 = &source[jump3..];

        let streams = [stream1, stream2, stream3, stream4]; for si in 0..4usize 
            invariant
                scratch.table.huff_wf(), scratch.table.max_num_bits != 0,
                streams[0]@.len() <= 0x1_0000_0000, streams[1]@.len() <= 0x1_0000_0000, streams[2]@.len() <= 0x1_0000_0000, streams[3]@.len() <= 0x1_0000_0000,
{ let stream = &streams[si];
            let mut decoder = HuffmanDecoder::new(&scratch.table);
            let mut br = BitReaderReversed::new(stream);
            //skip the 0 padding at the end of the last byte of the bit stream and throw away the first 1 found
            let mut skipped_bits = 0;
            loop 
                invariant_except_break skipped_bits <= 8,
                invariant br.wf(), 0 <= skipped_bits <= 9, br.extra() <= 64 * skipped_bits, br.src_len() == stream@.len(),
                decreases 9 - skipped_bits,
{
                let val = br.get_bits(1);
                skipped_bits += 1;
                if val == 1 || skipped_bits > 8 {
                    break;
                }
            }
            if skipped_bits > 8 {
                //if more than 7 bits are 0, this is not the correct end of the bitstream. Either a bug or corrupted data
                return Err(DecompressLiteralsError::ExtraPadding { skipped_bits });
            }
            decoder.init_state(&mut br);

            while br.bits_remaining() > -(scratch.table.max_num_bits as isize) 
                invariant
                    br.wf(), decoder.ok(), decoder.table == &scratch.table, scratch.table.huff_wf(), scratch.table.max_num_bits != 0,
                    br.src_len() <= 0x1_0000_0000,
                decreases br.remaining() + 64,
{
                target.push(decoder.decode_symbol());
                decoder.next_state(&mut br);
            }
            if br.bits_remaining() != -(scratch.table.max_num_bits as isize) {
                return Err(DecompressLiteralsError::BitstreamReadMismatch {
                    read_til: br.bits_remaining(),
                    expected: -(scratch.table.max_num_bits as isize),
                });
            }
        }

        bytes_read += source.len() as u32;
    } else {
        //just decode the one stream
        let verif_assert_cond_1: bool = num_streams == 1; assert(verif_assert_cond_1);
        let mut decoder = HuffmanDecoder::new(&scratch.table);
        let mut br = BitReaderReversed::new(source);
        let mut skipped_bits = 0;
        loop 
            invariant_except_break skipped_bits <= 8,
            invariant br.wf(), 0 <= skipped_bits <= 9, br.extra() <= 64 * skipped_bits, br.src_len() == source@.len(),
            decreases 9 - skipped_bits,
{
            let val = br.get_bits(1);
            skipped_bits += 1;
            if val == 1 || skipped_bits > 8 {
                break;
            }
        }
        if skipped_bits > 8 {
            //if more than 7 bits are 0, this is not the correct end of the bitstream. Either a bug or corrupted data
            return Err(DecompressLiteralsError::ExtraPadding { skipped_bits });
        }
        decoder.init_state(&mut br);
        while br.bits_remaining() > -(scratch.table.max_num_bits as isize) 
            invariant
                br.wf(), decoder.ok(), decoder.table == &scratch.table, scratch.table.huff_wf(), scratch.table.max_num_bits != 0,
                br.src_len() <= 0x1_0000_0000,
            decreases br.remaining() + 64,
{
            target.push(decoder.decode_symbol());
            decoder.next_state(&mut br);
        }
        bytes_read += source.len() as u32;
    }

    if target.len() != section.regenerated_size as usize {
        return Err(DecompressLiteralsError::DecodedLiteralCountMismatch {
            decoded: target.len(),
            expected: section.regenerated_size as usize,
        });
    }

    Ok(bytes_read)
}

pub fn decode_literals(
    section: &LiteralsSection,
    scratch: &mut HuffmanScratch,
    source: &[u8],
    target: &mut Vec<u8>,
) -> (r: Result<u32, DecompressLiteralsError>)
    requires
        old(scratch).table.huff_wf(),
        source@.len() <= 0x1_0000_0000,
        source@.len() >= literal_bytes(section),                             // B2: raw.len() >= upper_limit_for_literals
        (section.ls_type is Compressed || section.ls_type is Treeless) ==> section.compressed_size is Some,   // H5's postcondition
        (section.ls_type is Raw || section.ls_type is RLE) ==> section.compressed_size is None,
        section.num_streams matches Some(k) ==> k == 1 || k == 4,
        old(target)@.len() == 0,                                             // B2 clears the literals buffer first
    ensures
        final(scratch).table.huff_wf() || r is Err,
        // exactly what B2's two assert!s demand
        r matches Ok(n) ==> n == literal_bytes(section) && final(target)@.len() == section.regenerated_size,
{
    match section.ls_type {
        LiteralsSectionType::Raw => {
            target.extend_from_slice(&source[0..section.regenerated_size as usize]);
            Ok(section.regenerated_size)
        }
        LiteralsSectionType::RLE => {
            target.resize(target.len() + section.regenerated_size as usize, source[0]);
            Ok(1)
        }
        LiteralsSectionType::Compressed | LiteralsSectionType::Treeless => {
            let bytes_read = decompress_literals(section, scratch, source, target)?;

            //return sum of used bytes
            Ok(bytes_read)
        }
    }
}

pub proof fn verif_canary_must_fail(x: int)
    requires x > 0,
    ensures x > 1,
{
}
} // verus!
fn main() {}
