use vstd::prelude::*;
verus! {

global size_of usize == 8;

pub const MAX_LITERAL_LENGTH_CODE: u8 = 35;
pub const MAX_MATCH_LENGTH_CODE: u8 = 52;
pub const MAX_OFFSET_CODE: u8 = 31;

#[derive(Copy, Clone)]
pub struct Entry {
    pub base_line: u32,
    pub num_bits: u8,
    pub symbol: u8,
}

pub struct FSETable {
    pub max_symbol: u8,
    pub decode: Vec<Entry>,
    pub accuracy_log: u8,
    pub symbol_probabilities: Vec<i32>,
    pub symbol_counter: Vec<u32>,
}

impl FSETable {
    /// the state a new table is in (also: what `reset` must re-establish)
    pub open spec fn is_empty(&self) -> bool {
        self.decode@.len() == 0 && self.accuracy_log == 0 && self.symbol_probabilities@.len() == 0 && self.symbol_counter@.len() == 0
    }
    /// same decoding behaviour as `o` (everything except the fixed max_symbol)
    pub open spec fn same_as(&self, o: &FSETable) -> bool {
        self.decode@ =~= o.decode@ && self.accuracy_log == o.accuracy_log
        && self.symbol_probabilities@ =~= o.symbol_probabilities@ && self.symbol_counter@ =~= o.symbol_counter@
    }

    pub fn new(max_symbol: u8) -> (r: FSETable)
        ensures r.is_empty(), r.max_symbol == max_symbol,
{
        FSETable {
            max_symbol,
            symbol_probabilities: Vec::with_capacity(256), //will never be more than 256 symbols because u8
            symbol_counter: Vec::with_capacity(256), //will never be more than 256 symbols because u8
            decode: Vec::new(),                      //depending on acc_log.
            accuracy_log: 0,
        }
    }

    pub fn reset(&mut self)
        ensures final(self).is_empty(), final(self).max_symbol == old(self).max_symbol,
{
        self.symbol_counter.clear();
        self.symbol_probabilities.clear();
        self.decode.clear();
        self.accuracy_log = 0;
    }

    pub fn reinit_from(&mut self, other: &Self)
        ensures final(self).same_as(other), final(self).max_symbol == old(self).max_symbol,
{
        self.reset();
        self.symbol_counter.extend_from_slice(&other.symbol_counter);
        self.symbol_probabilities
            .extend_from_slice(&other.symbol_probabilities);
        self.decode.extend_from_slice(&other.decode);
        self.accuracy_log = other.accuracy_log;
    }
}

#[derive(Copy, Clone)]
pub struct HEntry {
    pub symbol: u8,
    pub num_bits: u8,
}

pub struct HuffmanTable {
    pub decode: Vec<HEntry>,
    pub weights: Vec<u8>,
    pub max_num_bits: u8,
    pub bits: Vec<u8>,
    pub bit_ranks: Vec<u32>,
    pub rank_indexes: Vec<usize>,
    pub fse_table: FSETable,
}

impl HuffmanTable {
    pub open spec fn is_empty(&self) -> bool {
        self.decode@.len() == 0 && self.weights@.len() == 0 && self.max_num_bits == 0 && self.bits@.len() == 0
        && self.bit_ranks@.len() == 0 && self.rank_indexes@.len() == 0 && self.fse_table.is_empty() && self.fse_table.max_symbol == 255
    }
    /// what literal decoding reads: the decode table and its bit width (the other vectors are build-time scratch,
    /// cleared and rewritten by every table build before they are read)
    pub open spec fn same_as(&self, o: &HuffmanTable) -> bool {
        self.decode@ =~= o.decode@ && self.max_num_bits == o.max_num_bits
        && self.weights@ =~= o.weights@ && self.bits@ =~= o.bits@ && self.rank_indexes@ =~= o.rank_indexes@
        && self.fse_table.same_as(&o.fse_table)
    }

    pub fn new() -> (r: HuffmanTable)
        ensures r.is_empty(),
{
        HuffmanTable {
            decode: Vec::new(),

            weights: Vec::with_capacity(256),
            max_num_bits: 0,
            bits: Vec::with_capacity(256),
            bit_ranks: Vec::with_capacity(11),
            rank_indexes: Vec::with_capacity(11),
            fse_table: FSETable::new(255),
        }
    }

    pub fn reset(&mut self)
        requires old(self).fse_table.max_symbol == 255,
        ensures final(self).is_empty(),
{
        self.decode.clear();
        self.weights.clear();
        self.max_num_bits = 0;
        self.bits.clear();
        self.bit_ranks.clear();
        self.rank_indexes.clear();
        self.fse_table.reset();
    }

    pub fn reinit_from(&mut self, other: &Self)
        requires old(self).fse_table.max_symbol == 255,
        ensures final(self).same_as(other), final(self).fse_table.max_symbol == 255,
{
        self.reset();
        self.decode.extend_from_slice(&other.decode);
        self.weights.extend_from_slice(&other.weights);
        self.max_num_bits = other.max_num_bits;
        self.bits.extend_from_slice(&other.bits);
        self.rank_indexes.extend_from_slice(&other.rank_indexes);
        self.fse_table.reinit_from(&other.fse_table);
    }
}

pub struct HuffmanScratch {
    pub table: HuffmanTable,
}

pub struct FSEScratch {
    pub offsets: FSETable,
    pub of_rle: Option<u8>,
    pub literal_lengths: FSETable,
    pub ll_rle: Option<u8>,
    pub match_lengths: FSETable,
    pub ml_rle: Option<u8>,
}

impl FSEScratch {
    pub open spec fn is_fresh(&self) -> bool {
        self.offsets.is_empty() && self.literal_lengths.is_empty() && self.match_lengths.is_empty()
        && self.of_rle is None && self.ll_rle is None && self.ml_rle is None
        && self.offsets.max_symbol == MAX_OFFSET_CODE && self.literal_lengths.max_symbol == MAX_LITERAL_LENGTH_CODE
        && self.match_lengths.max_symbol == MAX_MATCH_LENGTH_CODE
    }
    pub open spec fn max_symbols_ok(&self) -> bool {
        self.offsets.max_symbol == MAX_OFFSET_CODE && self.literal_lengths.max_symbol == MAX_LITERAL_LENGTH_CODE
        && self.match_lengths.max_symbol == MAX_MATCH_LENGTH_CODE
    }
    pub open spec fn same_as(&self, o: &FSEScratch) -> bool {
        self.offsets.same_as(&o.offsets) && self.literal_lengths.same_as(&o.literal_lengths) && self.match_lengths.same_as(&o.match_lengths)
        && self.of_rle == o.of_rle && self.ll_rle == o.ll_rle && self.ml_rle == o.ml_rle
    }

    pub fn new() -> (r: FSEScratch)
        ensures r.is_fresh(),
{
        FSEScratch {
            offsets: FSETable::new(MAX_OFFSET_CODE),
            of_rle: None,
            literal_lengths: FSETable::new(MAX_LITERAL_LENGTH_CODE),
            ll_rle: None,
            match_lengths: FSETable::new(MAX_MATCH_LENGTH_CODE),
            ml_rle: None,
        }
    }

    pub fn reinit_from(&mut self, other: &Self)
        requires old(self).max_symbols_ok(),
        ensures final(self).same_as(other), final(self).max_symbols_ok(),
{
        self.offsets.reinit_from(&other.offsets);
        self.literal_lengths.reinit_from(&other.literal_lengths);
        self.match_lengths.reinit_from(&other.match_lengths);
        self.of_rle = other.of_rle;
        self.ll_rle = other.ll_rle;
        self.ml_rle = other.ml_rle;
    }
}

#[verifier::external_body]
pub struct RingBuffer { _opaque: u8 }
impl RingBuffer {
    pub uninterp spec fn view(&self) -> Seq<u8>;
    pub uninterp spec fn freecap(&self) -> int;

    #[verifier::external_body]
    pub fn new() -> (r: RingBuffer)
        ensures r.view().len() == 0,
    { unimplemented!() }

    #[verifier::external_body]
    pub fn clear(&mut self)
        ensures final(self).view().len() == 0,
    { unimplemented!() }

    #[verifier::external_body]
    pub fn reserve(&mut self, amount: usize)
        ensures final(self).view() == old(self).view(), final(self).freecap() >= amount,
    { unimplemented!() }
}

pub struct DecodeBuffer {
    pub buffer: RingBuffer,
    pub dict_content: Vec<u8>,
    pub window_size: usize,
    pub total_output_counter: u64,
}

impl DecodeBuffer {
    /// empty window, no dictionary, counters zero, window installed (the hash field is cfg(feature = "hash") and handled by Kani D1.d2_reset)
    pub open spec fn is_fresh(&self, w: usize) -> bool {
        self.buffer.view().len() == 0 && self.dict_content@.len() == 0 && self.window_size == w && self.total_output_counter == 0
    }

    pub fn new(window_size: usize) -> (r: DecodeBuffer)
        ensures r.is_fresh(window_size),
{
        DecodeBuffer {
            buffer: RingBuffer::new(),
            dict_content: Vec::new(),
            window_size,
            total_output_counter: 0,
            #[cfg(feature = "hash")]
            hash: twox_hash::XxHash64::with_seed(0),
        }
    }

    pub fn reset(&mut self, window_size: usize)
        ensures final(self).is_fresh(window_size), final(self).buffer.freecap() >= window_size,
{
        self.window_size = window_size;
        self.buffer.clear();
        self.buffer.reserve(self.window_size);
        self.dict_content.clear();
        self.total_output_counter = 0;
        #[cfg(feature = "hash")]
        {
            self.hash = twox_hash::XxHash64::with_seed(0);
        }
    }
}

#[derive(Clone, Copy)]
pub struct Sequence { pub ll: u32, pub ml: u32, pub of: u32 }

pub struct Dictionary {
    pub id: u32,
    pub fse: FSEScratch,
    pub huf: HuffmanScratch,
    pub dict_content: Vec<u8>,
    pub offset_hist: [u32; 3],
}

pub struct DecoderScratch {
    pub huf: HuffmanScratch,
    pub fse: FSEScratch,
    pub buffer: DecodeBuffer,
    pub offset_hist: [u32; 3],
    pub literals_buffer: Vec<u8>,
    pub sequences: Vec<Sequence>,
    pub block_content_buffer: Vec<u8>,
}

impl DecoderScratch {
    /// the state in which every frame starts: nothing of any earlier frame or dictionary is visible
    pub open spec fn is_fresh(&self, w: usize) -> bool {
        self.huf.table.is_empty() && self.fse.is_fresh() && self.buffer.is_fresh(w)
        && self.offset_hist@ =~= seq![1u32, 4u32, 8u32]
        && self.literals_buffer@.len() == 0 && self.sequences@.len() == 0 && self.block_content_buffer@.len() == 0
    }
    /// type-level facts every DecoderScratch built by `new` satisfies and no method changes
    pub open spec fn shape_ok(&self) -> bool {
        self.fse.max_symbols_ok() && self.huf.table.fse_table.max_symbol == 255
    }

    pub fn new(window_size: usize) -> (r: DecoderScratch)
        ensures r.is_fresh(window_size), r.shape_ok(),
{
        DecoderScratch {
            huf: HuffmanScratch {
                table: HuffmanTable::new(),
            },
            fse: FSEScratch {
                offsets: FSETable::new(MAX_OFFSET_CODE),
                of_rle: None,
                literal_lengths: FSETable::new(MAX_LITERAL_LENGTH_CODE),
                ll_rle: None,
                match_lengths: FSETable::new(MAX_MATCH_LENGTH_CODE),
                ml_rle: None,
            },
            buffer: DecodeBuffer::new(window_size),
            offset_hist: [1, 4, 8],

            block_content_buffer: Vec::new(),
            literals_buffer: Vec::new(),
            sequences: Vec::new(),
        }
    }

    pub fn reset(&mut self, window_size: usize)
        requires old(self).shape_ok(),
        ensures final(self).is_fresh(window_size), final(self).shape_ok(), final(self).buffer.buffer.freecap() >= window_size,
{
        self.offset_hist = [1, 4, 8];
        self.literals_buffer.clear();
        self.sequences.clear();
        self.block_content_buffer.clear();

        self.buffer.reset(window_size);

        self.fse.literal_lengths.reset();
        self.fse.match_lengths.reset();
        self.fse.offsets.reset();
        self.fse.ll_rle = None;
        self.fse.ml_rle = None;
        self.fse.of_rle = None;

        self.huf.table.reset();
    }

    pub fn init_from_dict(&mut self, dict: &Dictionary)
        requires old(self).shape_ok(),
        ensures
            final(self).shape_ok(),
            final(self).fse.same_as(&dict.fse),
            final(self).huf.table.same_as(&dict.huf.table),
            final(self).offset_hist@ =~= dict.offset_hist@,
            final(self).buffer.dict_content@ =~= dict.dict_content@,
            // nothing else moves
            final(self).buffer.buffer.view() == old(self).buffer.buffer.view(),
            final(self).buffer.window_size == old(self).buffer.window_size,
            final(self).buffer.total_output_counter == old(self).buffer.total_output_counter,
            final(self).literals_buffer@ == old(self).literals_buffer@, final(self).sequences@ == old(self).sequences@,
{
        self.fse.reinit_from(&dict.fse);
        self.huf.table.reinit_from(&dict.huf.table);
        self.offset_hist = dict.offset_hist;
        self.buffer.dict_content.clear();
        self.buffer
            .dict_content
            .extend_from_slice(&dict.dict_content);
    }
}

pub proof fn verif_canary_must_fail(x: int)
    requires x > 0,
    ensures x > 1,
{
}
} // verus!
fn main() {}
