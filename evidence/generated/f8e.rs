use vstd::prelude::*;
use vstd::arithmetic::power2::*;
verus! {

global size_of usize == 8;

pub open spec fn fits(v: u64, n: usize) -> bool { n >= 64 || v < (1u64 << (n as u64)) }
pub uninterp spec fn into_u64<T>(v: T) -> u64;
pub broadcast axiom fn into_u64_u32(v: u32) ensures #[trigger] into_u64::<u32>(v) == v as u64;
pub broadcast axiom fn into_u64_u64(v: u64) ensures #[trigger] into_u64::<u64>(v) == v;

#[verifier::external_body]
pub struct BitWriter { _o: u8 }
impl BitWriter {
    pub uninterp spec fn idx(&self) -> int;
    #[verifier::external_body]
    pub fn write_bits<T: Into<u64> + Copy>(&mut self, bits: T, num_bits: usize)
        requires num_bits <= 63, fits(into_u64(bits), num_bits),
        ensures final(self).idx() == old(self).idx() + num_bits,
    { unimplemented!() }
    #[verifier::external_body]
    pub fn misaligned(&self) -> (r: usize)
        ensures r < 8, (self.idx() + r) % 8 == 0,
    { unimplemented!() }
}

pub struct State { pub num_bits: u8, pub baseline: usize, pub last_index: usize, pub index: usize }

#[verifier::external_body]
pub struct FSETable { _o: u8 }
impl FSETable {
    /// ghost: accuracy log of the table, and the symbols it was built for (probability != 0)
    pub uninterp spec fn al(&self) -> int;
    pub uninterp spec fn has(&self, symbol: u8) -> bool;
    pub open spec fn wf(&self) -> bool { 5 <= self.al() <= 9 }
    #[verifier::external_body]
    pub fn next_state(&self, symbol: u8, idx: usize) -> (r: &State)
        requires self.wf(), self.has(symbol), idx < pow2(self.al() as nat),
        ensures r.baseline <= idx <= r.last_index, r.num_bits <= self.al(), idx - r.baseline < pow2(r.num_bits as nat), r.index < pow2(self.al() as nat),
    { unimplemented!() }
    #[verifier::external_body]
    pub fn start_state(&self, symbol: u8) -> (r: &State)
        requires self.wf(), self.has(symbol),
        ensures r.index < pow2(self.al() as nat),
    { unimplemented!() }
    #[verifier::external_body]
    pub fn acc_log(&self) -> (r: u8)
        requires self.wf(),
        ensures r == self.al(),
    { unimplemented!() }
}

pub struct FSEEncoder<'output> {
    pub table: FSETable,
    pub writer: &'output mut BitWriter,
}

pub proof fn lemma_fits_all()
    ensures forall|v: usize, n: u8| n <= 9 && v < pow2(n as nat) ==> #[trigger] fits(v as u64, n as usize),
{
    assert forall|v: usize, n: u8| n <= 9 && v < pow2(n as nat) implies #[trigger] fits(v as u64, n as usize) by { lemma_fits(v, n); }
}
pub proof fn lemma_fits(v: usize, n: u8)
    requires n <= 9, v < pow2(n as nat),
    ensures fits(v as u64, n as usize),
{
    lemma2_to64();
    assert((1u64 << 0u64) == 1 && (1u64 << 1u64) == 2 && (1u64 << 2u64) == 4 && (1u64 << 3u64) == 8 && (1u64 << 4u64) == 16 && (1u64 << 5u64) == 32
        && (1u64 << 6u64) == 64 && (1u64 << 7u64) == 128 && (1u64 << 8u64) == 256 && (1u64 << 9u64) == 512) by (bit_vector);
}

impl<'output> FSEEncoder<'output> {
    #[verifier::external_body]
    pub fn write_table(&mut self)
        ensures final(self).table == old(self).table,
    { unimplemented!() }
    #[verifier::external_body]
    pub fn acc_log(&self) -> (r: u8)
        requires self.table.wf(),
        ensures r == self.table.al(),
    { unimplemented!() }

#[verifier::loop_isolation(false)]
    pub fn encode_interleaved(&mut self, data: &[u8])
        requires
            old(self).table.wf(),
            data@.len() >= 4,        // call site: more than 16 Huffman weights
            forall|i: int| 0 <= i < data@.len() ==> old(self).table.has(#[trigger] data@[i]),
        ensures
            final(self).writer.idx() % 8 == 0,
{
        proof { broadcast use into_u64_u32, into_u64_u64; lemma2_to64(); lemma_fits_all(); assert((1u64 << 8u64) == 256 && (1u64 << 1u64) == 2) by (bit_vector); }
        self.write_table();

        let mut state_1 = self.table.start_state(data[data.len() - 1]);
        let mut state_2 = self.table.start_state(data[data.len() - 2]);

        // The first two symbols are represented by the start states
        // Then encode the state transitions for two symbols at a time
        let mut idx = data.len() - 4;
        loop 
            invariant
                idx + 3 < data@.len(),
                self.table == old(self).table,
                state_1.index < pow2(self.table.al() as nat), state_2.index < pow2(self.table.al() as nat),
            decreases idx,
{
            {
                let state = state_1;
                let x = data[idx + 1];
                let next = self.table.next_state(x, state.index);
                let diff = state.index - next.baseline;
                self.writer.write_bits(diff as u64, next.num_bits as usize);
                state_1 = next;
            }
            {
                let state = state_2;
                let x = data[idx];
                let next = self.table.next_state(x, state.index);
                let diff = state.index - next.baseline;
                self.writer.write_bits(diff as u64, next.num_bits as usize);
                state_2 = next;
            }

            if idx < 2 {
                break;
            }
            idx -= 2;
        }

        // Determine if we have an even or odd number of symbols to encode
        // If odd we need to encode the last states transition and encode the final states in the flipped order
        if idx == 1 {
            let state = state_1;
            let x = data[0];
            let next = self.table.next_state(x, state.index);
            let diff = state.index - next.baseline;
            self.writer.write_bits(diff as u64, next.num_bits as usize);
            state_1 = next;

            self.writer
                .write_bits(state_2.index as u64, self.acc_log() as usize);
            self.writer
                .write_bits(state_1.index as u64, self.acc_log() as usize);
        } else {
            self.writer
                .write_bits(state_1.index as u64, self.acc_log() as usize);
            self.writer
                .write_bits(state_2.index as u64, self.acc_log() as usize);
        }

        let bits_to_fill = self.writer.misaligned();
        if bits_to_fill == 0 {
            self.writer.write_bits(1u32, 8);
        } else {
            self.writer.write_bits(1u32, bits_to_fill);
        }
    }
}

pub proof fn verif_canary_must_fail(x: int)
    requires x > 0,
    ensures x > 1,
{
}
} // verus!
fn main() {}
