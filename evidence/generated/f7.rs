use vstd::prelude::*;
use vstd::arithmetic::power2::*;
verus! {

global size_of usize == 8;

pub open spec fn fits(v: u64, n: usize) -> bool { n >= 64 || v < (1u64 << (n as u64)) }

#[verifier::external_body]
pub struct BitWriter { _o: u8 }
impl BitWriter {
    pub uninterp spec fn idx(&self) -> int;
    /// BW1.bw1_write_bits
    #[verifier::external_body]
    pub fn write_bits<T: Into<u64> + Copy>(&mut self, bits: T, num_bits: usize)
        requires num_bits <= 63, fits(into_u64(bits), num_bits),
        ensures final(self).idx() == old(self).idx() + num_bits,
    { unimplemented!() }
    /// BW1.bw1_misaligned
    #[verifier::external_body]
    pub fn misaligned(&self) -> (r: usize)
        ensures r < 8, (self.idx() + r) % 8 == 0,
    { unimplemented!() }
}
pub uninterp spec fn into_u64<T>(v: T) -> u64;
pub broadcast axiom fn into_u64_u8(v: u8) ensures #[trigger] into_u64::<u8>(v) == v as u64;
pub broadcast axiom fn into_u64_u32(v: u32) ensures #[trigger] into_u64::<u32>(v) == v as u64;

pub assume_specification [usize::ilog2] (x: usize) -> (r: u32)
    requires x > 0,
    ensures r < 64, pow2(r as nat) <= x, x < pow2((r + 1) as nat);

pub struct State { pub num_bits: u8, pub baseline: usize, pub last_index: usize, pub index: usize }
pub struct SymbolStates { pub states: Vec<State>, pub probability: i32 }
pub struct FSETable { pub states: [SymbolStates; 256], pub table_size: usize }

pub open spec fn cells(p: i32) -> int { if p == -1 { 1 } else if p > 0 { p as int } else { 0 } }
/// cells occupied by the symbols below `upto`
pub open spec fn cells_below(t: &FSETable, upto: int) -> int
    decreases upto,
{
    if upto <= 0 { 0 } else { cells_below(t, upto - 1) + cells(t.states@[upto - 1].probability) }
}
pub proof fn lemma_cells_mono(t: &FSETable, a: int, b: int)
    requires 0 <= a <= b,
    ensures cells_below(t, a) <= cells_below(t, b),
    decreases b - a,
{ if a < b { lemma_cells_mono(t, a, b - 1); } }

/// shifts by the small amounts that occur are powers of two
pub proof fn lemma_shifts()
    ensures
        forall|n: u32| n <= 10 ==> #[trigger] (1usize << n) == pow2(n as nat),
        forall|n: u32| n <= 10 ==> #[trigger] (1u32 << n) == pow2(n as nat),
        forall|n: u64| n <= 10 ==> #[trigger] (1u64 << n) == pow2(n as nat),
        forall|n: u8| 5 <= n <= 9 ==> #[trigger] (1usize << n) == pow2(n as nat),
{
    lemma2_to64();
    assert forall|n: u32| n <= 10 implies #[trigger] (1usize << n) == pow2(n as nat) by {
        assert((1usize << 0u32) == 1 && (1usize << 1u32) == 2 && (1usize << 2u32) == 4 && (1usize << 3u32) == 8 && (1usize << 4u32) == 16 && (1usize << 5u32) == 32
            && (1usize << 6u32) == 64 && (1usize << 7u32) == 128 && (1usize << 8u32) == 256 && (1usize << 9u32) == 512 && (1usize << 10u32) == 1024) by (bit_vector);
    }
    assert forall|n: u32| n <= 10 implies #[trigger] (1u32 << n) == pow2(n as nat) by {
        assert((1u32 << 0u32) == 1 && (1u32 << 1u32) == 2 && (1u32 << 2u32) == 4 && (1u32 << 3u32) == 8 && (1u32 << 4u32) == 16 && (1u32 << 5u32) == 32
            && (1u32 << 6u32) == 64 && (1u32 << 7u32) == 128 && (1u32 << 8u32) == 256 && (1u32 << 9u32) == 512 && (1u32 << 10u32) == 1024) by (bit_vector);
    }
    assert forall|n: u64| n <= 10 implies #[trigger] (1u64 << n) == pow2(n as nat) by {
        assert((1u64 << 0u64) == 1 && (1u64 << 1u64) == 2 && (1u64 << 2u64) == 4 && (1u64 << 3u64) == 8 && (1u64 << 4u64) == 16 && (1u64 << 5u64) == 32
            && (1u64 << 6u64) == 64 && (1u64 << 7u64) == 128 && (1u64 << 8u64) == 256 && (1u64 << 9u64) == 512 && (1u64 << 10u64) == 1024) by (bit_vector);
    }
    assert forall|n: u8| 5 <= n <= 9 implies #[trigger] (1usize << n) == pow2(n as nat) by {
        assert((1usize << 5u8) == 32 && (1usize << 6u8) == 64 && (1usize << 7u8) == 128 && (1usize << 8u8) == 256 && (1usize << 9u8) == 512) by (bit_vector);
    }
}

pub open spec fn valid_t(t: int) -> bool { t == 32 || t == 64 || t == 128 || t == 256 || t == 512 }

impl FSETable {
    pub open spec fn wf(&self) -> bool {
        valid_t(self.table_size as int)
        && cells_below(self, 256) == self.table_size
        && forall|i: int| 0 <= i < 256 ==> (#[trigger] self.states@[i]).probability >= -1
    }

    pub fn acc_log(&self) -> (r: u8)
        requires valid_t(self.table_size as int),
        ensures 5 <= r <= 9, pow2(r as nat) == self.table_size,
{
        proof {
            lemma2_to64();
            let x = self.table_size;
            assert forall|r: u32| r < 64 && #[trigger] pow2(r as nat) <= x && x < pow2((r + 1) as nat) implies 5 <= r <= 9 && pow2(r as nat) == x by {
                let k: nat = if x == 32 { 5 } else if x == 64 { 6 } else if x == 128 { 7 } else if x == 256 { 8 } else { 9 };
                assert(pow2(k) == x);
                if (r as nat) < k { if r + 1 < k { lemma_pow2_strictly_increases((r + 1) as nat, k); } }
                if (r as nat) > k { lemma_pow2_strictly_increases(k, r as nat); }
            }
        }
        self.table_size.ilog2() as u8
    }

    pub(crate) fn write_table(&self, writer: &mut BitWriter)
        requires self.wf(),
        ensures final(writer).idx() % 8 == 0,
{
        proof { lemma2_to64(); lemma_shifts(); broadcast use into_u64_u8, into_u64_u32; }
        writer.write_bits(self.acc_log() - 5, 4);
        let mut probability_counter = 0usize;
        let probability_sum = 1 << self.acc_log();

        let mut prob_idx: usize = 0;
        while probability_counter < probability_sum 
            invariant
                self.wf(), probability_sum == self.table_size,
                prob_idx <= 256, cells_below(self, prob_idx as int) == probability_counter, probability_counter <= probability_sum,
            decreases 256 - prob_idx,
{
            proof {
                lemma2_to64(); lemma_shifts(); broadcast use into_u64_u8, into_u64_u32;
                // cells are still missing, so not all 256 symbols have been described yet
                if prob_idx == 256 { assert(false); }
                lemma_cells_mono(self, prob_idx as int + 1, 256);
            }

            let max_remaining_value = probability_sum - probability_counter + 1;
            let bits_to_write = max_remaining_value.ilog2() + 1;
            proof {
                lemma_pow2_unfold(bits_to_write as nat);
                assert(2 <= bits_to_write <= 10) by {
                    let r = (bits_to_write - 1) as nat;
                    if r == 0 { assert(pow2(1) == 2); }
                    if r >= 10 { lemma_pow2_strictly_increases(10, (r + 1) as nat); lemma_pow2_strictly_increases(9, r); if r > 10 { lemma_pow2_strictly_increases(10, r); } }
                }
            }
            let low_threshold = ((1 << bits_to_write) - 1) - (max_remaining_value);
            let mask = (1 << (bits_to_write - 1)) - 1;

            let prob = self.states[prob_idx].probability;
            prob_idx += 1;
            let value = (prob + 1) as u32;
            if value < low_threshold as u32 {
                writer.write_bits(value, bits_to_write as usize - 1);
            } else if value > mask {
                writer.write_bits(value + low_threshold as u32, bits_to_write as usize);
            } else {
                writer.write_bits(value, bits_to_write as usize);
            }

            if prob == -1 {
                probability_counter += 1;
            } else if prob > 0 {
                probability_counter += prob as usize;
            } else {
                let ghost pi0 = prob_idx;
                let mut zeros = 0u8;
                while self.states[prob_idx].probability == 0 
                    invariant
                        self.wf(), probability_sum == self.table_size, probability_counter < probability_sum,
                        prob_idx <= 256, cells_below(self, prob_idx as int) == probability_counter, zeros < 3,
                        prob_idx >= pi0,
                    decreases 256 - prob_idx,
{
                    proof { lemma2_to64(); lemma_shifts(); broadcast use into_u64_u8, into_u64_u32; }

                    zeros += 1;
                    prob_idx += 1;
                    if zeros == 3 {
                        writer.write_bits(3u8, 2);
                        zeros = 0;
                    }
                }
                writer.write_bits(zeros, 2);
            }
        }
        writer.write_bits(0u8, writer.misaligned());
    }
}

pub proof fn verif_canary_must_fail(x: int)
    requires x > 0,
    ensures x > 1,
{
}
} // verus!
fn main() {}
