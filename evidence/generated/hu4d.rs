use vstd::prelude::*;
use vstd::arithmetic::power2::*;
verus! {

global size_of usize == 8;

#[verifier::external_body]
pub fn vpanic() -> !
    requires false,
{ panic!() }

/// sum of 2^w over the weights
pub open spec fn kraft(s: Seq<usize>) -> int
    decreases s.len(),
{
    if s.len() == 0 { 0 } else { kraft(s.drop_last()) + pow2(s.last() as nat) }
}
pub proof fn lemma_kraft_push(s: Seq<usize>, w: usize)
    ensures kraft(s.push(w)) == kraft(s) + pow2(w as nat),
{
    assert(s.push(w).drop_last() =~= s);
}

pub proof fn lemma_shl(d: usize)
    requires d <= 9,
    ensures (1usize << d) == pow2(d as nat), (1usize << d) >= 1,
{
    lemma2_to64();
    assert((1usize << 0usize) == 1 && (1usize << 1usize) == 2 && (1usize << 2usize) == 4 && (1usize << 3usize) == 8 && (1usize << 4usize) == 16
        && (1usize << 5usize) == 32 && (1usize << 6usize) == 64 && (1usize << 7usize) == 128 && (1usize << 8usize) == 256 && (1usize << 9usize) == 512) by (bit_vector);
}
pub proof fn lemma_small(d: nat)
    requires d <= 9, pow2(d) <= 254,
    ensures d <= 7,
{
    lemma2_to64();
}

pub fn distribute_weights(amount: usize) -> (r: Vec<usize>)
    requires 2 <= amount <= 256,        // the function's own asserts; the call site (build_from_counts) must guarantee them: defect F8
    ensures
        r@.len() == amount,
        forall|i: int| 0 <= i < r@.len() ==> 1 <= #[trigger] r@[i] <= 256,
        exists|k: nat| 2 <= k <= 257 && kraft(r@) == pow2(k),
{
    proof { lemma2_to64(); }
    let verif_assert_cond_1: bool = amount >= 2; assert(verif_assert_cond_1);
    let verif_assert_cond_2: bool = amount <= 256; assert(verif_assert_cond_2);
    let mut weights: Vec<usize> = Vec::new();

    // This is the trivial power of two we always need
    weights.push(1);
    weights.push(1);

    // This is the weight we are adding right now
    let mut target_weight: usize = 1;
    // Counts how many times we have added weights
    let mut weight_counter: usize = 2;

    // We always add a power of 2 new weights so that the weights that we add equal
    // the weights are already in the vec if raised to the power of two.
    // This means we double the weights in the vec -> results in a new power of two
    //
    // Example: [1, 1]      -> [1,1,2]       (2^1 + 2^1 == 2^2)
    //
    // Example: [1, 1]      -> [1,1,1,1]     (2^1 + 2^1 == 2^1 + 2^1)
    //          [1,1,1,1]   -> [1,1,1,1,3]   (2^1 + 2^1 + 2^1 + 2^1 == 2^3)
    proof {
        let e = Seq::<usize>::empty();
        lemma_kraft_push(e, 1);
        lemma_kraft_push(e.push(1), 1);
        assert(weights@ =~= e.push(1).push(1));
        assert(kraft(e) == 0);
    }
    while weights.len() < amount 
        invariant
            2 <= amount <= 256,
            2 <= weights@.len() <= amount,
            1 <= target_weight < weight_counter,
            weight_counter <= weights@.len(),
            weight_counter - target_weight <= 9,
            kraft(weights@) == pow2(weight_counter as nat),
            forall|i: int| 0 <= i < weights@.len() ==> 1 <= #[trigger] weights@[i] < weight_counter,
        decreases amount - weights@.len(),
{
        proof { lemma_shl((weight_counter - target_weight) as usize); }
        let ghost d0 = (weight_counter - target_weight) as nat;

        let mut add_new: usize = 1 << (weight_counter - target_weight);
        let available_space = amount - weights.len();

        // If the amount of new weights needed to get to the next power of two would exceed amount
        // We instead add 1 of a bigger weight and start the cycle again
        if add_new > available_space {
            // TODO we could maybe instead do this until add_new <= available_space?
            //  target_weight += 1
            //  add_new /= 2
            target_weight = weight_counter;
            add_new = 1;
        }

        let ghost len0 = weights@.len() as int;
        let ghost kraft0 = kraft(weights@);
        proof {
            // either the regular round (2^(wc - tw) weights of tw) or the restart (one weight of wc): both add 2^wc
            assert(add_new * pow2(target_weight as nat) == pow2(weight_counter as nat)) by {
                if target_weight == weight_counter {
                    assert(add_new == 1);
                } else {
                    assert(add_new == pow2(d0));
                    lemma_pow2_adds(d0, target_weight as nat);
                }
            }
            // a regular round fitted into at most 254 free places: its exponent is at most 7
            if target_weight != weight_counter {
                assert(add_new <= 254);
                lemma_small(d0);
            }
        }
        for _ in it: 0..add_new 
            invariant
                2 <= amount <= 256,
                1 <= target_weight <= weight_counter, weight_counter <= len0,
                it.index() <= add_new,
                weights@.len() == len0 + it.index(),
                len0 + add_new <= amount,
                kraft(weights@) == kraft0 + it.index() * pow2(target_weight as nat),
                forall|i: int| 0 <= i < weights@.len() ==> 1 <= #[trigger] weights@[i] <= weight_counter,
{
            proof {
                lemma_kraft_push(weights@, target_weight);
                vstd::arithmetic::mul::lemma_mul_is_distributive_add_other_way(pow2(target_weight as nat) as int, it.index() as int, 1);
            }

            weights.push(target_weight);
        }
        proof {
            lemma_pow2_unfold((weight_counter + 1) as nat);
            assert(kraft(weights@) == pow2((weight_counter + 1) as nat));
        }
        weight_counter += 1;
    }

    let verif_assert_cond_3: bool = (amount) == (weights.len()); assert(verif_assert_cond_3);

    weights
}

pub proof fn verif_canary_must_fail(x: int)
    requires x > 0,
    ensures x > 1,
{
}
} // verus!
fn main() {}
