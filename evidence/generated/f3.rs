use vstd::prelude::*;
verus! {

global size_of usize == 8;

#[verifier::external_body]
pub fn vpanic() -> !
    requires false,
{ panic!() }

pub enum GetBitsError {
    TooManyBits { num_requested_bits: usize, limit: u8 },
    NotEnoughRemainingBits { requested: usize, remaining: usize },
}

pub struct BitReader<'s> {
    pub idx: usize,
    pub source: &'s [u8],
}

pub open spec fn low_mask(n: int) -> int { vstd::arithmetic::power2::pow2(n as nat) - 1 }

impl<'s> BitReader<'s> {
    pub open spec fn wf(&self) -> bool {
        self.idx <= 8 * self.source@.len() && self.source@.len() <= 0x1_0000_0000
    }

    pub fn new(source: &'s [u8]) -> (r: BitReader<'s>)
        requires source@.len() <= 0x1_0000_0000,
        ensures r.wf(), r.idx == 0, r.source@ == source@,
{
        BitReader { idx: 0, source }
    }
    pub fn bits_left(&self) -> (r: usize)
        requires self.wf(),
        ensures r == 8 * self.source@.len() - self.idx,
{
        self.source.len() * 8 - self.idx
    }
    pub fn get_bits(&mut self, n: usize) -> (r: Result<u64, GetBitsError>)
        requires old(self).wf(), n >= 1,      // get_bits(0) at the very end of the source would index out of bounds; no caller passes 0
        ensures
            final(self).wf(), final(self).source@ == old(self).source@,
            (r is Err) <==> (n > 64 || 8 * old(self).source@.len() - old(self).idx < n),
            r is Err ==> final(self).idx == old(self).idx,
            r matches Ok(v) ==> final(self).idx == old(self).idx + n && (n < 64 ==> v < (1u64 << (n as u64))),
{
        proof { lemma_bits(); }
        if n > 64 {
            return Err(GetBitsError::TooManyBits {
                num_requested_bits: n,
                limit: 64,
            });
        }
        if self.bits_left() < n {
            return Err(GetBitsError::NotEnoughRemainingBits {
                requested: n,
                remaining: self.bits_left(),
            });
        }

        let old_idx = self.idx;

        let bits_left_in_current_byte = 8 - (self.idx % 8);
        let bits_not_needed_in_current_byte = 8 - bits_left_in_current_byte;

        //collect bits from the currently pointed to byte
        let mut value = u64::from(self.source[self.idx / 8] >> bits_not_needed_in_current_byte);

        if bits_left_in_current_byte >= n {
            //no need for fancy stuff

            //just mask all but the needed n bit
            value &= (1 << n) - 1;
            self.idx += n;
        } else {
            self.idx += bits_left_in_current_byte;

            //n spans over multiple bytes
            let full_bytes_needed = (n - bits_left_in_current_byte) / 8;
            let bits_in_last_byte_needed = n - bits_left_in_current_byte - full_bytes_needed * 8;

            let verif_assert_cond_1: bool = bits_left_in_current_byte + full_bytes_needed * 8 + bits_in_last_byte_needed == n; assert(verif_assert_cond_1);

            let mut bit_shift = bits_left_in_current_byte; //this many bits are already set in value

            let verif_assert_cond_2: bool = self.idx.is_multiple_of(8); assert(verif_assert_cond_2);

            //collect full bytes
            for _k in 0..full_bytes_needed 
            invariant
                self.wf(), self.source@ == old(self).source@,
                n <= 64, 8 * old(self).source@.len() - old(self).idx >= n,
                bits_left_in_current_byte < n, 1 <= bits_left_in_current_byte <= 8,
                full_bytes_needed == (n - bits_left_in_current_byte) / 8,
                bit_shift == bits_left_in_current_byte + 8 * _k,
                self.idx % 8 == 0,
                self.idx == old(self).idx + bit_shift,
                bit_shift < 64 ==> value < (1u64 << (bit_shift as u64)),
{
                let ghost old_value = value;
                value |= u64::from(self.source[self.idx / 8]) << bit_shift;
                proof {
                    if bit_shift + 8 < 64 {
                        lemma_or_byte(old_value, self.source@[(self.idx / 8) as int], bit_shift);
                    }
                }
                self.idx += 8;
                bit_shift += 8;
            }

            let verif_assert_cond_3: bool = n - bit_shift == bits_in_last_byte_needed; assert(verif_assert_cond_3);

            if bits_in_last_byte_needed > 0 {
                let val_las_byte =
                    u64::from(self.source[self.idx / 8]) & ((1 << bits_in_last_byte_needed) - 1);
                proof {
                    lemma_mask_lt(self.source@[(self.idx / 8) as int] as u64, bits_in_last_byte_needed);
                    if n < 64 { lemma_or_shift(value, val_las_byte, bit_shift, bits_in_last_byte_needed); }
                }
                value |= val_las_byte << bit_shift;
                self.idx += bits_in_last_byte_needed;
            }
        }

        let verif_assert_cond_4: bool = self.idx == old_idx + n; assert(verif_assert_cond_4);

        Ok(value)
    }
    pub fn bits_read(&self) -> (r: usize)
        ensures r == self.idx,
{
        self.idx
    }
    pub fn return_bits(&mut self, n: usize)
        requires old(self).wf(), n <= old(self).idx,      // callers must not return more than was read (else the panic! arm)
        ensures final(self).wf(), final(self).idx == old(self).idx - n, final(self).source@ == old(self).source@,
{
        if n > self.idx {
            vpanic();
        }
        self.idx -= n;
    }
}


pub enum FSETableError {
    AccLogIsZero,
    AccLogTooBig { got: u8, max: u8 },
    GetBitsError(GetBitsError),
    ProbabilityCounterMismatch { got: u32, expected_sum: u32, symbol_probabilities: Vec<i32> },
    TooManySymbols { got: usize },
}
impl vstd::std_specs::convert::FromSpecImpl<GetBitsError> for FSETableError {
    open spec fn obeys_from_spec() -> bool { true }
    open spec fn from_spec(v: GetBitsError) -> Self { FSETableError::GetBitsError(v) }
}
impl From<GetBitsError> for FSETableError {
    fn from(val: GetBitsError) -> Self {
        Self::GetBitsError(val)
    }
}

#[derive(Copy, Clone)]
pub struct Entry { pub base_line: u32, pub num_bits: u8, pub symbol: u8 }

pub struct FSETable {
    pub max_symbol: u8,
    pub decode: Vec<Entry>,
    pub accuracy_log: u8,
    pub symbol_probabilities: Vec<i32>,
    pub symbol_counter: Vec<u32>,
}

pub const ACC_LOG_OFFSET: u8 = 5;

/// number of table cells a probability occupies: -1 ("less than one") counts as one cell
pub open spec fn cells(p: i32) -> int { if p == -1 { 1 } else if p > 0 { p as int } else { 0 } }
pub open spec fn sum_cells(s: Seq<i32>) -> int
    decreases s.len(),
{
    if s.len() == 0 { 0 } else { sum_cells(s.drop_last()) + cells(s.last()) }
}
pub proof fn lemma_sum_push(s: Seq<i32>, p: i32)
    ensures sum_cells(s.push(p)) == sum_cells(s) + cells(p),
{
    assert(s.push(p).drop_last() =~= s);
}
pub proof fn lemma_sum_zeros(s: Seq<i32>, t: Seq<i32>)
    requires t.len() >= s.len(), t.subrange(0, s.len() as int) =~= s, forall|i: int| s.len() <= i < t.len() ==> t[i] == 0,
    ensures sum_cells(t) == sum_cells(s),
    decreases t.len() - s.len(),
{
    if t.len() == s.len() {
        assert(t =~= s);
    } else {
        assert(t.drop_last().subrange(0, s.len() as int) =~= s);
        lemma_sum_zeros(s, t.drop_last());
    }
}

/// F1 (Kani, complete): position of the highest set bit, 1-based
#[verifier::external_body]
pub fn highest_bit_set(x: u32) -> (r: u32)
    requires x > 0,
    ensures 1 <= r <= 32, (1u64 << ((r - 1) as u64)) <= x, (x as u64) < (1u64 << (r as u64)),
{ unimplemented!() }

pub open spec fn m32(n: u32) -> u32 { ((1u32 << n) - 1) as u32 }

pub proof fn lemma_threshold(b: u32, mr: u32)
    requires 2 <= b <= 31, (1u64 << ((b - 1) as u64)) <= mr, (mr as u64) < (1u64 << (b as u64)),
    ensures
        (1u32 << b) >= 1, (1u32 << ((b - 1) as u32)) >= 1,
        m32(b) >= mr,
        (m32(b) - mr) <= m32((b - 1) as u32),
        m32((b - 1) as u32) < mr,
        forall|v: u32| #[trigger] (v & m32((b - 1) as u32)) <= m32((b - 1) as u32),
        (1u64 << (b as u64)) == (1u32 << b) as u64,
{
    assert(2 <= b <= 31 && (1u64 << ((b - 1) as u64)) <= mr as u64 && (mr as u64) < (1u64 << (b as u64)) ==>
        (1u32 << b) >= 1 && (1u32 << ((b - 1) as u32)) >= 1
        && (((1u32 << b) - 1) as u32) >= mr
        && (((((1u32 << b) - 1) as u32) - mr) as u32) <= (((1u32 << ((b - 1) as u32)) - 1) as u32)
        && (((1u32 << ((b - 1) as u32)) - 1) as u32) < mr
        && (1u64 << (b as u64)) == (1u32 << b) as u64) by (bit_vector);
    assert(forall|v: u32, m: u32| #[trigger] (v & m) <= m) by (bit_vector);
}

pub proof fn lemma_bits_range(b: u32, mr: u32)
    requires 1 <= b <= 32, 2 <= mr <= 0x4000_0001, (1u64 << ((b - 1) as u64)) <= mr, (mr as u64) < (1u64 << (b as u64)),
    ensures 2 <= b <= 31,
{
    assert(1 <= b <= 32 && 2 <= mr <= 0x4000_0001 && (1u64 << ((b - 1) as u64)) <= mr as u64 && (mr as u64) < (1u64 << (b as u64)) ==> 2 <= b <= 31) by (bit_vector);
}

pub proof fn lemma_acc_log(al: u8)
    requires 1 <= al <= 30,
    ensures (1u32 << al) >= 2, (1u32 << al) <= 0x4000_0000,
{
    assert(1 <= al <= 30 ==> (1u32 << al) >= 2 && (1u32 << al) <= 0x4000_0000) by (bit_vector);
}

impl FSETable {
    pub fn read_probabilities(&mut self, source: &[u8], max_log: u8) -> (r: Result<usize, FSETableError>)
        // contract of FSETable::read_probabilities: PROVED in unit F3 (on the verbatim body), ASSUMED in unit F2
        requires source@.len() <= 0x1_0000_0000, max_log <= 30,
        ensures
            final(self).max_symbol == old(self).max_symbol, final(self).decode == old(self).decode,
            r matches Ok(n) ==> n <= source@.len()
                && ACC_LOG_OFFSET <= final(self).accuracy_log <= max_log
                && sum_cells(final(self).symbol_probabilities@) == (1u32 << final(self).accuracy_log)
                && final(self).symbol_probabilities@.len() <= final(self).max_symbol + 1
                && forall|i: int| 0 <= i < final(self).symbol_probabilities@.len() ==> #[trigger] final(self).symbol_probabilities@[i] >= -1,
{
        proof { assert((1u64 << 4u64) == 16 && (1u64 << 2u64) == 4) by (bit_vector); }
        self.symbol_probabilities.clear(); //just clear, we will fill a probability for each entry anyways. No need to force new allocs here

        let mut br = BitReader::new(source);
        self.accuracy_log = ACC_LOG_OFFSET + (br.get_bits(4)? as u8);
        if self.accuracy_log > max_log {
            return Err(FSETableError::AccLogTooBig {
                got: self.accuracy_log,
                max: max_log,
            });
        }
        if self.accuracy_log == 0 {
            return Err(FSETableError::AccLogIsZero);
        }

        proof { lemma_acc_log(self.accuracy_log); assert(sum_cells(self.symbol_probabilities@) == 0); }
        let probability_sum = 1 << self.accuracy_log;
        let mut probability_counter = 0;

        while probability_counter < probability_sum 
            invariant
                br.wf(), br.source@ == source@, br.idx >= 4,
                1 <= self.accuracy_log <= 30, probability_sum == (1u32 << self.accuracy_log), 2 <= probability_sum <= 0x4000_0000,
                self.accuracy_log <= max_log, self.accuracy_log >= ACC_LOG_OFFSET,
                probability_counter <= probability_sum,
                sum_cells(self.symbol_probabilities@) == probability_counter,
                self.symbol_probabilities@.len() <= 2 * br.idx,
                forall|i: int| 0 <= i < self.symbol_probabilities@.len() ==> #[trigger] self.symbol_probabilities@[i] >= -1,
                self.max_symbol == old(self).max_symbol, self.decode == old(self).decode,
            decreases probability_sum - probability_counter, 8 * source@.len() - br.idx,
{
            let max_remaining_value = probability_sum - probability_counter + 1;
            let bits_to_read = highest_bit_set(max_remaining_value);

            let unchecked_value = br.get_bits(bits_to_read as usize)? as u32;

            proof { lemma_bits_range(bits_to_read, max_remaining_value); lemma_threshold(bits_to_read, max_remaining_value); }
            let ghost idx_at_iter = (br.idx - bits_to_read) as int;
            let ghost acc_at_loop = self.accuracy_log;
            let low_threshold = ((1 << bits_to_read) - 1) - (max_remaining_value);
            let mask = (1 << (bits_to_read - 1)) - 1;
            let small_value = unchecked_value & mask;

            let value = if small_value < low_threshold {
                br.return_bits(1);
                small_value
            } else if unchecked_value > mask {
                unchecked_value - low_threshold
            } else {
                unchecked_value
            };
            //println!("{}, {}, {}", self.symbol_probablilities.len(), unchecked_value, value);

            let prob = (value as i32) - 1;

            proof { lemma_sum_push(self.symbol_probabilities@, prob); }
            self.symbol_probabilities.push(prob);
            if prob != 0 {
                if prob > 0 {
                    probability_counter += prob as u32;
                } else {
                    // probability -1 counts as 1
                    let verif_assert_cond_1: bool = prob == -1; assert(verif_assert_cond_1);
                    probability_counter += 1;
                }
            } else {
                //fast skip further zero probabilities
                loop 
                    invariant
                        br.wf(), br.source@ == source@, br.idx >= 4,
                        sum_cells(self.symbol_probabilities@) == probability_counter,
                        forall|i: int| 0 <= i < self.symbol_probabilities@.len() ==> #[trigger] self.symbol_probabilities@[i] >= -1,
                        self.max_symbol == old(self).max_symbol, self.decode == old(self).decode,
                        self.accuracy_log == acc_at_loop,
                        self.symbol_probabilities@.len() <= 2 * br.idx,
                        br.idx > idx_at_iter,
                    decreases 8 * source@.len() - br.idx,
{
                    let skip_amount = br.get_bits(2)? as usize;
                    let ghost probs_before = self.symbol_probabilities@;
                    proof {
                        let two: usize = 2;
                        assert((1u64 << (two as u64)) == 4) by (bit_vector) requires two == 2;
                        assert(skip_amount < 4);
                    }

                    self.symbol_probabilities
                        .resize(self.symbol_probabilities.len() + skip_amount, 0);
                    proof { lemma_sum_zeros(probs_before, self.symbol_probabilities@); }
                    if skip_amount != 3 {
                        break;
                    }
                }
            }
        }

        if probability_counter != probability_sum {
            return Err(FSETableError::ProbabilityCounterMismatch {
                got: probability_counter,
                expected_sum: probability_sum,
                symbol_probabilities: self.symbol_probabilities.clone(),
            });
        }
        if self.symbol_probabilities.len() > self.max_symbol as usize + 1 {
            return Err(FSETableError::TooManySymbols {
                got: self.symbol_probabilities.len(),
            });
        }

        let bytes_read = if br.bits_read().is_multiple_of(8) {
            br.bits_read() / 8
        } else {
            (br.bits_read() / 8) + 1
        };

        Ok(bytes_read)
    }
}

pub proof fn lemma_bits()
    ensures
        forall|b: u8, k: usize| k < 8 ==> #[trigger] ((b >> k) as u64) < (1u64 << ((8 - k) as u64)),
        forall|a: u64, n: usize| n <= 8 ==> #[trigger] (a & (((1u64 << n) - 1) as u64)) < (1u64 << (n as u64)) && (1u64 << n) >= 1,
        forall|n: usize| n <= 8 ==> #[trigger] (1u64 << n) >= 1,
{
    assert(forall|b: u8, k: usize| k < 8 ==> #[trigger] ((b >> k) as u64) < (1u64 << ((8 - k) as u64))) by (bit_vector);
    assert(forall|a: u64, n: usize| n <= 8 ==> #[trigger] (a & (((1u64 << n) - 1) as u64)) < (1u64 << (n as u64)) && (1u64 << n) >= 1) by (bit_vector);
    assert(forall|n: usize| n <= 8 ==> #[trigger] (1u64 << n) >= 1) by (bit_vector);
}

pub proof fn lemma_or_shift(a: u64, b: u64, s: usize, m: usize)
    requires s + m <= 63, a < (1u64 << (s as u64)), b < (1u64 << (m as u64)),
    ensures (a | (b << s)) < (1u64 << ((s + m) as u64)),
{
    assert(s + m <= 63 && a < (1u64 << (s as u64)) && b < (1u64 << (m as u64)) ==> (a | (b << s)) < (1u64 << ((s + m) as u64))) by (bit_vector);
}

pub proof fn lemma_or_byte(a: u64, b: u8, s: usize)
    requires s <= 55, a < (1u64 << (s as u64)),
    ensures (a | ((b as u64) << s)) < (1u64 << ((s + 8) as u64)),
{
    assert(s <= 55 && a < (1u64 << (s as u64)) ==> (a | ((b as u64) << s)) < (1u64 << ((s + 8) as u64))) by (bit_vector);
}

pub proof fn lemma_mask_lt(a: u64, m: usize)
    requires m <= 7,
    ensures (a & (((1u64 << m) - 1) as u64)) < (1u64 << (m as u64)), (1u64 << m) >= 1,
{
    assert(m <= 7 ==> (a & (((1u64 << m) - 1) as u64)) < (1u64 << (m as u64)) && (1u64 << m) >= 1) by (bit_vector);
}

pub proof fn verif_canary_must_fail(x: int)
    requires x > 0,
    ensures x > 1,
{
}
} // verus!
fn main() {}
