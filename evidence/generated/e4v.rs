use vstd::prelude::*;
verus! {

global size_of usize == 8;

pub const MAX_BLOCK_SIZE: u32 = 128 * 1024;

pub trait Matcher {
    spec fn last_space(&self) -> Seq<u8>;
    spec fn commits(&self) -> int;
    fn commit_space(&mut self, space: Vec<u8>)
        ensures final(self).last_space() =~= space@, final(self).commits() == old(self).commits() + 1;
    fn skip_matching(&mut self)
        ensures final(self).last_space() == old(self).last_space(), final(self).commits() == old(self).commits();
    fn get_last_space(&mut self) -> (r: &[u8])
        ensures r@ =~= old(self).last_space(), final(self).last_space() == old(self).last_space(), final(self).commits() == old(self).commits();
}

#[verifier::external_body]
pub struct HuffmanTable { _o: u8 }
#[verifier::external_body]
pub struct FseTables { _o: u8 }
pub struct CompressState<M: Matcher> {
    pub matcher: M,
    pub last_huff_table: Option<HuffmanTable>,
    pub fse_tables: FseTables,
}

#[derive(Clone, Copy, PartialEq, Eq)]
pub enum BlockType { Raw, RLE, Compressed, Reserved }
pub struct BlockHeader { pub last_block: bool, pub block_type: BlockType, pub block_size: u32 }
/// the 3 bytes of a block header (RFC 8878 3.1.1.2); Kani H1' proves serialize against the decoder's parser
pub uninterp spec fn header_bytes(h: BlockHeader) -> Seq<u8>;
impl BlockHeader {
    #[verifier::external_body]
    pub fn serialize(self, output: &mut Vec<u8>)
        requires !(self.block_type is Reserved),
        ensures final(output)@ =~= old(output)@ + header_bytes(self), header_bytes(self).len() == 3,
    { unimplemented!() }
}

/// `c` is the payload of a compressed block that regenerates `data` for a decoder holding Huffman table `before`, and leaves it holding `after`
pub uninterp spec fn is_payload(c: Seq<u8>, data: Seq<u8>, before: Option<HuffmanTable>, after: Option<HuffmanTable>) -> bool;
#[verifier::external_body]
pub fn compress_block<M: Matcher>(state: &mut CompressState<M>, output: &mut Vec<u8>)
    ensures
        final(state).matcher.last_space() == old(state).matcher.last_space(), final(state).matcher.commits() == old(state).matcher.commits(),
        exists|c: Seq<u8>| #[trigger] is_payload(c, old(state).matcher.last_space(), old(state).last_huff_table, final(state).last_huff_table)
            && final(output)@ =~= old(output)@ + c,
{ unimplemented!() }

/// `v.iter().all(|x| v[0].eq(x))`
#[verifier::external_body]
pub fn all_equal_to_first(v: &Vec<u8>) -> (r: bool)
    ensures r <==> forall|i: int| 0 <= i < v@.len() ==> #[trigger] v@[i] == v@[0],
{ unimplemented!() }

/// `output.extend(compressed)`: std Vec::extend with a Vec appends its elements in order (generic IntoIterator: outside Verus' std specs)
#[verifier::external_body]
pub fn vec_extend(output: &mut Vec<u8>, more: Vec<u8>)
    ensures final(output)@ =~= old(output)@ + more@,
{ unimplemented!() }

/// the three shapes of a block, and what each says about the Huffman table the decoder holds afterwards
pub open spec fn is_rle_block(b: Seq<u8>, last: bool, data: Seq<u8>) -> bool {
    data.len() >= 1 && (forall|i: int| 0 <= i < data.len() ==> #[trigger] data[i] == data[0])
    && b =~= header_bytes(BlockHeader { last_block: last, block_type: BlockType::RLE, block_size: data.len() as u32 }) + seq![data[0]]
}
pub open spec fn is_raw_block(b: Seq<u8>, last: bool, data: Seq<u8>) -> bool {
    b =~= header_bytes(BlockHeader { last_block: last, block_type: BlockType::Raw, block_size: data.len() as u32 }) + data
}
pub open spec fn is_compressed_block(b: Seq<u8>, last: bool, data: Seq<u8>, before: Option<HuffmanTable>, after: Option<HuffmanTable>) -> bool {
    exists|c: Seq<u8>| #[trigger] is_payload(c, data, before, after) && c.len() < data.len() && c.len() <= MAX_BLOCK_SIZE
        && b =~= header_bytes(BlockHeader { last_block: last, block_type: BlockType::Compressed, block_size: c.len() as u32 }) + c
}

#[verifier::loop_isolation(false)]
pub fn compress_fastest<M: Matcher>(
    state: &mut CompressState<M>,
    last_block: bool,
    uncompressed_data: Vec<u8>,
    output: &mut Vec<u8>,
)
    requires 1 <= uncompressed_data@.len() <= MAX_BLOCK_SIZE,
    ensures
        final(state).matcher.last_space() =~= uncompressed_data@, final(state).matcher.commits() == old(state).matcher.commits() + 1,
        ({
            let b = final(output)@.skip(old(output)@.len() as int);
            let data = uncompressed_data@;
            &&& final(output)@ =~= old(output)@ + b
            &&& b.len() <= 3 + data.len()
            // exactly one of the three shapes; the table the encoder keeps is one the decoder holds
            &&& (is_rle_block(b, last_block, data) && final(state).last_huff_table == old(state).last_huff_table)
                || (is_raw_block(b, last_block, data) && final(state).last_huff_table is None
                    && !(forall|i: int| 0 <= i < data.len() ==> #[trigger] data[i] == data[0]))
                || (is_compressed_block(b, last_block, data, old(state).last_huff_table, final(state).last_huff_table)
                    && !(forall|i: int| 0 <= i < data.len() ==> #[trigger] data[i] == data[0]))
        }),
{
    let block_size = uncompressed_data.len() as u32;
    // First check to see if run length encoding can be used for the entire block
    if all_equal_to_first(&uncompressed_data) {
        let rle_byte = uncompressed_data[0];
        state.matcher.commit_space(uncompressed_data);
        state.matcher.skip_matching();
        let header = BlockHeader {
            last_block,
            block_type: BlockType::RLE,
            block_size,
        };
        // Write the header, then the block
        header.serialize(output);
        output.push(rle_byte);
    } else {
        // Compress as a standard compressed block
        let mut compressed = Vec::new();
        state.matcher.commit_space(uncompressed_data);
        compress_block(state, &mut compressed);
        let compressed_size = compressed.len();
        // If compression does not shrink the block, store it raw instead.
        // Also preserve the format guard that compressed blocks must not
        // exceed the maximum block size.
        if compressed_size >= block_size as usize || compressed_size > MAX_BLOCK_SIZE as usize {
            let header = BlockHeader {
                last_block,
                block_type: BlockType::Raw,
                block_size,
            };
            // Write the header, then the block
            header.serialize(output);
            output.extend_from_slice(state.matcher.get_last_space());
            // The compressed block is thrown away, so the decoder never sees a huffman table it may have contained.
            // Forget our table so the next block does not refer to a table the decoder does not have.
            state.last_huff_table = None;
        } else {
            let header = BlockHeader {
                last_block,
                block_type: BlockType::Compressed,
                block_size: compressed_size as u32,
            };
            // Write the header, then the block
            header.serialize(output);
            vec_extend(output, compressed);
        }
    }
}

pub proof fn verif_canary_must_fail(x: int)
    requires x > 0,
    ensures x > 1,
{
}
} // verus!
fn main() {}
