use vstd::prelude::*;
verus! {

global size_of usize == 8;

#[verifier::external_body]
pub fn vpanic() -> !
    requires false,
{ panic!() }

#[derive(Debug)]
pub struct Error { pub k: u8 }

pub trait Read {
    /// bytes the reader will still deliver
    spec fn remaining(&self) -> Seq<u8>;
    fn read(&mut self, buf: &mut [u8]) -> (r: Result<usize, Error>)
        ensures
            r is Ok,
            final(buf)@.len() == old(buf)@.len(),
            ({
                let n = r->Ok_0 as int;
                &&& n <= old(buf)@.len() && n <= old(self).remaining().len()
                &&& (n == 0 ==> old(buf)@.len() == 0 || old(self).remaining().len() == 0)
                &&& final(self).remaining() =~= old(self).remaining().skip(n)
                &&& final(buf)@.subrange(0, n) =~= old(self).remaining().take(n)
                &&& final(buf)@.subrange(n, old(buf)@.len() as int) =~= old(buf)@.subrange(n, old(buf)@.len() as int)
            });
}
/// `source.read(&mut buf[from..]).unwrap()`: std's Read::read on the tail of the buffer, I/O errors excluded (see the unit's assumptions).
/// Stated as one abstract function because Verus has no frame specification for a mutable sub-slice of a Vec (the rest of the
/// vector would be unknown afterwards)
#[verifier::external_body]
pub fn read_tail<R: Read>(source: &mut R, buf: &mut Vec<u8>, from: usize) -> (n: usize)
    requires from <= old(buf)@.len(),
    ensures
        final(buf)@.len() == old(buf)@.len(),
        n <= old(buf)@.len() - from, n <= old(source).remaining().len(),
        n == 0 ==> old(buf)@.len() == from || old(source).remaining().len() == 0,
        final(source).remaining() =~= old(source).remaining().skip(n as int),
        final(buf)@.take(from as int) =~= old(buf)@.take(from as int),
        final(buf)@.subrange(from as int, from + n) =~= old(source).remaining().take(n as int),
{ unimplemented!() }

pub trait Write {
    spec fn written(&self) -> Seq<u8>;
    fn write_all(&mut self, buf: &[u8]) -> (r: Result<(), Error>)
        ensures r is Ok, final(self).written() =~= old(self).written() + buf@;
}

#[derive(Clone, Copy, PartialEq, Eq)]
pub enum CompressionLevel { Uncompressed, Fastest, Default, Better, Best }

pub trait Matcher {
    spec fn slice_len(&self) -> int;
    spec fn spec_window(&self) -> u64;
    fn reset(&mut self, level: CompressionLevel)
        ensures 1 <= final(self).slice_len() <= 0x20000;       // "The maximum allowed size is 128 kB" (Matcher docs)
    fn window_size(&self) -> (r: u64)
        ensures r == self.spec_window();
    fn get_next_space(&mut self) -> (r: Vec<u8>)
        requires old(self).slice_len() >= 1,
        ensures r@.len() == old(self).slice_len(), final(self).slice_len() == old(self).slice_len(), final(self).spec_window() == old(self).spec_window();
}

#[verifier::external_body]
pub struct HuffmanTable { _o: u8 }
#[verifier::external_body]
pub struct FseTables { _o: u8 }
pub struct CompressState<M: Matcher> {
    pub matcher: M,
    pub last_huff_table: Option<HuffmanTable>,
    pub fse_tables: FseTables,
}

#[verifier::external_body]
pub struct XxHash64 { _o: u8 }
pub uninterp spec fn xxh64(bytes: Seq<u8>) -> u64;
impl XxHash64 {
    pub uninterp spec fn absorbed(&self) -> Seq<u8>;
    #[verifier::external_body]
    pub fn with_seed(seed: u64) -> (r: XxHash64)
        requires seed == 0,
        ensures r.absorbed() =~= Seq::<u8>::empty(),
    { unimplemented!() }
    #[verifier::external_body]
    pub fn write(&mut self, bytes: &[u8])
        ensures final(self).absorbed() =~= old(self).absorbed() + bytes@,
    { unimplemented!() }
    #[verifier::external_body]
    pub fn finish(&self) -> (r: u64)
        ensures r == xxh64(self.absorbed()),
    { unimplemented!() }
}
pub uninterp spec fn spec_le32(v: u32) -> Seq<u8>;
#[verifier::external_body]
pub fn le_bytes32(v: u32) -> (r: [u8; 4])
    ensures r@ =~= spec_le32(v),
{ unimplemented!() }
#[verifier::external_body]
pub fn to_u32(v: usize) -> (r: u32)
    requires v <= u32::MAX,
    ensures r == v,
{ unimplemented!() }

pub struct FrameHeader {
    pub frame_content_size: Option<u64>,
    pub single_segment: bool,
    pub content_checksum: bool,
    pub dictionary_id: Option<u64>,
    pub window_size: Option<u64>,
}
pub uninterp spec fn frame_header_bytes(h: FrameHeader) -> Seq<u8>;
impl FrameHeader {
    /// E3 (Kani, complete): the bytes parse back to this header
    #[verifier::external_body]
    pub fn serialize(self, output: &mut Vec<u8>)
        ensures final(output)@ =~= old(output)@ + frame_header_bytes(self),
    { unimplemented!() }
}

#[derive(Clone, Copy, PartialEq, Eq)]
pub enum BlockType { Raw, RLE, Compressed, Reserved }
pub struct BlockHeader { pub last_block: bool, pub block_type: BlockType, pub block_size: u32 }

/// `b` is one well-formed block whose header carries `last` and which regenerates `data` (what Kani unit E4 / H1' establish for the
/// three ways a block is produced); uninterpreted here
pub uninterp spec fn is_block(b: Seq<u8>, last: bool, data: Seq<u8>) -> bool;
pub uninterp spec fn raw_header_bytes(last: bool, size: u32) -> Seq<u8>;
/// H1': a raw block is its header followed by the bytes themselves
pub broadcast axiom fn axiom_raw_block(last: bool, data: Seq<u8>)
    requires data.len() <= u32::MAX,
    ensures #[trigger] is_block(raw_header_bytes(last, data.len() as u32) + data, last, data);
impl BlockHeader {
    #[verifier::external_body]
    pub fn serialize(self, output: &mut Vec<u8>)
        requires self.block_type is Raw,
        ensures final(output)@ =~= old(output)@ + raw_header_bytes(self.last_block, self.block_size),
    { unimplemented!() }
}
/// E4 (Kani)
#[verifier::external_body]
pub fn compress_fastest<M: Matcher>(state: &mut CompressState<M>, last_block: bool, uncompressed_data: Vec<u8>, output: &mut Vec<u8>)
    requires uncompressed_data@.len() >= 1,
    ensures
        final(state).matcher.slice_len() == old(state).matcher.slice_len(), final(state).matcher.spec_window() == old(state).matcher.spec_window(),
        exists|b: Seq<u8>| #[trigger] is_block(b, last_block, uncompressed_data@) && final(output)@ =~= old(output)@ + b,
{ unimplemented!() }

/// one block of the frame: its flag, the data it stands for, its bytes
pub struct Ev { pub last: bool, pub data: Seq<u8>, pub bytes: Seq<u8> }
pub open spec fn flat_bytes(e: Seq<Ev>) -> Seq<u8> decreases e.len(), { if e.len() == 0 { Seq::empty() } else { flat_bytes(e.drop_last()) + e.last().bytes } }
pub open spec fn flat_data(e: Seq<Ev>) -> Seq<u8> decreases e.len(), { if e.len() == 0 { Seq::empty() } else { flat_data(e.drop_last()) + e.last().data } }
pub proof fn lemma_flat_push(e: Seq<Ev>, x: Ev)
    ensures flat_bytes(e.push(x)) =~= flat_bytes(e) + x.bytes, flat_data(e.push(x)) =~= flat_data(e) + x.data,
{
    assert(e.push(x).drop_last() =~= e);
}

/// the header stays in the output buffer until the first block is flushed with it
pub open spec fn flushed(evs: Seq<Ev>, hdrb: Seq<u8>) -> Seq<u8> { if evs.len() == 0 { Seq::empty() } else { hdrb + flat_bytes(evs) } }
pub open spec fn pending(evs: Seq<Ev>, hdrb: Seq<u8>) -> Seq<u8> { if evs.len() == 0 { hdrb } else { Seq::empty() } }

/// what holds when the block loop is left: everything but the trailer
pub open spec fn all_done(evs: Seq<Ev>, written: Seq<u8>, w0: Seq<u8>, hdrb: Seq<u8>, input: Seq<u8>, rem: Seq<u8>, absorbed: Seq<u8>, sl: int) -> bool {
    &&& evs.len() >= 1
    &&& written =~= w0 + hdrb + flat_bytes(evs)
    &&& flat_data(evs) =~= input && rem.len() == 0 && absorbed =~= input
    &&& forall|i: int| 0 <= i < evs.len() ==> is_block((#[trigger] evs[i]).bytes, evs[i].last, evs[i].data) && (evs[i].last <==> i == evs.len() - 1)
    &&& forall|i: int| 0 <= i < evs.len() - 1 ==> (#[trigger] evs[i]).data.len() == sl
    &&& evs[evs.len() - 1].data.len() <= sl
}

/// the frame FrameCompressor::compress must produce for `input`
pub open spec fn frame_ok(out: Seq<u8>, input: Seq<u8>, hdr: Seq<u8>, slice_len: int, evs: Seq<Ev>) -> bool {
    &&& evs.len() >= 1
    &&& out =~= hdr + flat_bytes(evs) + spec_le32(xxh64(input) as u32)
    &&& flat_data(evs) =~= input
    &&& forall|i: int| 0 <= i < evs.len() ==> is_block((#[trigger] evs[i]).bytes, evs[i].last, evs[i].data) && (evs[i].last <==> i == evs.len() - 1)
    &&& forall|i: int| 0 <= i < evs.len() - 1 ==> (#[trigger] evs[i]).data.len() == slice_len
    &&& evs[evs.len() - 1].data.len() <= slice_len
}

pub struct FrameCompressor<R: Read, W: Write, M: Matcher> {
    pub uncompressed_data: Option<R>,
    pub compressed_data: Option<W>,
    pub compression_level: CompressionLevel,
    pub state: CompressState<M>,
    pub hasher: XxHash64,
}

pub open spec fn the_header(window: u64) -> FrameHeader {
    FrameHeader { frame_content_size: None, single_segment: false, content_checksum: true, dictionary_id: None, window_size: Some(window) }
}

impl<R: Read, W: Write, M: Matcher> FrameCompressor<R, W, M> {
#[verifier::loop_isolation(false)]
    pub fn compress(&mut self)
        requires
            old(self).uncompressed_data is Some, old(self).compressed_data is Some,
            old(self).compression_level is Uncompressed || old(self).compression_level is Fastest,
        ensures
            final(self).uncompressed_data is Some && final(self).compressed_data is Some,
            final(self).uncompressed_data->0.remaining().len() == 0,
            exists|evs: Seq<Ev>| #[trigger] frame_ok(
                final(self).compressed_data->0.written().skip(old(self).compressed_data->0.written().len() as int),
                old(self).uncompressed_data->0.remaining(),
                frame_header_bytes(the_header(final(self).state.matcher.spec_window())),
                final(self).state.matcher.slice_len(), evs),
{
        let ghost input = self.uncompressed_data->0.remaining();
        let ghost w0 = self.compressed_data->0.written();
        proof { broadcast use axiom_raw_block; }
        // Clearing buffers to allow re-using of the compressor
        self.state.matcher.reset(self.compression_level);
        self.state.last_huff_table = None;
        ();
        {
            self.hasher = XxHash64::with_seed(0);
        }
        let source = self.uncompressed_data.as_mut().unwrap();
        let drain = self.compressed_data.as_mut().unwrap();
        // As the frame is compressed, it's stored here
        let output: &mut Vec<u8> = &mut Vec::with_capacity(1024 * 130);
        // First write the frame header
        let header = FrameHeader {
            frame_content_size: None,
            single_segment: false,
            content_checksum: true,
            dictionary_id: None,
            window_size: Some(self.state.matcher.window_size()),
        };
        let ghost hdrb = frame_header_bytes(header);
        let ghost sl = self.state.matcher.slice_len();
        let ghost win = self.state.matcher.spec_window();
        let ghost mut evs: Seq<Ev> = Seq::empty();
        header.serialize(output);
        // Now compress block by block
        loop 
            invariant
                sl == self.state.matcher.slice_len(), 1 <= sl <= 0x20000, win == self.state.matcher.spec_window(),
                hdrb == frame_header_bytes(the_header(win)),
                self.compression_level == old(self).compression_level,
                drain.written() =~= w0 + flushed(evs, hdrb),
                output@ =~= pending(evs, hdrb),
                flat_data(evs) + source.remaining() =~= input,
                self.hasher.absorbed() =~= flat_data(evs),
                forall|i: int| 0 <= i < evs.len() ==> is_block((#[trigger] evs[i]).bytes, false, evs[i].data) && !evs[i].last && evs[i].data.len() == sl,
            decreases source.remaining().len(),
{
            let ghost rem0 = source.remaining();

            // Read a single block's worth of uncompressed data from the input
            let mut uncompressed_data = self.state.matcher.get_next_space();
            let mut read_bytes: usize = 0;
            let last_block: bool;
            'read_loop: loop 
                invariant
                    uncompressed_data@.len() == sl, read_bytes < sl, read_bytes <= rem0.len(),
                    source.remaining() =~= rem0.skip(read_bytes as int),
                    uncompressed_data@.take(read_bytes as int) =~= rem0.take(read_bytes as int),
                decreases sl - read_bytes,
{
                let ghost buf_before = uncompressed_data@;
                let ghost rem_before = source.remaining();

                let new_bytes = read_tail(source, &mut uncompressed_data, read_bytes);
                proof {
                    assert(uncompressed_data@.take(read_bytes + new_bytes) =~= rem0.take(read_bytes + new_bytes)) by {
                        assert forall|k: int| 0 <= k < read_bytes + new_bytes implies uncompressed_data@[k] == rem0[k] by {
                            if k < read_bytes {
                                assert(uncompressed_data@.take(read_bytes as int)[k] == buf_before.take(read_bytes as int)[k]);
                                assert(rem0.take(read_bytes as int)[k] == rem0[k]);
                            } else {
                                assert(uncompressed_data@.subrange(read_bytes as int, read_bytes + new_bytes)[k - read_bytes] == rem_before.take(new_bytes as int)[k - read_bytes]);
                                assert(rem_before[k - read_bytes] == rem0[k]);
                            }
                        }
                    }
                    assert(source.remaining() =~= rem0.skip(read_bytes + new_bytes));
                }
                if new_bytes == 0 {
                    last_block = true;
                    break 'read_loop;
                }
                read_bytes += new_bytes;
                if read_bytes == uncompressed_data.len() {
                    last_block = false;
                    break 'read_loop;
                }
            }
            uncompressed_data.resize(read_bytes, 0);
            let ghost data = uncompressed_data@;
            proof {
                assert(data =~= rem0.take(read_bytes as int));
                assert(source.remaining() =~= rem0.skip(read_bytes as int));
                assert(rem0 =~= data + source.remaining());
                if last_block { assert(source.remaining().len() == 0); } else { assert(data.len() == sl); }
            }
            // As we read, hash that data too
            
            self.hasher.write(&uncompressed_data);
            // Special handling is needed for compression of a totally empty file (why you'd want to do that, I don't know)
            if uncompressed_data.is_empty() {
                let header = BlockHeader {
                    last_block: true,
                    block_type: BlockType::Raw,
                    block_size: 0,
                };
                // Write the header, then the block
                header.serialize(output);
                let ghost blk = raw_header_bytes(true, 0);
                proof {
                    assert(data =~= Seq::<u8>::empty());
                    assert(is_block(raw_header_bytes(true, 0) + data, true, data));
                    assert(blk =~= raw_header_bytes(true, 0) + data);
                    assert(output@ =~= pending(evs, hdrb) + blk);
                }
                drain.write_all(output).unwrap();
                output.clear();
                proof {
                    lemma_flat_push(evs, Ev { last: true, data: data, bytes: blk });
                    evs = evs.push(Ev { last: true, data: data, bytes: blk });
                    assert(all_done(evs, drain.written(), w0, hdrb, input, source.remaining(), self.hasher.absorbed(), sl));
                }
                break;
            }

            let ghost out_before = output@;
            match self.compression_level {
                CompressionLevel::Uncompressed => {
                    let header = BlockHeader {
                        last_block,
                        block_type: BlockType::Raw,
                        block_size: to_u32(read_bytes),
                    };
                    // Write the header, then the block
                    header.serialize(output);
                    output.extend_from_slice(&uncompressed_data);
                }
                CompressionLevel::Fastest => {
                    compress_fastest(&mut self.state, last_block, uncompressed_data, output)
                }
                _ => {
                    vpanic();
                }
            }
            let ghost blk = output@.skip(out_before.len() as int);
            proof {
                assert(output@ =~= out_before + blk);
                if self.compression_level is Uncompressed {
                    assert(blk =~= raw_header_bytes(last_block, data.len() as u32) + data);
                } else {
                    let b = choose|b: Seq<u8>| #[trigger] is_block(b, last_block, data) && output@ =~= out_before + b;
                    assert(blk =~= b);
                }
                assert(is_block(blk, last_block, data));
            }
            drain.write_all(output).unwrap();
            output.clear();
            proof {
                lemma_flat_push(evs, Ev { last: last_block, data: data, bytes: blk });
                evs = evs.push(Ev { last: last_block, data: data, bytes: blk });
                if last_block {
                    assert(all_done(evs, drain.written(), w0, hdrb, input, source.remaining(), self.hasher.absorbed(), sl));
                }
            }
            if last_block {
                break;
            }
        }
        proof { assert(all_done(evs, drain.written(), w0, hdrb, input, source.remaining(), self.hasher.absorbed(), sl)); }
        let ghost w_blocks = drain.written();

        // If the `hash` feature is enabled, then `content_checksum` is set to true in the header
        // and a 32 bit hash is written at the end of the data.
        ();
        {
            // Because we only have the data as a reader, we need to read all of it to calculate the checksum
            // Possible TODO: create a wrapper around self.uncompressed data that hashes the data as it's read?
            let content_checksum = self.hasher.finish();
            drain
                .write_all(&le_bytes32(content_checksum as u32))
                .unwrap();
        }
            proof {
            let out = drain.written().skip(w0.len() as int);
            assert(drain.written() =~= w_blocks + spec_le32(xxh64(input) as u32));
            assert(out =~= hdrb + flat_bytes(evs) + spec_le32(xxh64(input) as u32));
            assert(frame_ok(out, input, hdrb, sl, evs));
        }
}
}

pub proof fn verif_canary_must_fail(x: int)
    requires x > 0,
    ensures x > 1,
{
}
} // verus!
fn main() {}
