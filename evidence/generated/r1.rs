use vstd::prelude::*;
verus! {

pub struct RingBuffer {
    pub cap: usize,
    pub head: usize,
    pub tail: usize,
}

impl RingBuffer {
    /// documented invariants 1 (capacity bound), 3 and 4 of the struct comment
    pub open spec fn wf(&self) -> bool {
        (self.cap == 0 && self.head == 0 && self.tail == 0)
        || (self.head < self.cap && self.tail < self.cap && self.cap <= isize::MAX as usize)
    }

    /// number of bytes in the queue
    pub open spec fn vlen(&self) -> int {
        if self.tail >= self.head { self.tail - self.head } else { self.cap - self.head + self.tail }
    }

    /// the queue content, given the bytes of the allocation (mem.len() == cap): the cyclic range head .. head+vlen
    pub open spec fn view(&self, mem: Seq<u8>) -> Seq<u8> {
        Seq::new(self.vlen() as nat, |i: int| mem[(self.head + i) % (self.cap as int)])
    }

    pub fn data_slice_lengths(&self) -> (r: (usize, usize))
        requires self.wf(),
        ensures
            r.0 + r.1 == self.vlen(),
            self.tail >= self.head ==> r.0 == self.tail - self.head && r.1 == 0,
            self.tail < self.head ==> r.0 == self.cap - self.head && r.1 == self.tail,
            self.head + r.0 <= self.cap,
{
        // TODO can we do this branchless?
        let (len_after_head, len_to_tail) = if self.tail >= self.head {
            (self.tail - self.head, 0)
        } else {
            (self.cap - self.head, self.tail)
        };
        (len_after_head, len_to_tail)
    }

    pub fn free_slice_lengths(&self) -> (r: (usize, usize))
        requires self.wf(),
        ensures
            // (len_to_head, len_after_tail): the free space is tail..head cyclically (one slot of it is the sentinel)
            r.0 + r.1 == self.cap - self.vlen(),
            self.tail < self.head ==> r.0 == 0 && r.1 == self.head - self.tail,
            self.tail >= self.head ==> r.0 == self.head && r.1 == self.cap - self.tail,
            self.tail + r.1 <= self.cap,
{
        // TODO can we do this branchless?
        let (len_after_tail, len_to_head) = if self.tail < self.head {
            (self.head - self.tail, 0)
        } else {
            (self.cap - self.tail, self.head)
        };
        (len_to_head, len_after_tail)
    }

    pub fn len(&self) -> (r: usize)
        requires self.wf(),
        ensures r == self.vlen(), r <= self.cap, self.cap > 0 ==> r < self.cap,
{
        let (x, y) = self.data_slice_lengths();
        x + y
    }

    pub fn free(&self) -> (r: usize)
        requires self.wf(),
        ensures
            self.cap == 0 ==> r == 0,
            self.cap > 0 ==> r == self.cap - 1 - self.vlen(),
{
        let (x, y) = self.free_slice_lengths();
        (x + y).saturating_sub(1)
    }

    pub fn clear(&mut self)
        requires old(self).wf(),
        ensures final(self).wf(), final(self).vlen() == 0, final(self).cap == old(self).cap,
{
        // SAFETY: Upholds invariant 2, trivially
        // SAFETY: Upholds invariant 3; 0 is always valid
        self.head = 0;
        self.tail = 0;
    }

    pub fn drop_first_n(&mut self, amount: usize)
        requires old(self).wf(), old(self).cap > 0,
        ensures
            final(self).wf(),
            final(self).cap == old(self).cap,
            final(self).tail == old(self).tail,
            final(self).vlen() == old(self).vlen() - (if amount <= old(self).vlen() { amount as int } else { old(self).vlen() }),
            // queue semantics: exactly the first min(amount, len) bytes leave, the rest keeps its order
            forall|mem: Seq<u8>| mem.len() == old(self).cap ==>
                #[trigger] final(self).view(mem) == old(self).view(mem).skip(if amount <= old(self).vlen() { amount as int } else { old(self).vlen() }),
{
        
        let amount = usize::min(amount, self.len());
        // SAFETY: we maintain invariant 2 here since this will always lead to a smaller buffer
        // for amount≤len
        self.head = (self.head + amount) % self.cap;
            proof {
            let o = *old(self);
            let n = amount as int;
            lemma_mod_wrap(o.head as int + n, o.cap as int);
            assert forall|mem: Seq<u8>| mem.len() == o.cap implies #[trigger] self.view(mem) == o.view(mem).skip(n) by {
                assert(self.view(mem).len() == o.view(mem).skip(n).len());
                assert forall|i: int| 0 <= i < self.vlen() implies self.view(mem)[i] == o.view(mem).skip(n)[i] by {
                    lemma_mod_shift(o.head as int, n, i, o.cap as int);
                }
                assert(self.view(mem) =~= o.view(mem).skip(n));
            }
        }
}
}

/// 0 <= x < 2c  ==>  x % c is x or x - c
pub proof fn lemma_mod_wrap(x: int, c: int)
    requires c > 0, 0 <= x < 2 * c,
    ensures x % c == (if x < c { x } else { x - c }),
{
    if x < c {
        vstd::arithmetic::div_mod::lemma_small_mod(x as nat, c as nat);
    } else {
        vstd::arithmetic::div_mod::lemma_small_mod((x - c) as nat, c as nat);
        vstd::arithmetic::div_mod::lemma_mod_sub_multiples_vanish(x, c);
    }
}

/// ((h + n) % c + i) % c == (h + n + i) % c
pub proof fn lemma_mod_shift(h: int, n: int, i: int, c: int)
    requires c > 0, h >= 0, n >= 0, i >= 0,
    ensures ((h + n) % c + i) % c == (h + n + i) % c,
{
    vstd::arithmetic::div_mod::lemma_add_mod_noop((h + n), i, c);
    vstd::arithmetic::div_mod::lemma_mod_twice(h + n, c);
    vstd::arithmetic::div_mod::lemma_add_mod_noop((h + n) % c, i, c);
}

pub proof fn verif_canary_must_fail(x: int)
    requires x > 0,
    ensures x > 1,
{
}
} // verus!
fn main() {}
