use vstd::prelude::*;
verus! {

global size_of usize == 8;

#[verifier::external_body]
pub fn vpanic() -> !
    requires false,
{ panic!() }

// ---- abstract BitReaderReversed: exactly the contracts Verus unit BRR1 proves on the verbatim bodies ----
pub open spec fn low_mask(n: u8) -> u64 { ((1u64 << n) - 1) as u64 }
pub const EXTRA_LIMIT: usize = 0x4000_0000_0000_0000;

#[verifier::external_body]
pub struct BitReaderReversed<'s> { _s: &'s [u8] }
impl<'s> BitReaderReversed<'s> {
    pub uninterp spec fn wf(&self) -> bool;
    pub uninterp spec fn remaining(&self) -> int;
    pub uninterp spec fn extra(&self) -> int;
    pub uninterp spec fn src_len(&self) -> int;

    #[verifier::external_body]
    pub fn new(source: &'s [u8]) -> (r: BitReaderReversed<'s>)
        requires source@.len() <= 0x1_0000_0000,
        ensures r.wf(), r.remaining() == 8 * source@.len(), r.extra() == 0, r.src_len() == source@.len(),
    { unimplemented!() }
    #[verifier::external_body]
    pub fn bits_remaining(&self) -> (r: isize)
        requires self.wf(),
        ensures r == self.remaining(), 0 <= self.extra() <= 8 * self.src_len() + 64 - self.remaining(), self.src_len() <= 0x1_0000_0000,
    { unimplemented!() }
    #[verifier::external_body]
    pub fn get_bits(&mut self, n: u8) -> (r: u64)
        requires old(self).wf(), n <= 56, old(self).extra() + 64 <= EXTRA_LIMIT,
        ensures final(self).wf(), final(self).remaining() == old(self).remaining() - n, r <= low_mask(n),
                old(self).extra() <= final(self).extra() <= old(self).extra() + 64, final(self).src_len() == old(self).src_len(),
    { unimplemented!() }
    #[verifier::external_body]
    pub fn get_bits_triple(&mut self, n1: u8, n2: u8, n3: u8) -> (r: (u64, u64, u64))
        requires old(self).wf(), n1 <= 56, n2 <= 56, n3 <= 56, old(self).extra() + 192 <= EXTRA_LIMIT,
        ensures final(self).wf(), final(self).remaining() == old(self).remaining() - (n1 + n2 + n3),
                r.0 <= low_mask(n1), r.1 <= low_mask(n2), r.2 <= low_mask(n3),
                old(self).extra() <= final(self).extra() <= old(self).extra() + 192, final(self).src_len() == old(self).src_len(),
    { unimplemented!() }
}

// ---- abstract FSE table + decoder: exactly the contracts Verus unit Q2 proves on the verbatim FSEDecoder bodies, and (for
// ---- build_decoder) what unit F2 proves (with F3 for read_probabilities) ----
#[derive(Copy, Clone)]
pub struct Entry { pub base_line: u32, pub num_bits: u8, pub symbol: u8 }
pub struct FSETable {
    pub max_symbol: u8,
    pub decode: Vec<Entry>,
    pub accuracy_log: u8,
}
pub enum FSETableError { Any }
pub enum FSEDecoderError { TableIsUninitialized }
impl FSETable {
    pub open spec fn table_wf(&self) -> bool {
        self.accuracy_log != 0 ==> (
            self.accuracy_log <= 9
            && self.decode@.len() == (1u64 << self.accuracy_log)
            && forall|i: int| 0 <= i < self.decode@.len() ==> {
                let e = #[trigger] self.decode@[i];
                e.num_bits <= self.accuracy_log && e.base_line as int + low_mask(e.num_bits) < self.decode@.len() && e.symbol <= self.max_symbol
            })
    }
    #[verifier::external_body]
    pub fn build_decoder(&mut self, source: &[u8], max_log: u8) -> (r: Result<usize, FSETableError>)
        // contract of FSETable::build_decoder: PROVED in unit F2 (on the verbatim body), ASSUMED wherever the table type is abstract (Q2, HU2V)
        requires max_log <= 9, source@.len() <= 0x1_0000_0000,
            // RFC 8878 3.1.1.3.2.1.1: the offset table (the only one whose alphabet ends at code 31) allows accuracy logs up to 8 only
            old(self).max_symbol == 31 ==> max_log <= 8,
        ensures
            final(self).max_symbol == old(self).max_symbol,
            r matches Ok(n) ==> n <= source@.len() && final(self).table_wf() && final(self).accuracy_log != 0,

    { unimplemented!() }
}
pub struct FSEDecoder<'table> {
    pub state: Entry,
    pub table: &'table FSETable,
}
impl<'t> FSEDecoder<'t> {
    pub open spec fn state_ok(&self) -> bool {
        self.table.table_wf() && self.table.accuracy_log != 0
        && self.state.num_bits <= self.table.accuracy_log
        && self.state.base_line as int + low_mask(self.state.num_bits) < self.table.decode@.len()
        && self.state.symbol <= self.table.max_symbol
    }
    #[verifier::external_body]
    pub fn new(table: &'t FSETable) -> (r: FSEDecoder<'t>)
        ensures r.table == table,
    { unimplemented!() }
    #[verifier::external_body]
    pub fn decode_symbol(&self) -> (r: u8)
        ensures r == self.state.symbol,
    { unimplemented!() }
    #[verifier::external_body]
    pub fn init_state(&mut self, bits: &mut BitReaderReversed<'_>) -> (r: Result<(), FSEDecoderError>)
        requires old(self).table.table_wf(), old(bits).wf(), old(bits).extra() + 64 <= EXTRA_LIMIT,
        ensures
            final(self).table == old(self).table, final(bits).wf(), final(bits).src_len() == old(bits).src_len(),
            r is Err <==> old(self).table.accuracy_log == 0,
            r is Ok ==> final(self).state_ok() && final(bits).remaining() == old(bits).remaining() - old(self).table.accuracy_log,
            old(bits).extra() <= final(bits).extra() <= old(bits).extra() + 64,
    { unimplemented!() }
    #[verifier::external_body]
    pub fn update_state(&mut self, bits: &mut BitReaderReversed<'_>)
        requires old(self).state_ok(), old(bits).wf(), old(bits).extra() + 64 <= EXTRA_LIMIT,
        ensures
            final(self).table == old(self).table, final(self).state_ok(), final(bits).wf(), final(bits).src_len() == old(bits).src_len(),
            final(bits).remaining() == old(bits).remaining() - old(self).state.num_bits,
            old(bits).extra() <= final(bits).extra() <= old(bits).extra() + 64,
    { unimplemented!() }
}


pub enum HuffmanTableError {
    FSEDecoderError(FSEDecoderError),
    FSETableError(FSETableError),
    SourceIsEmpty,
    NotEnoughBytesForWeights { got_bytes: usize, expected_bytes: u8 },
    ExtraPadding { skipped_bits: i32 },
    TooManyWeights { got: usize },
    NotEnoughBytesToDecompressWeights { have: usize, need: usize },
    FSETableUsedTooManyBytes { used: usize, available_bytes: u8 },
    NotEnoughBytesInSource { got: usize, need: usize },
    Table,
}
impl vstd::std_specs::convert::FromSpecImpl<FSEDecoderError> for HuffmanTableError {
    open spec fn obeys_from_spec() -> bool { true }
    open spec fn from_spec(v: FSEDecoderError) -> Self { HuffmanTableError::FSEDecoderError(v) }
}
impl From<FSEDecoderError> for HuffmanTableError {
    fn from(val: FSEDecoderError) -> Self { Self::FSEDecoderError(val) }
}
impl vstd::std_specs::convert::FromSpecImpl<FSETableError> for HuffmanTableError {
    open spec fn obeys_from_spec() -> bool { true }
    open spec fn from_spec(v: FSETableError) -> Self { HuffmanTableError::FSETableError(v) }
}
impl From<FSETableError> for HuffmanTableError {
    fn from(val: FSETableError) -> Self { Self::FSETableError(val) }
}

#[derive(Copy, Clone)]
pub struct HEntry { pub symbol: u8, pub num_bits: u8 }

pub struct HuffmanTable {
    pub decode: Vec<HEntry>,
    pub weights: Vec<u8>,
    pub max_num_bits: u8,
    pub fse_table: FSETable,
}

impl HuffmanTable {
    pub uninterp spec fn huff_wf(&self) -> bool;

    /// HU1V
    #[verifier::external_body]
    pub fn build_table_from_weights(&mut self) -> (r: Result<(), HuffmanTableError>)
        requires old(self).weights@.len() <= 1000,
        ensures
            final(self).weights == old(self).weights, final(self).fse_table == old(self).fse_table,
            r is Ok ==> final(self).huff_wf() && final(self).max_num_bits >= 1,
    { unimplemented!() }

    pub fn read_weights(&mut self, source: &[u8]) -> (r: Result<u32, HuffmanTableError>)
        requires source@.len() <= 0x1_0000_0000, old(self).fse_table.max_symbol == 255,
        ensures
            final(self).fse_table.max_symbol == 255, final(self).decode == old(self).decode, final(self).max_num_bits == old(self).max_num_bits,
            r matches Ok(n) ==> n <= source@.len() && n >= 1 && final(self).weights@.len() <= 257,
            // direct description: header >= 128 announces header - 127 weights, two per byte, high nibble first
            r is Ok && source@[0] >= 128 ==> ({
                let nw = source@[0] - 127;
                final(self).weights@.len() == nw && r->Ok_0 == 1 + (nw + 1) / 2
                && forall|i: int| 0 <= i < nw ==> #[trigger] final(self).weights@[i]
                    == (if i % 2 == 0 { source@[1 + i / 2] >> 4 } else { source@[1 + i / 2] & 0xF })
            }),
{
        use HuffmanTableError as err;

        if source.is_empty() {
            return Err(err::SourceIsEmpty);
        }
        let header = source[0];
        let mut bits_read = 8;

        match header {
            // If the header byte is less than 128, the series of weights
            // is compressed using two interleaved FSE streams that share
            // a distribution table.
            0..=127 => {
                let fse_stream = &source[1..];
                if header as usize > fse_stream.len() {
                    return Err(err::NotEnoughBytesForWeights {
                        got_bytes: fse_stream.len(),
                        expected_bytes: header,
                    });
                }
                //fse decompress weights
                let bytes_used_by_fse_header = self.fse_table.build_decoder(fse_stream, 6)?;

                if bytes_used_by_fse_header > header as usize {
                    return Err(err::FSETableUsedTooManyBytes {
                        used: bytes_used_by_fse_header,
                        available_bytes: header,
                    });
                }

                
                // Huffman headers are compressed using two interleaved
                // FSE bitstreams, where the first state (decoder) handles
                // even symbols, and the second handles odd symbols.
                let mut dec1 = FSEDecoder::new(&self.fse_table);
                let mut dec2 = FSEDecoder::new(&self.fse_table);

                let compressed_start = bytes_used_by_fse_header;
                let compressed_length = header as usize - bytes_used_by_fse_header;

                let compressed_weights = &fse_stream[compressed_start..];
                if compressed_weights.len() < compressed_length {
                    return Err(err::NotEnoughBytesToDecompressWeights {
                        have: compressed_weights.len(),
                        need: compressed_length,
                    });
                }
                let compressed_weights = &compressed_weights[..compressed_length];
                let mut br = BitReaderReversed::new(compressed_weights);

                bits_read += (bytes_used_by_fse_header + compressed_length) * 8;

                //skip the 0 padding at the end of the last byte of the bit stream and throw away the first 1 found
                let mut skipped_bits = 0;
                loop 
                    invariant_except_break skipped_bits <= 8,
                    invariant br.wf(), 0 <= skipped_bits <= 9, br.extra() <= 64 * skipped_bits, br.src_len() <= 127,
                    decreases 9 - skipped_bits,
{
                    let val = br.get_bits(1);
                    skipped_bits += 1;
                    if val == 1 || skipped_bits > 8 {
                        break;
                    }
                }
                if skipped_bits > 8 {
                    //if more than 7 bits are 0, this is not the correct end of the bitstream. Either a bug or corrupted data
                    return Err(err::ExtraPadding { skipped_bits });
                }

                dec1.init_state(&mut br)?;
                dec2.init_state(&mut br)?;

                self.weights.clear();

                // The two decoders take turns decoding a single symbol and updating their state.
                loop 
                    invariant_except_break self.weights@.len() <= 254, self.weights@.len() % 2 == 0,
                    invariant
                        br.wf(), br.src_len() <= 127, br.extra() <= 64 * 12 + 128 * self.weights@.len(),
                        dec1.state_ok(), dec2.state_ok(), dec1.table == &self.fse_table, dec2.table == &self.fse_table,
                        self.weights@.len() <= 257,
                        self.fse_table.max_symbol == 255, self.decode == old(self).decode, self.max_num_bits == old(self).max_num_bits,
                        bits_read <= 8 + 127 * 8,
                    decreases 300 - self.weights@.len(),
{
                    let w = dec1.decode_symbol();
                    self.weights.push(w);
                    dec1.update_state(&mut br);

                    if br.bits_remaining() <= -1 {
                        //collect final states
                        self.weights.push(dec2.decode_symbol());
                        break;
                    }

                    let w = dec2.decode_symbol();
                    self.weights.push(w);
                    dec2.update_state(&mut br);

                    if br.bits_remaining() <= -1 {
                        //collect final states
                        self.weights.push(dec1.decode_symbol());
                        break;
                    }
                    //maximum number of weights is 255 because we use u8 symbols and the last weight is inferred from the sum of all others
                    if self.weights.len() > 255 {
                        return Err(err::TooManyWeights {
                            got: self.weights.len(),
                        });
                    }
                }
            }
            // If the header byte is greater than or equal to 128,
            // weights are directly represented, where each weight is
            // encoded directly as a 4 bit field. The weights will
            // always be encoded with full bytes, meaning if there's
            // an odd number of weights, the last weight will still
            // occupy a full byte.
            _ => {
                // weights are directly encoded
                let weights_raw = &source[1..];
                let num_weights = header - 127;
                self.weights.resize(num_weights as usize, 0);

                let bytes_needed = if num_weights.is_multiple_of(2) {
                    num_weights as usize / 2
                } else {
                    (num_weights as usize / 2) + 1
                };

                if weights_raw.len() < bytes_needed {
                    return Err(err::NotEnoughBytesInSource {
                        got: weights_raw.len(),
                        need: bytes_needed,
                    });
                }

                for idx in 0..num_weights 
                    invariant
                        self.weights@.len() == num_weights, 1 <= num_weights <= 128, weights_raw@ == source@.subrange(1, source@.len() as int),
                        weights_raw@.len() >= bytes_needed, bytes_needed == (num_weights as int + 1) / 2, source@.len() >= 1 + bytes_needed,
                        bits_read == 8 + 4 * idx,
                        self.fse_table.max_symbol == 255, self.decode == old(self).decode, self.max_num_bits == old(self).max_num_bits,
                        forall|i: int| 0 <= i < idx ==> #[trigger] self.weights@[i]
                            == (if i % 2 == 0 { source@[1 + i / 2] >> 4 } else { source@[1 + i / 2] & 0xF }),
{
                    if idx % 2 == 0 {
                        self.weights[idx as usize] = weights_raw[idx as usize / 2] >> 4;
                    } else {
                        self.weights[idx as usize] = weights_raw[idx as usize / 2] & 0xF;
                    }
                    bits_read += 4;
                }
            }
        }

        let bytes_read = if bits_read % 8 == 0 {
            bits_read / 8
        } else {
            (bits_read / 8) + 1
        };
        Ok(bytes_read as u32)
    }

    pub fn build_decoder(&mut self, source: &[u8]) -> (r: Result<u32, HuffmanTableError>)
        requires source@.len() <= 0x1_0000_0000, old(self).fse_table.max_symbol == 255,
        ensures
            final(self).fse_table.max_symbol == 255,
            // exactly what unit L1 assumes of build_decoder
            r matches Ok(n) ==> n <= source@.len() && final(self).huff_wf() && final(self).max_num_bits != 0,
{
        self.decode.clear();

        let bytes_used = self.read_weights(source)?;
        self.build_table_from_weights()?;
        Ok(bytes_used)
    }
}

pub proof fn verif_canary_must_fail(x: int)
    requires x > 0,
    ensures x > 1,
{
}
} // verus!
fn main() {}
