use vstd::prelude::*;
use vstd::arithmetic::div_mod::*;
use vstd::arithmetic::mul::*;
verus! {

global size_of usize == 8;

pub open spec fn valid_t(t: int) -> bool { t == 32 || t == 64 || t == 128 || t == 256 || t == 512 }
/// the spread step (RFC 8878 4.1.1): (tableSize >> 1) + (tableSize >> 3) + 3
pub open spec fn step(t: int) -> int { t / 2 + t / 8 + 3 }
/// its inverse modulo the table size (checked below)
pub open spec fn sinv(t: int) -> int { if t == 32 { 7 } else if t == 64 { 3 } else if t == 128 { 91 } else if t == 256 { 11 } else { 363 } }
/// position after j steps from 0
pub open spec fn w(j: int, t: int) -> int { (j * step(t)) % t }

pub proof fn lemma_inv(t: int)
    requires valid_t(t),
    ensures (step(t) * sinv(t)) % t == 1, step(t) > 0, sinv(t) > 0, step(t) < t,
{
    assert((23int * 7) % 32 == 1 && (43int * 3) % 64 == 1 && (83int * 91) % 128 == 1 && (163int * 11) % 256 == 1 && (323int * 363) % 512 == 1) by (compute);
}
/// multiplying a position by the inverse step recovers the step count: w is injective on [0, t)
pub proof fn lemma_w_inverse(j: int, t: int)
    requires valid_t(t), 0 <= j < t,
    ensures (w(j, t) * sinv(t)) % t == j, 0 <= w(j, t) < t,
{
    lemma_inv(t);
    let s = step(t);
    let v = sinv(t);
    lemma_mul_mod_noop_left(j * s, v, t);          // ((j*s)%t * v) % t == (j*s*v) % t
    lemma_mul_is_associative(j, s, v);             // j*s*v == j*(s*v)
    lemma_mul_mod_noop_right(j, s * v, t);         // (j * ((s*v)%t)) % t == (j*(s*v)) % t
    lemma_small_mod(j as nat, t as nat);
    lemma_mod_bound(j * s, t);
}
pub proof fn lemma_w_injective(i: int, j: int, t: int)
    requires valid_t(t), 0 <= i < t, 0 <= j < t, w(i, t) == w(j, t),
    ensures i == j,
{
    lemma_w_inverse(i, t);
    lemma_w_inverse(j, t);
}
/// every cell is visited: the step index of cell c is (c * sinv) mod t
pub open spec fn step_index(c: int, t: int) -> int { (c * sinv(t)) % t }
pub proof fn lemma_w_surjective(c: int, t: int)
    requires valid_t(t), 0 <= c < t,
    ensures 0 <= step_index(c, t) < t, w(step_index(c, t), t) == c,
{
    lemma_inv(t);
    let s = step(t);
    let v = sinv(t);
    lemma_mod_bound(c * v, t);
    lemma_mul_mod_noop_left(c * v, s, t);          // ((c*v)%t * s) % t == (c*v*s) % t
    lemma_mul_is_associative(c, v, s);
    lemma_mul_is_commutative(v, s);
    lemma_mul_mod_noop_right(c, s * v, t);
    lemma_small_mod(c as nat, t as nat);
}
pub proof fn lemma_w_next(j: int, t: int)
    requires valid_t(t), 0 <= j,
    ensures (w(j, t) + step(t)) % t == w(j + 1, t), w(0, t) == 0, w(t, t) == 0,
{
    let s = step(t);
    lemma_add_mod_noop(j * s, s, t);
    lemma_inv(t);
    lemma_small_mod(s as nat, t as nat);
    lemma_mul_is_distributive_add_other_way(s, j, 1);
    assert((j + 1) * s == j * s + s);
    lemma_mod_multiples_basic(s, t);
    lemma_mul_is_commutative(s, t);
}

/// F1 (Kani): exec step function
pub fn next_position(mut p: usize, table_size: usize) -> (r: usize)
    requires valid_t(table_size as int), p < table_size,
    ensures r == (p + step(table_size as int)) % (table_size as int), r < table_size,
{
    proof {
        assert(forall|x: usize| #[trigger] (x & 31) == x % 32) by (bit_vector);
        assert(forall|x: usize| #[trigger] (x & 63) == x % 64) by (bit_vector);
        assert(forall|x: usize| #[trigger] (x & 127) == x % 128) by (bit_vector);
        assert(forall|x: usize| #[trigger] (x & 255) == x % 256) by (bit_vector);
        assert(forall|x: usize| #[trigger] (x & 511) == x % 512) by (bit_vector);
        assert((32usize >> 1) == 16 && (32usize >> 3) == 4 && (64usize >> 1) == 32 && (64usize >> 3) == 8 && (128usize >> 1) == 64 && (128usize >> 3) == 16
            && (256usize >> 1) == 128 && (256usize >> 3) == 32 && (512usize >> 1) == 256 && (512usize >> 3) == 64) by (bit_vector);
    }
    p += (table_size >> 1) + (table_size >> 3) + 3;
    p &= table_size - 1;
    p
}

pub enum GetBitsError { TooManyBits { num_requested_bits: usize, limit: u8 }, NotEnoughRemainingBits { requested: usize, remaining: usize } }
pub enum FSETableError {
    AccLogIsZero,
    AccLogTooBig { got: u8, max: u8 },
    GetBitsError(GetBitsError),
    ProbabilityCounterMismatch { got: u32, expected_sum: u32, symbol_probabilities: Vec<i32> },
    TooManySymbols { got: usize },
}

#[derive(Copy, Clone)]
pub struct Entry { pub base_line: u32, pub num_bits: u8, pub symbol: u8 }

pub struct FSETable {
    pub max_symbol: u8,
    pub decode: Vec<Entry>,
    pub accuracy_log: u8,
    pub symbol_probabilities: Vec<i32>,
    pub symbol_counter: Vec<u32>,
}

pub const ACC_LOG_OFFSET: u8 = 5;

/// std: <[i32]>::to_vec copies the slice (assumed specification of a std function)
pub assume_specification<T: Clone> [<[T]>::to_vec] (s: &[T]) -> (r: Vec<T>)
    ensures r@.len() == s@.len(), forall|i: int| 0 <= i < s@.len() ==> cloned::<T>(#[trigger] s@[i], r@[i]);

pub open spec fn low_mask(n: int) -> int { vstd::arithmetic::power2::pow2(n as nat) - 1 }
pub open spec fn tsize(al: int) -> int { if al == 5 { 32 } else if al == 6 { 64 } else if al == 7 { 128 } else if al == 8 { 256 } else { 512 } }

/// number of table cells a probability occupies: -1 ("less than one") counts as one cell (same definition as unit F3)
pub open spec fn cells(p: i32) -> int { if p == -1 { 1 } else if p > 0 { p as int } else { 0 } }
pub open spec fn posp(p: i32) -> int { if p > 0 { p as int } else { 0 } }
pub open spec fn negp(p: i32) -> int { if p == -1 { 1 } else { 0 } }
pub open spec fn sum_cells(s: Seq<i32>) -> int decreases s.len(), { if s.len() == 0 { 0 } else { sum_cells(s.drop_last()) + cells(s.last()) } }
pub open spec fn sum_pos(s: Seq<i32>) -> int decreases s.len(), { if s.len() == 0 { 0 } else { sum_pos(s.drop_last()) + posp(s.last()) } }
pub open spec fn num_neg(s: Seq<i32>) -> int decreases s.len(), { if s.len() == 0 { 0 } else { num_neg(s.drop_last()) + negp(s.last()) } }

pub proof fn lemma_sum_split(s: Seq<i32>)
    ensures sum_cells(s) == sum_pos(s) + num_neg(s), sum_pos(s) >= 0, num_neg(s) >= 0,
    decreases s.len(),
{
    if s.len() > 0 { lemma_sum_split(s.drop_last()); }
}
pub proof fn lemma_take_step(s: Seq<i32>, i: int)
    requires 0 <= i < s.len(),
    ensures sum_pos(s.take(i + 1)) == sum_pos(s.take(i)) + posp(s[i]), num_neg(s.take(i + 1)) == num_neg(s.take(i)) + negp(s[i]),
{
    assert(s.take(i + 1).drop_last() =~= s.take(i));
}
pub proof fn lemma_take_mono(s: Seq<i32>, i: int)
    requires 0 <= i <= s.len(),
    ensures sum_pos(s.take(i)) <= sum_pos(s), num_neg(s.take(i)) <= num_neg(s), sum_pos(s.take(i)) >= 0, num_neg(s.take(i)) >= 0,
    decreases s.len() - i,
{
    lemma_sum_split(s.take(i));
    if i < s.len() {
        lemma_take_step(s, i);
        lemma_take_mono(s, i + 1);
    } else {
        assert(s.take(i) =~= s);
    }
}

/// number of written cells below `upto`
pub open spec fn numw(written: Seq<bool>, upto: int) -> int decreases upto, {
    if upto <= 0 { 0 } else { numw(written, upto - 1) + if written[upto - 1] { 1int } else { 0int } }
}
/// number of written cells below `upto` that hold symbol `s`
pub open spec fn cntw(d: Seq<Entry>, written: Seq<bool>, s: int, upto: int) -> int decreases upto, {
    if upto <= 0 { 0 } else { cntw(d, written, s, upto - 1) + if written[upto - 1] && d[upto - 1].symbol == s { 1int } else { 0int } }
}
/// number of cells below `upto` that hold symbol `s`
pub open spec fn cnt_sym(d: Seq<Entry>, s: int, upto: int) -> int decreases upto, {
    if upto <= 0 { 0 } else { cnt_sym(d, s, upto - 1) + if d[upto - 1].symbol == s { 1int } else { 0int } }
}

pub proof fn lemma_numw_bounds(written: Seq<bool>, upto: int)
    requires 0 <= upto <= written.len(),
    ensures 0 <= numw(written, upto) <= upto,
    decreases upto,
{ if upto > 0 { lemma_numw_bounds(written, upto - 1); } }

pub proof fn lemma_numw_mono(written: Seq<bool>, a: int, b: int)
    requires 0 <= a <= b <= written.len(),
    ensures numw(written, a) <= numw(written, b),
    decreases b - a,
{ if a < b { lemma_numw_mono(written, a, b - 1); } }

pub proof fn lemma_numw_above(written: Seq<bool>, lo: int, upto: int)
    requires 0 <= lo <= upto <= written.len(), forall|c: int| lo <= c < upto ==> !written[c],
    ensures numw(written, upto) == numw(written, lo),
    decreases upto - lo,
{ if lo < upto { lemma_numw_above(written, lo, upto - 1); } }

pub proof fn lemma_cnt_sym_bounds(d: Seq<Entry>, s: int, upto: int)
    requires 0 <= upto,
    ensures 0 <= cnt_sym(d, s, upto) <= upto,
    decreases upto,
{ if upto > 0 { lemma_cnt_sym_bounds(d, s, upto - 1); } }

pub proof fn lemma_numw_none(written: Seq<bool>, upto: int)
    requires 0 <= upto <= written.len(), forall|c: int| 0 <= c < upto ==> !written[c],
    ensures numw(written, upto) == 0,
    decreases upto,
{ if upto > 0 { lemma_numw_none(written, upto - 1); } }

pub proof fn lemma_numw_all(written: Seq<bool>, upto: int)
    requires 0 <= upto <= written.len(), forall|c: int| 0 <= c < upto ==> written[c],
    ensures numw(written, upto) == upto,
    decreases upto,
{ if upto > 0 { lemma_numw_all(written, upto - 1); } }

/// if as many cells are written as there are cells, every cell is written
pub proof fn lemma_numw_full(written: Seq<bool>, upto: int)
    requires 0 <= upto <= written.len(), numw(written, upto) == upto,
    ensures forall|c: int| 0 <= c < upto ==> written[c],
    decreases upto,
{
    if upto > 0 {
        lemma_numw_bounds(written, upto - 1);
        lemma_numw_full(written, upto - 1);
    }
}
pub proof fn lemma_numw_update(written: Seq<bool>, c: int, upto: int)
    requires 0 <= c < written.len(), 0 <= upto <= written.len(), !written[c],
    ensures numw(written.update(c, true), upto) == numw(written, upto) + if c < upto { 1int } else { 0int },
    decreases upto,
{ if upto > 0 { lemma_numw_update(written, c, upto - 1); } }

pub proof fn lemma_cntw_update(d: Seq<Entry>, written: Seq<bool>, c: int, e: Entry, s: int, upto: int)
    requires 0 <= c < written.len(), d.len() == written.len(), 0 <= upto <= written.len(), !written[c],
    ensures cntw(d.update(c, e), written.update(c, true), s, upto) == cntw(d, written, s, upto) + if c < upto && e.symbol == s { 1int } else { 0int },
    decreases upto,
{ if upto > 0 { lemma_cntw_update(d, written, c, e, s, upto - 1); } }

pub proof fn lemma_cntw_none(d: Seq<Entry>, written: Seq<bool>, s: int, upto: int)
    requires 0 <= upto <= written.len(), forall|c: int| 0 <= c < upto ==> !written[c],
    ensures cntw(d, written, s, upto) == 0,
    decreases upto,
{ if upto > 0 { lemma_cntw_none(d, written, s, upto - 1); } }

/// cells at or above `lo` are not written: the count does not see them
pub proof fn lemma_cntw_above(d: Seq<Entry>, written: Seq<bool>, s: int, lo: int, upto: int)
    requires 0 <= lo <= upto <= written.len(), forall|c: int| lo <= c < upto ==> !written[c],
    ensures cntw(d, written, s, upto) == cntw(d, written, s, lo),
    decreases upto - lo,
{ if lo < upto { lemma_cntw_above(d, written, s, lo, upto - 1); } }

pub proof fn lemma_cntw_is_cnt_sym(d: Seq<Entry>, written: Seq<bool>, s: int, upto: int)
    requires 0 <= upto <= written.len(), forall|c: int| 0 <= c < upto ==> written[c],
    ensures cntw(d, written, s, upto) == cnt_sym(d, s, upto),
    decreases upto,
{ if upto > 0 { lemma_cntw_is_cnt_sym(d, written, s, upto - 1); } }

pub proof fn lemma_cnt_sym_mono(d: Seq<Entry>, s: int, a: int, b: int)
    requires 0 <= a <= b,
    ensures cnt_sym(d, s, a) <= cnt_sym(d, s, b),
    decreases b - a,
{ if a < b { lemma_cnt_sym_mono(d, s, a, b - 1); } }

pub proof fn lemma_cnt_sym_same(d1: Seq<Entry>, d2: Seq<Entry>, s: int, upto: int)
    requires 0 <= upto <= d1.len(), d1.len() == d2.len(), forall|c: int| 0 <= c < upto ==> (#[trigger] d1[c]).symbol == d2[c].symbol,
    ensures cnt_sym(d1, s, upto) == cnt_sym(d2, s, upto),
    decreases upto,
{ if upto > 0 { lemma_cnt_sym_same(d1, d2, s, upto - 1); } }

/// RFC 8878 4.1.1, spreading: walk the positions 0, step, 2*step, .. (mod table size), skip the cells reserved for less-than-one
/// symbols; the r-th cell visited that way (r = rank_of) belongs to the symbol whose cumulative probability interval contains r
pub open spec fn visited_before(c: int, t: int, neg: int) -> Seq<bool> { Seq::new(t as nat, |c2: int| c2 < neg && step_index(c2, t) < step_index(c, t)) }
pub open spec fn rank_of(c: int, t: int, neg: int) -> int { numw(visited_before(c, t, neg), t) }
pub open spec fn spread_symbol_ok(probs: Seq<i32>, t: int, neg: int, c: int, sym: int) -> bool {
    0 <= sym < probs.len() && sum_pos(probs.take(sym)) <= rank_of(c, t, neg) < sum_pos(probs.take(sym + 1))
}
/// RFC 8878 4.1.1, state arithmetic (baseline, number of bits) of the k-th state of a symbol with probability p in a table of ts cells:
/// abstract here; Kani obligation F1.f1_calc_baseline proves the real calc_baseline_and_numbits equal to the RFC formula (contracts/spec/30_rfc_fse_tables.rs)
pub uninterp spec fn rfc_state(ts: u32, p: u32, k: u32) -> (u32, u8);

/// the state of the spread walk after `j` steps, while symbol `idx` has received `k` of its cells
pub open spec fn spread_state(d: Seq<Entry>, written: Seq<bool>, probs: Seq<i32>, t: int, neg: int, j: int, idx: int, k: int) -> bool {
    &&& d.len() == t && written.len() == t
    &&& 0 <= j <= t
    &&& forall|c: int| 0 <= c < t ==> (#[trigger] written[c] <==> (c < neg && step_index(c, t) < j))
    &&& numw(written, t) == sum_pos(probs.take(idx)) + k
    &&& forall|c: int| 0 <= c < t && #[trigger] written[c] ==> d[c].symbol <= idx && d[c].symbol < probs.len() && probs[d[c].symbol as int] > 0
    &&& forall|s: int| 0 <= s < probs.len() ==> #[trigger] cntw(d, written, s, t) == (if s < idx { posp(probs[s]) } else if s == idx { k } else { 0 })
    &&& forall|c: int| 0 <= c < t && #[trigger] written[c] ==> spread_symbol_ok(probs, t, neg, c, d[c].symbol as int)
}
/// the cells of the less-than-one symbols (filled from the top by the first loop) are final
pub open spec fn top_ok(d: Seq<Entry>, probs: Seq<i32>, neg: int, t: int, al: u8, max_symbol: u8) -> bool {
    forall|c: int| neg <= c < t ==> (#[trigger] d[c]).num_bits == al && d[c].base_line == 0 && d[c].symbol <= max_symbol
        // RFC: the i-th less-than-one symbol (in symbol order) owns cell t - 1 - i
        && d[c].symbol < probs.len() && probs[d[c].symbol as int] == -1 && c == t - 1 - num_neg(probs.take(d[c].symbol as int))
}
/// the walk bijection facts, stated once
pub open spec fn walk_facts(t: int) -> bool {
    &&& forall|c: int| 0 <= c < t ==> 0 <= #[trigger] step_index(c, t) < t && w(step_index(c, t), t) == c
    &&& forall|j: int| 0 <= j < t ==> 0 <= #[trigger] w(j, t) < t && step_index(w(j, t), t) == j
    &&& w(0, t) == 0 && w(t, t) == 0
}
pub proof fn lemma_walk_facts(t: int)
    requires valid_t(t),
    ensures walk_facts(t),
{
    assert forall|c: int| 0 <= c < t implies 0 <= #[trigger] step_index(c, t) < t && w(step_index(c, t), t) == c by { lemma_w_surjective(c, t); }
    assert forall|j: int| 0 <= j < t implies 0 <= #[trigger] w(j, t) < t && step_index(w(j, t), t) == j by { lemma_w_inverse(j, t); }
    lemma_w_next(0, t);
}

/// F1 (Kani obligation f1_calc_baseline, complete for accuracy logs 5..=9): range contract of the state arithmetic
#[verifier::external_body]
pub fn calc_baseline_and_numbits(num_states_total: u32, num_states_symbol: u32, state_number: u32) -> (r: (u32, u8))
    requires valid_t(num_states_total as int), 1 <= num_states_symbol <= num_states_total, state_number < num_states_symbol,
    ensures tsize(5) == num_states_total ==> r.1 <= 5, tsize(6) == num_states_total ==> r.1 <= 6, tsize(7) == num_states_total ==> r.1 <= 7,
        tsize(8) == num_states_total ==> r.1 <= 8, r.1 <= 9,
        r.0 + vstd::arithmetic::power2::pow2(r.1 as nat) <= num_states_total,
        r == rfc_state(num_states_total, num_states_symbol, state_number),
{ unimplemented!() }

impl FSETable {
    pub open spec fn table_wf(&self) -> bool {
        self.accuracy_log != 0 ==> (
            self.accuracy_log <= 9
            && self.decode@.len() == (1u64 << self.accuracy_log)
            && forall|i: int| 0 <= i < self.decode@.len() ==> {
                let e = #[trigger] self.decode@[i];
                e.num_bits <= self.accuracy_log && e.base_line as int + low_mask(e.num_bits as int) < self.decode@.len() && e.symbol <= self.max_symbol
            })
    }

    /// unit F3 proves this contract on the verbatim body
    #[verifier::external_body]
    pub fn read_probabilities(&mut self, source: &[u8], max_log: u8) -> (r: Result<usize, FSETableError>)
        // contract of FSETable::read_probabilities: PROVED in unit F3 (on the verbatim body), ASSUMED in unit F2
        requires source@.len() <= 0x1_0000_0000, max_log <= 30,
        ensures
            final(self).max_symbol == old(self).max_symbol, final(self).decode == old(self).decode,
            r matches Ok(n) ==> n <= source@.len()
                && ACC_LOG_OFFSET <= final(self).accuracy_log <= max_log
                && sum_cells(final(self).symbol_probabilities@) == (1u32 << final(self).accuracy_log)
                && final(self).symbol_probabilities@.len() <= final(self).max_symbol + 1
                && forall|i: int| 0 <= i < final(self).symbol_probabilities@.len() ==> #[trigger] final(self).symbol_probabilities@[i] >= -1,

    { unimplemented!() }

    /// the decoding table is the one RFC 8878 4.1.1 defines for (accuracy_log, symbol_probabilities): symbol, bit count and baseline of every state
    pub open spec fn table_is_rfc(&self) -> bool {
        let t = tsize(self.accuracy_log as int);
        let probs = self.symbol_probabilities@;
        let d = self.decode@;
        let neg = t - num_neg(probs);
        &&& d.len() == t
        // cells of the less-than-one symbols, from the top
        &&& forall|c: int| neg <= c < t ==> (#[trigger] d[c]).num_bits == self.accuracy_log && d[c].base_line == 0
                && d[c].symbol < probs.len() && probs[d[c].symbol as int] == -1 && c == t - 1 - num_neg(probs.take(d[c].symbol as int))
        // all other cells: symbol by the spread walk, state arithmetic by rank among the symbol's cells in cell order
        &&& forall|c: int| 0 <= c < neg ==> spread_symbol_ok(probs, t, neg, c, (#[trigger] d[c]).symbol as int)
                && probs[d[c].symbol as int] > 0
                && (d[c].base_line, d[c].num_bits) == rfc_state(t as u32, probs[d[c].symbol as int] as u32, cnt_sym(d, d[c].symbol as int, c) as u32)
    }

    pub fn build_decoder(&mut self, source: &[u8], max_log: u8) -> (r: Result<usize, FSETableError>)
        // contract of FSETable::build_decoder: PROVED in unit F2 (on the verbatim body), ASSUMED wherever the table type is abstract (Q2, HU2V)
        requires max_log <= 9, source@.len() <= 0x1_0000_0000,
            // RFC 8878 3.1.1.3.2.1.1: the offset table (the only one whose alphabet ends at code 31) allows accuracy logs up to 8 only
            old(self).max_symbol == 31 ==> max_log <= 8,
        ensures
            final(self).max_symbol == old(self).max_symbol,
            r matches Ok(n) ==> n <= source@.len() && final(self).table_wf() && final(self).accuracy_log != 0,
{
        self.accuracy_log = 0;

        let bytes_read = self.read_probabilities(source, max_log)?;
        proof {
            assert((1u32 << 5u8) == 32 && (1u32 << 6u8) == 64 && (1u32 << 7u8) == 128 && (1u32 << 8u8) == 256 && (1u32 << 9u8) == 512) by (bit_vector);
        }
        self.build_decoding_table()?;

        Ok(bytes_read)
    }

    pub fn build_from_probabilities(
        &mut self,
        acc_log: u8,
        probs: &[i32],
    ) -> (r: Result<(), FSETableError>)
        requires
            // the only callers pass the three predefined distributions (Kani F2c checks those tables cell by cell)
            acc_log == 0 || (5 <= acc_log <= 9 && sum_cells(probs@) == tsize(acc_log as int) && forall|i: int| 0 <= i < probs@.len() ==> #[trigger] probs@[i] >= -1),
        ensures
            final(self).max_symbol == old(self).max_symbol,
            r is Ok ==> final(self).table_wf() && final(self).accuracy_log == acc_log && acc_log != 0 && final(self).symbol_probabilities@ == probs@,
            acc_log == 0 ==> r is Err,
{
        if acc_log == 0 {
            return Err(FSETableError::AccLogIsZero);
        }
        self.symbol_probabilities = probs.to_vec();
        proof { assert(self.symbol_probabilities@ =~= probs@); }
        self.accuracy_log = acc_log;
        self.build_decoding_table()
    }

    pub fn build_decoding_table(&mut self) -> (r: Result<(), FSETableError>)
        requires
            5 <= old(self).accuracy_log <= 9,
            sum_cells(old(self).symbol_probabilities@) == tsize(old(self).accuracy_log as int),
            forall|i: int| 0 <= i < old(self).symbol_probabilities@.len() ==> #[trigger] old(self).symbol_probabilities@[i] >= -1,
        ensures
            final(self).max_symbol == old(self).max_symbol, final(self).accuracy_log == old(self).accuracy_log,
            final(self).symbol_probabilities == old(self).symbol_probabilities,
            r is Ok ==> final(self).table_wf() && final(self).table_is_rfc(),
            (r is Err) <==> old(self).symbol_probabilities@.len() > old(self).max_symbol + 1,
{
        let ghost probs = self.symbol_probabilities@;
        let ghost n = probs.len() as int;
        let ghost al = self.accuracy_log;
        let ghost t = tsize(al as int);
        let ghost msym = self.max_symbol;
        proof {
            lemma_walk_facts(t);
            lemma_sum_split(probs);
            assert((1usize << 5u8) == 32 && (1usize << 6u8) == 64 && (1usize << 7u8) == 128 && (1usize << 8u8) == 256 && (1usize << 9u8) == 512) by (bit_vector);
            assert((1u64 << 5u8) == 32 && (1u64 << 6u8) == 64 && (1u64 << 7u8) == 128 && (1u64 << 8u8) == 256 && (1u64 << 9u8) == 512) by (bit_vector);
            vstd::arithmetic::power2::lemma2_to64();
        }
        if self.symbol_probabilities.len() > self.max_symbol as usize + 1 {
            return Err(FSETableError::TooManySymbols {
                got: self.symbol_probabilities.len(),
            });
        }

        self.decode.clear();

        let table_size = 1 << self.accuracy_log;
        if self.decode.len() < table_size {
            self.decode.reserve(table_size - self.decode.len());
        }
        //fill with dummy entries
        self.decode.resize(
            table_size,
            Entry {
                base_line: 0,
                num_bits: 0,
                symbol: 0,
            },
        );

        let mut negative_idx = table_size; //will point to the highest index with is already occupied by a negative-probability-symbol

        //first scan for all -1 probabilities and place them at the top of the table
        for symbol in 0..self.symbol_probabilities.len() 
            invariant
                valid_t(t), t == tsize(al as int), 5 <= al <= 9, table_size == t, self.decode@.len() == t, self.accuracy_log == al, self.max_symbol == msym,
                self.symbol_probabilities@ == probs, n == probs.len(), n <= msym + 1,
                num_neg(probs) <= t,
                negative_idx == t - num_neg(probs.take(symbol as int)),
                top_ok(self.decode@, probs, negative_idx as int, t, al, msym),
{
            proof {
                lemma_take_step(probs, symbol as int);
                lemma_take_mono(probs, symbol as int);
                lemma_take_mono(probs, symbol as int + 1);
            }

            if self.symbol_probabilities[symbol] == -1 {
                negative_idx -= 1;
                let entry = &mut self.decode[negative_idx];
                entry.symbol = symbol as u8;
                entry.base_line = 0;
                entry.num_bits = self.accuracy_log;
            }
        }

        //then place in a semi-random order all of the other symbols
        proof {
            assert(probs.take(n) =~= probs);
            assert(negative_idx == sum_pos(probs));
        }
        let ghost mut written: Seq<bool> = Seq::new(t as nat, |c: int| false);
        let ghost mut j: int = 0;
        let mut position = 0;
        proof {
            lemma_numw_none(written, t);
            assert(probs.take(0) =~= Seq::<i32>::empty());
            assert forall|s: int| 0 <= s < probs.len() implies #[trigger] cntw(self.decode@, written, s, t) == 0 by { lemma_cntw_none(self.decode@, written, s, t); }
            assert(spread_state(self.decode@, written, probs, t, negative_idx as int, j, 0, 0));
        }
        let verif_end_idx: usize = self.symbol_probabilities.len();
        let mut idx: usize = 0;
        while idx < verif_end_idx 
            invariant
                valid_t(t), t == tsize(al as int), 5 <= al <= 9, table_size == t, self.decode@.len() == t, self.accuracy_log == al, self.max_symbol == msym,
                self.symbol_probabilities@ == probs, n == probs.len(), n <= msym + 1, verif_end_idx == n, idx <= n,
                forall|i: int| 0 <= i < n ==> #[trigger] probs[i] >= -1,
                walk_facts(t),
                negative_idx == sum_pos(probs), negative_idx <= t,
                position == w(j, t), position < t, negative_idx > 0 ==> position < negative_idx,
                spread_state(self.decode@, written, probs, t, negative_idx as int, j, idx as int, 0),
                top_ok(self.decode@, probs, negative_idx as int, t, al, msym),
            decreases n - idx,
{
            proof {
                lemma_take_step(probs, idx as int);
                lemma_take_mono(probs, idx as int);
                lemma_take_mono(probs, idx as int + 1);
            }

            let symbol = idx as u8;
            if self.symbol_probabilities[idx] <= 0 {
                { idx += 1; continue; }
            }

            //for each probability point the symbol gets on slot
            let prob = self.symbol_probabilities[idx];
            for _ in it: 0..prob 
                invariant
                    valid_t(t), t == tsize(al as int), 5 <= al <= 9, table_size == t, self.decode@.len() == t, self.accuracy_log == al, self.max_symbol == msym,
                    self.symbol_probabilities@ == probs, n == probs.len(), n <= msym + 1, idx < n, symbol == idx, prob == probs[idx as int], prob > 0,
                    walk_facts(t),
                    negative_idx == sum_pos(probs), negative_idx <= t, negative_idx > 0,
                    sum_pos(probs.take(idx as int)) + prob <= negative_idx,
                    position == w(j, t), position < negative_idx,
                    spread_state(self.decode@, written, probs, t, negative_idx as int, j, idx as int, it.index() as int),
                    top_ok(self.decode@, probs, negative_idx as int, t, al, msym),
{
                let ghost k0 = it.index() as int;
                let ghost d0 = self.decode@;
                let ghost w0 = written;
                let ghost c0 = position as int;
                proof {
                    // fewer cells are written than exist below negative_idx, so the walk has not completed a full cycle yet
                    if j == t {
                        assert forall|c: int| 0 <= c < negative_idx implies w0[c] by { assert(step_index(c, t) < t); }
                        lemma_numw_all(w0, negative_idx as int);
                        lemma_numw_mono(w0, negative_idx as int, t);
                        assert(false);
                    }
                    assert(step_index(c0, t) == j);
                    assert(!w0[c0]);
                }

                let entry = &mut self.decode[position];
                entry.symbol = symbol;

                proof {
                    let e = self.decode@[c0];
                    assert(self.decode@ =~= d0.update(c0, e));
                    written = w0.update(c0, true);
                    lemma_numw_update(w0, c0, t);
                    assert forall|s: int| 0 <= s < probs.len() implies #[trigger] cntw(self.decode@, written, s, t) == (if s < idx { posp(probs[s]) } else if s == idx { k0 + 1 } else { 0 }) by {
                        lemma_cntw_update(d0, w0, c0, e, s, t);
                    }
                    assert forall|c: int| 0 <= c < t implies (#[trigger] written[c] <==> (c < negative_idx && step_index(c, t) < j + 1)) by {
                        if c != c0 && c < negative_idx { assert(w(step_index(c, t), t) == c); }
                    }
                    // the cell just written is the (number of cells written before)-th cell of the walk
                    assert(visited_before(c0, t, negative_idx as int) =~= w0);
                    assert(rank_of(c0, t, negative_idx as int) == sum_pos(probs.take(idx as int)) + k0);
                    lemma_take_step(probs, idx as int);
                    assert(k0 < prob);
                    assert(e.symbol == idx);
                    assert(spread_symbol_ok(probs, t, negative_idx as int, c0, e.symbol as int));
                    lemma_w_next(j, t);
                    j = j + 1;
                }
                position = next_position(position, table_size);
                proof {
                    assert(spread_state(self.decode@, written, probs, t, negative_idx as int, j, idx as int, k0 + 1));
                }
                while position >= negative_idx 
                    invariant
                        valid_t(t), table_size == t, walk_facts(t), 0 < negative_idx <= t,
                        position == w(j, t), position < t,
                        spread_state(self.decode@, written, probs, t, negative_idx as int, j, idx as int, k0 + 1),
                    decreases t - j,
{
                    proof {
                        assert(j < t);
                        assert forall|c: int| 0 <= c < t implies (#[trigger] written[c] <==> (c < negative_idx && step_index(c, t) < j + 1)) by {
                            if c < negative_idx { assert(w(step_index(c, t), t) == c); }
                        }
                        lemma_w_next(j, t);
                        j = j + 1;
                    }

                    position = next_position(position, table_size);
                    //everything above negative_idx is already taken
                }
            }
            idx += 1;
        }

        // baselines and num_bits can only be calculated when all symbols have been spread
        let ghost d2 = self.decode@;
        proof {
            // every cell below negative_idx has been written exactly once: as many writes as cells, all distinct
            assert(probs.take(n) =~= probs);
            lemma_numw_above(written, negative_idx as int, t);
            lemma_numw_full(written, negative_idx as int);
            assert forall|c: int| 0 <= c < negative_idx implies (#[trigger] d2[c]).symbol < n && probs[d2[c].symbol as int] > 0
                && spread_symbol_ok(probs, t, negative_idx as int, c, d2[c].symbol as int) by { assert(written[c]); }
            assert forall|s: int| 0 <= s < n implies #[trigger] cnt_sym(d2, s, negative_idx as int) == posp(probs[s]) by {
                lemma_cntw_above(d2, written, s, negative_idx as int, t);
                lemma_cntw_is_cnt_sym(d2, written, s, negative_idx as int);
                assert(cntw(d2, written, s, t) == posp(probs[s]));
            }
        }
        self.symbol_counter.clear();
        self.symbol_counter
            .resize(self.symbol_probabilities.len(), 0);
        for idx in 0..negative_idx 
            invariant
                valid_t(t), t == tsize(al as int), 5 <= al <= 9, table_size == t, self.decode@.len() == t, self.accuracy_log == al, self.max_symbol == msym,
                self.symbol_probabilities@ == probs, n == probs.len(), n <= msym + 1, negative_idx <= t, d2.len() == t,
                self.symbol_counter@.len() == n,
                forall|c: int| 0 <= c < t ==> (#[trigger] self.decode@[c]).symbol == d2[c].symbol,
                forall|c: int| 0 <= c < negative_idx ==> (#[trigger] d2[c]).symbol < n && probs[d2[c].symbol as int] > 0,
                forall|s: int| 0 <= s < n ==> #[trigger] cnt_sym(d2, s, negative_idx as int) == posp(probs[s]),
                forall|s: int| 0 <= s < n ==> #[trigger] self.symbol_counter@[s] == cnt_sym(d2, s, idx as int),
                forall|c: int| 0 <= c < idx ==> (#[trigger] self.decode@[c]).num_bits <= al && self.decode@[c].base_line + vstd::arithmetic::power2::pow2(self.decode@[c].num_bits as nat) <= t
                    && (self.decode@[c].base_line, self.decode@[c].num_bits) == rfc_state(t as u32, probs[d2[c].symbol as int] as u32, cnt_sym(d2, d2[c].symbol as int, c) as u32),
                forall|c: int| 0 <= c < negative_idx ==> spread_symbol_ok(probs, t, negative_idx as int, c, (#[trigger] d2[c]).symbol as int),
                negative_idx == t - num_neg(probs),
                top_ok(self.decode@, probs, negative_idx as int, t, al, msym),
{
            let ghost sy = self.decode@[idx as int].symbol as int;
            proof {
                assert(sy == d2[idx as int].symbol);
                lemma_cnt_sym_mono(d2, sy, idx as int + 1, negative_idx as int);
                lemma_cnt_sym_bounds(d2, sy, negative_idx as int);
            }

            let entry = &mut self.decode[idx];
            let symbol = entry.symbol;
            let prob = self.symbol_probabilities[symbol as usize];

            let symbol_count = self.symbol_counter[symbol as usize];
            let (bl, nb) = calc_baseline_and_numbits(table_size as u32, prob as u32, symbol_count);

            //println!("symbol: {:2}, table: {}, prob: {:3}, count: {:3}, bl: {:3}, nb: {:2}", symbol, table_size, prob, symbol_count, bl, nb);

            let verif_assert_cond_1: bool = nb <= self.accuracy_log; assert(verif_assert_cond_1);
            self.symbol_counter[symbol as usize] += 1;

            entry.base_line = bl;
            entry.num_bits = nb;
        }
        proof {
            assert(self.decode@.len() == (1u64 << self.accuracy_log));
            assert forall|i: int| 0 <= i < self.decode@.len() implies ({
                let e = #[trigger] self.decode@[i];
                e.num_bits <= self.accuracy_log && e.base_line as int + low_mask(e.num_bits as int) < self.decode@.len() && e.symbol <= self.max_symbol
            }) by {
                if i < negative_idx { assert(self.decode@[i].symbol == d2[i].symbol); }
            }
            let d = self.decode@;
            assert forall|c: int| 0 <= c < negative_idx implies spread_symbol_ok(probs, t, negative_idx as int, c, (#[trigger] d[c]).symbol as int)
                && probs[d[c].symbol as int] > 0
                && (d[c].base_line, d[c].num_bits) == rfc_state(t as u32, probs[d[c].symbol as int] as u32, cnt_sym(d, d[c].symbol as int, c) as u32) by {
                assert(d[c].symbol == d2[c].symbol);
                lemma_cnt_sym_same(d, d2, d[c].symbol as int, c);
            }
            assert(self.table_is_rfc());
        }
        Ok(())
    }
}

pub proof fn verif_canary_must_fail(x: int)
    requires x > 0,
    ensures x > 1,
{
}
} // verus!
fn main() {}
