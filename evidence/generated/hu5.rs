use vstd::prelude::*;
verus! {

global size_of usize == 8;

pub open spec fn fits(v: u64, n: usize) -> bool { n >= 64 || v < (1u64 << (n as u64)) }
pub uninterp spec fn into_u64<T>(v: T) -> u64;
pub broadcast axiom fn into_u64_u16(v: u16) ensures #[trigger] into_u64::<u16>(v) == v as u64;

pub assume_specification [usize::div_ceil] (a: usize, b: usize) -> (r: usize)
    requires b > 0,
    ensures r == (a + b - 1) / (b as int);

#[verifier::external_body]
pub struct BitWriter { _o: u8 }
impl BitWriter {
    pub uninterp spec fn idx(&self) -> int;
    /// ghost: the symbols encoded so far, in the order the streams were written
    pub uninterp spec fn symbols(&self) -> Seq<u8>;
    /// ghost: fields patched after the fact (bit position -> value)
    pub uninterp spec fn patched(&self) -> Map<int, u64>;
    #[verifier::external_body]
    pub fn index(&self) -> (r: usize) ensures r == self.idx(), { unimplemented!() }
    #[verifier::external_body]
    pub fn write_bits<T: Into<u64> + Copy>(&mut self, bits: T, num_bits: usize)
        requires num_bits <= 63, fits(into_u64(bits), num_bits), old(self).idx() + num_bits <= usize::MAX,
        ensures final(self).idx() == old(self).idx() + num_bits, final(self).symbols() == old(self).symbols(), final(self).patched() == old(self).patched(),
    { unimplemented!() }
    /// BW1.bw1_change_bits: the function's own asserts as preconditions
    #[verifier::external_body]
    pub fn change_bits<T: Into<u64> + Copy>(&mut self, idx: usize, bits: T, num_bits: usize)
        requires old(self).idx() % 8 == 0, idx + num_bits < old(self).idx(), idx % 8 == 0 || 8 - idx % 8 <= num_bits, fits(into_u64(bits), num_bits),
        ensures final(self).idx() == old(self).idx(), final(self).symbols() == old(self).symbols(),
            final(self).patched() == old(self).patched().insert(idx as int, into_u64(bits)),
    { unimplemented!() }
}

#[verifier::external_body]
pub struct HuffmanTable { _o: u8 }

pub struct HuffmanEncoder<'output, 'table> {
    pub table: &'table HuffmanTable,
    pub writer: &'output mut BitWriter,
}

/// the longest code a table may contain (RFC 8878 4.2.1: Max_Number_of_Bits = 11)
pub const MAX_CODE_BITS: usize = 11;

impl<'output, 'table> HuffmanEncoder<'output, 'table> {
    #[verifier::external_body]
    pub fn encode_stream(table: &HuffmanTable, writer: &mut BitWriter, data: &[u8])
        requires old(writer).idx() % 8 == 0, old(writer).idx() + MAX_CODE_BITS * data@.len() + 8 <= usize::MAX,
        ensures final(writer).idx() % 8 == 0, old(writer).idx() < final(writer).idx() <= old(writer).idx() + MAX_CODE_BITS * data@.len() + 8,
            final(writer).symbols() == old(writer).symbols() + data@, final(writer).patched() == old(writer).patched(),
    { unimplemented!() }
    #[verifier::external_body]
    pub fn write_table(&mut self)
        requires old(self).writer.idx() % 8 == 0, old(self).writer.idx() + 8 * 256 <= usize::MAX,
        ensures final(self).writer.idx() % 8 == 0, old(self).writer.idx() <= final(self).writer.idx() <= old(self).writer.idx() + 8 * 256,
            final(self).table == old(self).table, final(self).writer.symbols() == old(self).writer.symbols(), final(self).writer.patched() == old(self).writer.patched(),
    { unimplemented!() }

    pub fn encode4x(&mut self, data: &[u8], with_table: bool)
        requires
            1024 < data@.len() <= 0x20000,
            old(self).writer.idx() % 8 == 0, old(self).writer.idx() <= usize::MAX / 2,
        ensures
            final(self).writer.idx() % 8 == 0,
            final(self).writer.idx() > old(self).writer.idx() + 48,
            // the four streams together encode exactly the literals, each once, in order
            final(self).writer.symbols() == old(self).writer.symbols() + data@,
{
        proof { broadcast use into_u64_u16; assert((1u64 << 16u64) == 65536) by (bit_vector); }
        let verif_assert_cond_1: bool = data.len() >= 4; assert(verif_assert_cond_1);

        // Split data in 4 equally sized parts (the last one might be a bit smaller than the rest)
        let split_size = data.len().div_ceil(4);
        let src1 = &data[..split_size];
        let src2 = &data[split_size..split_size * 2];
        let src3 = &data[split_size * 2..split_size * 3];
        let src4 = &data[split_size * 3..];

        // Write table description
        if with_table {
            self.write_table();
        }

        // Reserve space for the jump table, will be changed later
        let size_idx = self.writer.index();
        self.writer.write_bits(0u16, 16);
        self.writer.write_bits(0u16, 16);
        self.writer.write_bits(0u16, 16);
        let ghost jt = self.writer.idx() - 48;      // where the 6-byte jump table starts
        let ghost b1 = self.writer.idx();

        // Write the 4 streams, noting the sizes of the encoded streams
        let index_before = self.writer.index();
        Self::encode_stream(self.table, self.writer, src1);
        let ghost b2 = self.writer.idx();
        let size1 = (self.writer.index() - index_before) / 8;

        let index_before = self.writer.index();
        Self::encode_stream(self.table, self.writer, src2);
        let ghost b3 = self.writer.idx();
        let size2 = (self.writer.index() - index_before) / 8;

        let index_before = self.writer.index();
        Self::encode_stream(self.table, self.writer, src3);
        let ghost b4 = self.writer.idx();
        let ghost p0 = self.writer.patched();
        let size3 = (self.writer.index() - index_before) / 8;

        Self::encode_stream(self.table, self.writer, src4);

        // Sanity check, if this doesn't hold we produce a broken stream
        let verif_assert_cond_2: bool = size1 <= u16::MAX as usize; assert(verif_assert_cond_2);
        let verif_assert_cond_3: bool = size2 <= u16::MAX as usize; assert(verif_assert_cond_3);
        let verif_assert_cond_4: bool = size3 <= u16::MAX as usize; assert(verif_assert_cond_4);

        // Update the jumptable with the real sizes
        self.writer.change_bits(size_idx, size1 as u16, 16);
        self.writer.change_bits(size_idx + 16, size2 as u16, 16);
        self.writer.change_bits(size_idx + 32, size3 as u16, 16);
            proof {
            assert(src1@ + src2@ + src3@ + src4@ =~= data@);
            // RFC 8878 4.2.2: the jump table holds the byte sizes of streams 1..3 as three little-endian 16-bit fields in front of the streams
            assert(self.writer.patched() =~= p0.insert(jt, ((b2 - b1) / 8) as u64).insert(jt + 16, ((b3 - b2) / 8) as u64).insert(jt + 32, ((b4 - b3) / 8) as u64));
        }
}

    pub fn encode(&mut self, data: &[u8], with_table: bool)
        requires
            data@.len() <= 0x20000,
            old(self).writer.idx() % 8 == 0, old(self).writer.idx() <= usize::MAX / 2,
        ensures
            final(self).writer.idx() % 8 == 0,
{
        if with_table {
            self.write_table();
        }
        Self::encode_stream(self.table, self.writer, data);
    }
}

pub proof fn verif_canary_must_fail(x: int)
    requires x > 0,
    ensures x > 1,
{
}
} // verus!
fn main() {}
