use vstd::prelude::*;
verus! {

global size_of usize == 8;

pub const MAX_LITERAL_LENGTH_CODE: u8 = 35;
pub const MAX_MATCH_LENGTH_CODE: u8 = 52;
pub const MAX_OFFSET_CODE: u8 = 31;

pub enum FSEDecoderError { TableIsUninitialized }
pub enum DecodeSequenceError {
    FSEDecoderError(FSEDecoderError),
    MissingByteForRleLlTable,
    MissingByteForRleOfTable,
    MissingByteForRleMlTable,
    ExtraPadding { skipped_bits: i32 },
    UnsupportedOffset { offset_code: u8 },
    ZeroOffset,
    NotEnoughBytesForNumSequences,
    ExtraBits { bits_remaining: isize },
    MissingCompressionMode,
    Other,
}
impl vstd::std_specs::convert::FromSpecImpl<FSEDecoderError> for DecodeSequenceError {
    open spec fn obeys_from_spec() -> bool { true }
    open spec fn from_spec(v: FSEDecoderError) -> Self { DecodeSequenceError::FSEDecoderError(v) }
}
impl From<FSEDecoderError> for DecodeSequenceError {
    fn from(val: FSEDecoderError) -> Self {
        Self::FSEDecoderError(val)
    }
}

/// every panic!/unreachable! of the extracted code becomes a call of this: it must be proved unreachable
#[verifier::external_body]
pub fn vpanic() -> !
    requires false,
{ panic!() }

// ---- abstract BitReaderReversed: exactly the contracts Verus unit BRR1 proves on the verbatim bodies ----
pub open spec fn low_mask(n: u8) -> u64 { ((1u64 << n) - 1) as u64 }
pub const EXTRA_LIMIT: usize = 0x4000_0000_0000_0000;

#[verifier::external_body]
pub struct BitReaderReversed<'s> { _s: &'s [u8] }
impl<'s> BitReaderReversed<'s> {
    pub uninterp spec fn wf(&self) -> bool;
    pub uninterp spec fn remaining(&self) -> int;
    pub uninterp spec fn extra(&self) -> int;
    pub uninterp spec fn src_len(&self) -> int;

    #[verifier::external_body]
    pub fn new(source: &'s [u8]) -> (r: BitReaderReversed<'s>)
        requires source@.len() <= 0x1_0000_0000,
        ensures r.wf(), r.remaining() == 8 * source@.len(), r.extra() == 0, r.src_len() == source@.len(),
    { unimplemented!() }
    #[verifier::external_body]
    pub fn bits_remaining(&self) -> (r: isize)
        requires self.wf(),
        ensures r == self.remaining(), 0 <= self.extra() <= 8 * self.src_len() + 64 - self.remaining(), self.src_len() <= 0x1_0000_0000,
    { unimplemented!() }
    #[verifier::external_body]
    pub fn get_bits(&mut self, n: u8) -> (r: u64)
        requires old(self).wf(), n <= 56, old(self).extra() + 64 <= EXTRA_LIMIT,
        ensures final(self).wf(), final(self).remaining() == old(self).remaining() - n, r <= low_mask(n),
                old(self).extra() <= final(self).extra() <= old(self).extra() + 64, final(self).src_len() == old(self).src_len(),
    { unimplemented!() }
    #[verifier::external_body]
    pub fn get_bits_triple(&mut self, n1: u8, n2: u8, n3: u8) -> (r: (u64, u64, u64))
        requires old(self).wf(), n1 <= 56, n2 <= 56, n3 <= 56, old(self).extra() + 192 <= EXTRA_LIMIT,
        ensures final(self).wf(), final(self).remaining() == old(self).remaining() - (n1 + n2 + n3),
                r.0 <= low_mask(n1), r.1 <= low_mask(n2), r.2 <= low_mask(n3),
                old(self).extra() <= final(self).extra() <= old(self).extra() + 192, final(self).src_len() == old(self).src_len(),
    { unimplemented!() }
}


#[derive(Copy, Clone)]
pub struct Entry { pub base_line: u32, pub num_bits: u8, pub symbol: u8 }

pub struct FSETable {
    pub max_symbol: u8,
    pub decode: Vec<Entry>,
    pub accuracy_log: u8,
}

impl FSETable {
    /// what table construction must establish and stepping relies on
    pub open spec fn table_wf(&self) -> bool {
        self.accuracy_log != 0 ==> (
            self.accuracy_log <= 9
            && self.decode@.len() == (1u64 << self.accuracy_log)
            && forall|i: int| 0 <= i < self.decode@.len() ==> {
                let e = #[trigger] self.decode@[i];
                e.num_bits <= self.accuracy_log && e.base_line as int + low_mask(e.num_bits) < self.decode@.len() && e.symbol <= self.max_symbol
            })
    }
}

pub struct FSEDecoder<'table> {
    pub state: Entry,
    pub table: &'table FSETable,
}

impl<'t> FSEDecoder<'t> {
    /// the current state is a cell of the table (after init_state) - what update_state needs
    pub open spec fn state_ok(&self) -> bool {
        self.table.table_wf() && self.table.accuracy_log != 0
        && self.state.num_bits <= self.table.accuracy_log
        && self.state.base_line as int + low_mask(self.state.num_bits) < self.table.decode@.len()
        && self.state.symbol <= self.table.max_symbol
    }

    pub fn new(table: &'t FSETable) -> (r: FSEDecoder<'t>)
        ensures r.table == table,
{
        FSEDecoder {
            state: first_or(&table.decode, Entry {
                base_line: 0,
                num_bits: 0,
                symbol: 0,
            }),
            table,
        }
    }

    pub fn decode_symbol(&self) -> (r: u8)
        ensures r == self.state.symbol,
{
        self.state.symbol
    }

    pub fn init_state(&mut self, bits: &mut BitReaderReversed<'_>) -> (r: Result<(), FSEDecoderError>)
        requires old(self).table.table_wf(), old(bits).wf(), old(bits).extra() + 64 <= EXTRA_LIMIT,
        ensures
            final(self).table == old(self).table, final(bits).wf(),
            r is Err <==> old(self).table.accuracy_log == 0,
            r is Err ==> *final(bits) == *old(bits),
            r is Ok ==> final(self).state_ok() && final(bits).remaining() == old(bits).remaining() - old(self).table.accuracy_log,
            old(bits).extra() <= final(bits).extra() <= old(bits).extra() + 64, final(bits).src_len() == old(bits).src_len(),
{
        proof { lemma_shift_facts(); }
        if self.table.accuracy_log == 0 {
            return Err(FSEDecoderError::TableIsUninitialized);
        }
        let new_state = bits.get_bits(self.table.accuracy_log);
        self.state = self.table.decode[new_state as usize];

        Ok(())
    }

    pub fn update_state(&mut self, bits: &mut BitReaderReversed<'_>)
        requires old(self).state_ok(), old(bits).wf(), old(bits).extra() + 64 <= EXTRA_LIMIT,
        ensures
            final(self).table == old(self).table, final(self).state_ok(), final(bits).wf(),
            final(bits).remaining() == old(bits).remaining() - old(self).state.num_bits,
            old(bits).extra() <= final(bits).extra() <= old(bits).extra() + 64, final(bits).src_len() == old(bits).src_len(),
{
        proof { lemma_shift_facts(); }
        let num_bits = self.state.num_bits;
        let add = bits.get_bits(num_bits);
        let base_line = self.state.base_line;
        let new_state = base_line + add as u32;
        self.state = self.table.decode[new_state as usize];

        //println!("Update: {}, {} -> {}", base_line, add,  self.state);
    }
}


#[derive(Clone, Copy)]
pub struct Sequence { pub ll: u32, pub ml: u32, pub of: u32 }

#[derive(Clone, Copy)]
pub struct CompressionModes(pub u8);

pub struct SequencesHeader {
    pub num_sequences: u32,
    pub modes: Option<CompressionModes>,
}

pub struct FSEScratch {
    pub offsets: FSETable,
    pub of_rle: Option<u8>,
    pub literal_lengths: FSETable,
    pub ll_rle: Option<u8>,
    pub match_lengths: FSETable,
    pub ml_rle: Option<u8>,
}

impl FSEScratch {
    /// tables well-formed, alphabets those of the three code types, RLE symbols inside their alphabets
    pub open spec fn wf(&self) -> bool {
        self.offsets.table_wf() && self.literal_lengths.table_wf() && self.match_lengths.table_wf()
        && self.offsets.max_symbol == MAX_OFFSET_CODE && self.literal_lengths.max_symbol == MAX_LITERAL_LENGTH_CODE
        && self.match_lengths.max_symbol == MAX_MATCH_LENGTH_CODE
        && (self.ll_rle matches Some(x) ==> x <= MAX_LITERAL_LENGTH_CODE)
        && (self.ml_rle matches Some(x) ==> x <= MAX_MATCH_LENGTH_CODE)
        // the offset RLE symbol is checked again at use (UnsupportedOffset), no range needed
    }
}

pub enum FSETableError { Any }
impl vstd::std_specs::convert::FromSpecImpl<FSETableError> for DecodeSequenceError {
    open spec fn obeys_from_spec() -> bool { true }
    open spec fn from_spec(v: FSETableError) -> Self { DecodeSequenceError::Other }
}
impl From<FSETableError> for DecodeSequenceError {
    fn from(val: FSETableError) -> Self {
        Self::Other
    }
}

impl FSETable {
    /// abstract: "this is the predefined table of RFC 8878 Appendix A for this code type" (its content is Kani obligation F2C.*)
    pub uninterp spec fn is_predefined(&self, which: int) -> bool;

    /// F3 + F2 (abstract here): parse a table description and build the decoding table
    #[verifier::external_body]
    pub fn build_decoder(&mut self, source: &[u8], max_log: u8) -> (r: Result<usize, FSETableError>)
        // contract of FSETable::build_decoder: PROVED in unit F2 (on the verbatim body), ASSUMED wherever the table type is abstract (Q2, HU2V)
        requires max_log <= 9, source@.len() <= 0x1_0000_0000,
            // RFC 8878 3.1.1.3.2.1.1: the offset table (the only one whose alphabet ends at code 31) allows accuracy logs up to 8 only
            old(self).max_symbol == 31 ==> max_log <= 8,
        ensures
            final(self).max_symbol == old(self).max_symbol,
            r matches Ok(n) ==> n <= source@.len() && final(self).table_wf() && final(self).accuracy_log != 0,

    { unimplemented!() }

    /// F2 on the three predefined distributions (abstract here)
    #[verifier::external_body]
    pub fn build_from_probabilities(&mut self, acc_log: u8, probs: &Vec<i32>) -> (r: Result<(), FSETableError>)
        requires is_default_dist(acc_log, probs@) != 0,
        ensures
            final(self).max_symbol == old(self).max_symbol,
            r is Ok ==> final(self).table_wf() && final(self).accuracy_log != 0 && final(self).is_predefined(is_default_dist(acc_log, probs@)),
    { unimplemented!() }
}

/// 1 / 2 / 3 when (acc_log, probs) is the predefined literal-length / offset / match-length distribution, else 0
pub uninterp spec fn is_default_dist(acc_log: u8, probs: Seq<i32>) -> int;

pub const LL_DEFAULT_ACC_LOG: u8 = 6;
pub const ML_DEFAULT_ACC_LOG: u8 = 6;
pub const OF_DEFAULT_ACC_LOG: u8 = 5;
pub const LL_MAX_LOG: u8 = 9;
pub const ML_MAX_LOG: u8 = 9;
pub const OF_MAX_LOG: u8 = 8;

/// `Vec::from(&LITERALS_LENGTH_DEFAULT_DISTRIBUTION[..])` etc. (the constants' content is checked against RFC Appendix A by Kani F2C.*)
#[verifier::external_body]
pub fn ll_default_distribution() -> (r: Vec<i32>) ensures is_default_dist(LL_DEFAULT_ACC_LOG, r@) == 1 { unimplemented!() }
#[verifier::external_body]
pub fn of_default_distribution() -> (r: Vec<i32>) ensures is_default_dist(OF_DEFAULT_ACC_LOG, r@) == 2 { unimplemented!() }
#[verifier::external_body]
pub fn ml_default_distribution() -> (r: Vec<i32>) ensures is_default_dist(ML_DEFAULT_ACC_LOG, r@) == 3 { unimplemented!() }

pub enum ModeType { Predefined, RLE, FSECompressed, Repeat }

impl CompressionModes {
    pub fn decode_mode(m: u8) -> (r: ModeType)
        requires m <= 3,
        ensures (m == 0 <==> r is Predefined) && (m == 1 <==> r is RLE) && (m == 2 <==> r is FSECompressed) && (m == 3 <==> r is Repeat),
{
        match m {
            0 => ModeType::Predefined,
            1 => ModeType::RLE,
            2 => ModeType::FSECompressed,
            3 => ModeType::Repeat,
            _ => vpanic(),
        }
    }
    pub fn ll_mode(self) -> (r: ModeType)
        ensures r == spec_mode(self.0 >> 6),
{
        proof { let x = self.0; assert((x >> 6) <= 3) by (bit_vector); }
        Self::decode_mode(self.0 >> 6)
    }
    pub fn of_mode(self) -> (r: ModeType)
        ensures r == spec_mode((self.0 >> 4) & 3),
{
        proof { let x = self.0; assert(((x >> 4) & 3) <= 3) by (bit_vector); }
        Self::decode_mode((self.0 >> 4) & 0x3)
    }
    pub fn ml_mode(self) -> (r: ModeType)
        ensures r == spec_mode((self.0 >> 2) & 3),
{
        proof { let x = self.0; assert(((x >> 2) & 3) <= 3) by (bit_vector); }
        Self::decode_mode((self.0 >> 2) & 0x3)
    }
}
/// RFC 3.1.1.3.2.1: 0 Predefined, 1 RLE, 2 FSE compressed, 3 Repeat
pub open spec fn spec_mode(m: u8) -> ModeType {
    if m == 0 { ModeType::Predefined } else if m == 1 { ModeType::RLE } else if m == 2 { ModeType::FSECompressed } else { ModeType::Repeat }
}

pub fn maybe_update_fse_tables(
    section: &SequencesHeader,
    source: &[u8],
    scratch: &mut FSEScratch,
) -> (r: Result<usize, DecodeSequenceError>)
    requires old(scratch).wf(), source@.len() <= 0x1_0000_0000,
    ensures
        r matches Ok(n) ==> n <= source@.len() && final(scratch).wf(),
        // per mode (literal lengths; the other two are symmetric and read the bytes that follow)
        r is Ok && section.modes is Some ==> ({
            let m = section.modes->0;
            (spec_mode(m.0 >> 6) is Repeat ==> final(scratch).literal_lengths == old(scratch).literal_lengths && final(scratch).ll_rle == old(scratch).ll_rle)
            && (spec_mode(m.0 >> 6) is RLE ==> source@.len() >= 1 && final(scratch).ll_rle == Some(source@[0]) && final(scratch).literal_lengths == old(scratch).literal_lengths)
            && (spec_mode(m.0 >> 6) is Predefined ==> final(scratch).ll_rle is None && final(scratch).literal_lengths.is_predefined(1))
            && (spec_mode(m.0 >> 6) is FSECompressed ==> final(scratch).ll_rle is None)
            && (spec_mode((m.0 >> 4) & 3) is Repeat ==> final(scratch).offsets == old(scratch).offsets && final(scratch).of_rle == old(scratch).of_rle)
            && (spec_mode((m.0 >> 4) & 3) is Predefined ==> final(scratch).of_rle is None && final(scratch).offsets.is_predefined(2))
            && (spec_mode((m.0 >> 4) & 3) is FSECompressed ==> final(scratch).of_rle is None)
            && (spec_mode((m.0 >> 4) & 3) is RLE ==> final(scratch).of_rle is Some && final(scratch).offsets == old(scratch).offsets)
            && (spec_mode((m.0 >> 2) & 3) is Repeat ==> final(scratch).match_lengths == old(scratch).match_lengths && final(scratch).ml_rle == old(scratch).ml_rle)
            && (spec_mode((m.0 >> 2) & 3) is Predefined ==> final(scratch).ml_rle is None && final(scratch).match_lengths.is_predefined(3))
            && (spec_mode((m.0 >> 2) & 3) is FSECompressed ==> final(scratch).ml_rle is None)
            && (spec_mode((m.0 >> 2) & 3) is RLE ==> final(scratch).ml_rle is Some && final(scratch).match_lengths == old(scratch).match_lengths)
        }),
        r is Ok ==> section.modes is Some,
{
    let modes = section
        .modes
        .ok_or(DecodeSequenceError::MissingCompressionMode)?;

    let mut bytes_read = 0;

    match modes.ll_mode() {
        ModeType::FSECompressed => {
            let bytes = scratch.literal_lengths.build_decoder(source, LL_MAX_LOG)?;
            bytes_read += bytes;

            
            
            scratch.ll_rle = None;
        }
        ModeType::RLE => {
            
            if source.is_empty() {
                return Err(DecodeSequenceError::MissingByteForRleLlTable);
            }
            bytes_read += 1;
            if source[0] > MAX_LITERAL_LENGTH_CODE {
                return Err(DecodeSequenceError::MissingByteForRleMlTable);
            }
            scratch.ll_rle = Some(source[0]);
        }
        ModeType::Predefined => {
            
            scratch.literal_lengths.build_from_probabilities(
                LL_DEFAULT_ACC_LOG,
                &ll_default_distribution(),
            )?;
            scratch.ll_rle = None;
        }
        ModeType::Repeat => {
            
            /* Nothing to do */
        }
    };

    let of_source = &source[bytes_read..];

    match modes.of_mode() {
        ModeType::FSECompressed => {
            let bytes = scratch.offsets.build_decoder(of_source, OF_MAX_LOG)?;
            
            
            bytes_read += bytes;
            scratch.of_rle = None;
        }
        ModeType::RLE => {
            
            if of_source.is_empty() {
                return Err(DecodeSequenceError::MissingByteForRleOfTable);
            }
            bytes_read += 1;
            if of_source[0] > MAX_OFFSET_CODE {
                return Err(DecodeSequenceError::MissingByteForRleMlTable);
            }
            scratch.of_rle = Some(of_source[0]);
        }
        ModeType::Predefined => {
            
            scratch.offsets.build_from_probabilities(
                OF_DEFAULT_ACC_LOG,
                &of_default_distribution(),
            )?;
            scratch.of_rle = None;
        }
        ModeType::Repeat => {
            
            /* Nothing to do */
        }
    };

    let ml_source = &source[bytes_read..];

    match modes.ml_mode() {
        ModeType::FSECompressed => {
            let bytes = scratch.match_lengths.build_decoder(ml_source, ML_MAX_LOG)?;
            bytes_read += bytes;
            
            
            scratch.ml_rle = None;
        }
        ModeType::RLE => {
            
            if ml_source.is_empty() {
                return Err(DecodeSequenceError::MissingByteForRleMlTable);
            }
            bytes_read += 1;
            if ml_source[0] > MAX_MATCH_LENGTH_CODE {
                return Err(DecodeSequenceError::MissingByteForRleMlTable);
            }
            scratch.ml_rle = Some(ml_source[0]);
        }
        ModeType::Predefined => {
            
            scratch.match_lengths.build_from_probabilities(
                ML_DEFAULT_ACC_LOG,
                &ml_default_distribution(),
            )?;
            scratch.ml_rle = None;
        }
        ModeType::Repeat => {
            
            /* Nothing to do */
        }
    };

    Ok(bytes_read)
}

pub open spec fn seq_ok(s: Sequence) -> bool {
    s.of >= 1 && s.ll <= 131071 && 3 <= s.ml <= 131074
}

pub fn lookup_ll_code(code: u8) -> (r: (u32, u8))
    requires code <= 35,
    ensures r.1 <= 16, r.0 as int + low_mask(r.1) <= 131071,
{
    proof { lemma_mask_facts(); }
    match code {
        0..=15 => (u32::from(code), 0),
        16 => (16, 1),
        17 => (18, 1),
        18 => (20, 1),
        19 => (22, 1),
        20 => (24, 2),
        21 => (28, 2),
        22 => (32, 3),
        23 => (40, 3),
        24 => (48, 4),
        25 => (64, 6),
        26 => (128, 7),
        27 => (256, 8),
        28 => (512, 9),
        29 => (1024, 10),
        30 => (2048, 11),
        31 => (4096, 12),
        32 => (8192, 13),
        33 => (16384, 14),
        34 => (32768, 15),
        35 => (65536, 16),
        _ => vpanic(),
    }
}

pub fn lookup_ml_code(code: u8) -> (r: (u32, u8))
    requires code <= 52,
    ensures r.1 <= 16, r.0 >= 3, r.0 as int + low_mask(r.1) <= 131074,
{
    proof { lemma_mask_facts(); }
    match code {
        0..=31 => (u32::from(code) + 3, 0),
        32 => (35, 1),
        33 => (37, 1),
        34 => (39, 1),
        35 => (41, 1),
        36 => (43, 2),
        37 => (47, 2),
        38 => (51, 3),
        39 => (59, 3),
        40 => (67, 4),
        41 => (83, 4),
        42 => (99, 5),
        43 => (131, 7),
        44 => (259, 8),
        45 => (515, 9),
        46 => (1027, 10),
        47 => (2051, 11),
        48 => (4099, 12),
        49 => (8195, 13),
        50 => (16387, 14),
        51 => (32771, 15),
        52 => (65539, 16),
        _ => vpanic(),
    }
}

pub proof fn lemma_mask_facts()
    ensures
        low_mask(0) == 0, low_mask(1) == 1, low_mask(2) == 3, low_mask(3) == 7, low_mask(4) == 15, low_mask(5) == 31, low_mask(6) == 63,
        low_mask(7) == 127, low_mask(8) == 255, low_mask(9) == 511, low_mask(10) == 1023, low_mask(11) == 2047, low_mask(12) == 4095,
        low_mask(13) == 8191, low_mask(14) == 16383, low_mask(15) == 32767, low_mask(16) == 65535,
        forall|n: u8| n <= 31 ==> #[trigger] low_mask(n) + (1u32 << n) <= 0xffff_ffff && (1u32 << n) >= 1,
{
    assert(forall|n: u8| n <= 31 ==> #[trigger] (((1u64 << n) - 1) as u64) <= 0x7fff_ffffu64 && (1u32 << n) <= 0x8000_0000u32 && (1u32 << n) >= 1u32) by (bit_vector);
    assert(((1u64 << 0u8) - 1) as u64 == 0 && ((1u64 << 1u8) - 1) as u64 == 1 && ((1u64 << 2u8) - 1) as u64 == 3 && ((1u64 << 3u8) - 1) as u64 == 7
        && ((1u64 << 4u8) - 1) as u64 == 15 && ((1u64 << 5u8) - 1) as u64 == 31 && ((1u64 << 6u8) - 1) as u64 == 63 && ((1u64 << 7u8) - 1) as u64 == 127
        && ((1u64 << 8u8) - 1) as u64 == 255 && ((1u64 << 9u8) - 1) as u64 == 511 && ((1u64 << 10u8) - 1) as u64 == 1023 && ((1u64 << 11u8) - 1) as u64 == 2047
        && ((1u64 << 12u8) - 1) as u64 == 4095 && ((1u64 << 13u8) - 1) as u64 == 8191 && ((1u64 << 14u8) - 1) as u64 == 16383
        && ((1u64 << 15u8) - 1) as u64 == 32767 && ((1u64 << 16u8) - 1) as u64 == 65535) by (bit_vector);
}

pub fn decode_sequences_without_rle(
    section: &SequencesHeader,
    br: &mut BitReaderReversed<'_>,
    scratch: &FSEScratch,
    target: &mut Vec<Sequence>,
) -> (r: Result<(), DecodeSequenceError>)
    requires
        scratch.wf(), old(br).wf(), old(br).extra() <= 640,
    ensures
        r is Ok ==> final(target)@.len() == section.num_sequences && final(br).remaining() <= 0
            && (section.num_sequences > 0 ==> final(br).remaining() == 0)     // every bit of the stream was consumed, none missing
            && forall|i: int| 0 <= i < final(target)@.len() ==> seq_ok(#[trigger] final(target)@[i]),
{
    let mut ll_dec = FSEDecoder::new(&scratch.literal_lengths);
    let mut ml_dec = FSEDecoder::new(&scratch.match_lengths);
    let mut of_dec = FSEDecoder::new(&scratch.offsets);

    ll_dec.init_state(br)?;
    of_dec.init_state(br)?;
    ml_dec.init_state(br)?;

    target.clear();
    target.reserve(section.num_sequences as usize);

    for _seq_idx in 0..section.num_sequences 
        invariant
            scratch.wf(), br.wf(),
            ll_dec.table == &scratch.literal_lengths, ml_dec.table == &scratch.match_lengths, of_dec.table == &scratch.offsets,
            ll_dec.state_ok(), ml_dec.state_ok(), of_dec.state_ok(),
            target@.len() == _seq_idx,
            _seq_idx > 0 ==> br.remaining() >= 0,
            br.extra() <= 832 + 384 * _seq_idx,
            forall|i: int| 0 <= i < target@.len() ==> seq_ok(#[trigger] target@[i]),
{
        let ll_code = ll_dec.decode_symbol();
        let ml_code = ml_dec.decode_symbol();
        let of_code = of_dec.decode_symbol();

        let (ll_value, ll_num_bits) = lookup_ll_code(ll_code);
        let (ml_value, ml_num_bits) = lookup_ml_code(ml_code);

        if of_code > MAX_OFFSET_CODE {
            return Err(DecodeSequenceError::UnsupportedOffset {
                offset_code: of_code,
            });
        }

        proof { lemma_mask_facts(); }
        let (obits, ml_add, ll_add) = br.get_bits_triple(of_code, ml_num_bits, ll_num_bits);
        let offset = obits as u32 + (1u32 << of_code);

        if offset == 0 {
            return Err(DecodeSequenceError::ZeroOffset);
        }

        target.push(Sequence {
            ll: ll_value + ll_add as u32,
            ml: ml_value + ml_add as u32,
            of: offset,
        });

        if target.len() < section.num_sequences as usize {
            //println!(
            //    "Bits left: {} ({} bytes)",
            //    br.bits_remaining(),
            //    br.bits_remaining() / 8,
            //);
            ll_dec.update_state(br);
            ml_dec.update_state(br);
            of_dec.update_state(br);
        }

        if br.bits_remaining() < 0 {
            return Err(DecodeSequenceError::NotEnoughBytesForNumSequences);
        }
    }

    if br.bits_remaining() > 0 {
        Err(DecodeSequenceError::ExtraBits {
            bits_remaining: br.bits_remaining(),
        })
    } else {
        Ok(())
    }
}

pub fn decode_sequences_with_rle(
    section: &SequencesHeader,
    br: &mut BitReaderReversed<'_>,
    scratch: &FSEScratch,
    target: &mut Vec<Sequence>,
) -> (r: Result<(), DecodeSequenceError>)
    requires
        scratch.wf(), old(br).wf(), old(br).extra() <= 640,
    ensures
        r is Ok ==> final(target)@.len() == section.num_sequences && final(br).remaining() <= 0
            && (section.num_sequences > 0 ==> final(br).remaining() == 0)     // every bit of the stream was consumed, none missing
            && forall|i: int| 0 <= i < final(target)@.len() ==> seq_ok(#[trigger] final(target)@[i]),
{
    let mut ll_dec = FSEDecoder::new(&scratch.literal_lengths);
    let mut ml_dec = FSEDecoder::new(&scratch.match_lengths);
    let mut of_dec = FSEDecoder::new(&scratch.offsets);

    if scratch.ll_rle.is_none() {
        ll_dec.init_state(br)?;
    }
    if scratch.of_rle.is_none() {
        of_dec.init_state(br)?;
    }
    if scratch.ml_rle.is_none() {
        ml_dec.init_state(br)?;
    }

    target.clear();
    target.reserve(section.num_sequences as usize);

    for _seq_idx in 0..section.num_sequences 
        invariant
            scratch.wf(), br.wf(),
            ll_dec.table == &scratch.literal_lengths, ml_dec.table == &scratch.match_lengths, of_dec.table == &scratch.offsets,
            scratch.ll_rle is None ==> ll_dec.state_ok(),
            scratch.ml_rle is None ==> ml_dec.state_ok(),
            scratch.of_rle is None ==> of_dec.state_ok(),
            target@.len() == _seq_idx,
            _seq_idx > 0 ==> br.remaining() >= 0,
            br.extra() <= 832 + 384 * _seq_idx,
            forall|i: int| 0 <= i < target@.len() ==> seq_ok(#[trigger] target@[i]),
{
        //get the codes from either the RLE byte or from the decoder
        let ll_code = if let Some(ll_rle) = scratch.ll_rle {
            ll_rle
        } else {
            ll_dec.decode_symbol()
        };
        let ml_code = if let Some(ml_rle) = scratch.ml_rle {
            ml_rle
        } else {
            ml_dec.decode_symbol()
        };
        let of_code = if let Some(of_rle) = scratch.of_rle {
            of_rle
        } else {
            of_dec.decode_symbol()
        };

        let (ll_value, ll_num_bits) = lookup_ll_code(ll_code);
        let (ml_value, ml_num_bits) = lookup_ml_code(ml_code);

        //println!("Sequence: {}", i);
        //println!("of stat: {}", of_dec.state);
        //println!("of Code: {}", of_code);
        //println!("ll stat: {}", ll_dec.state);
        //println!("ll bits: {}", ll_num_bits);
        //println!("ll Code: {}", ll_value);
        //println!("ml stat: {}", ml_dec.state);
        //println!("ml bits: {}", ml_num_bits);
        //println!("ml Code: {}", ml_value);
        //println!("");

        if of_code > MAX_OFFSET_CODE {
            return Err(DecodeSequenceError::UnsupportedOffset {
                offset_code: of_code,
            });
        }

        proof { lemma_mask_facts(); }
        let (obits, ml_add, ll_add) = br.get_bits_triple(of_code, ml_num_bits, ll_num_bits);
        let offset = obits as u32 + (1u32 << of_code);

        if offset == 0 {
            return Err(DecodeSequenceError::ZeroOffset);
        }

        target.push(Sequence {
            ll: ll_value + ll_add as u32,
            ml: ml_value + ml_add as u32,
            of: offset,
        });

        if target.len() < section.num_sequences as usize {
            //println!(
            //    "Bits left: {} ({} bytes)",
            //    br.bits_remaining(),
            //    br.bits_remaining() / 8,
            //);
            if scratch.ll_rle.is_none() {
                ll_dec.update_state(br);
            }
            if scratch.ml_rle.is_none() {
                ml_dec.update_state(br);
            }
            if scratch.of_rle.is_none() {
                of_dec.update_state(br);
            }
        }

        if br.bits_remaining() < 0 {
            return Err(DecodeSequenceError::NotEnoughBytesForNumSequences);
        }
    }

    if br.bits_remaining() > 0 {
        Err(DecodeSequenceError::ExtraBits {
            bits_remaining: br.bits_remaining(),
        })
    } else {
        Ok(())
    }
}

pub fn decode_sequences(
    section: &SequencesHeader,
    source: &[u8],
    scratch: &mut FSEScratch,
    target: &mut Vec<Sequence>,
) -> (r: Result<(), DecodeSequenceError>)
    requires
        old(scratch).wf(), source@.len() <= 0x1_0000_0000,
    ensures
        final(scratch).wf() || r is Err,
        r is Ok ==> final(target)@.len() == section.num_sequences
            && forall|i: int| 0 <= i < final(target)@.len() ==> seq_ok(#[trigger] final(target)@[i]),
{
    let bytes_read = maybe_update_fse_tables(section, source, scratch)?;

    

    let bit_stream = &source[bytes_read..];

    let mut br = BitReaderReversed::new(bit_stream);

    //skip the 0 padding at the end of the last byte of the bit stream and throw away the first 1 found
    let mut skipped_bits = 0;
    loop 
        invariant_except_break skipped_bits <= 8,
        invariant br.wf(), 0 <= skipped_bits <= 9, br.extra() <= 64 * skipped_bits, scratch.wf(),
        decreases 9 - skipped_bits,
{
        let val = br.get_bits(1);
        skipped_bits += 1;
        if val == 1 || skipped_bits > 8 {
            break;
        }
    }
    if skipped_bits > 8 {
        //if more than 7 bits are 0, this is not the correct end of the bitstream. Either a bug or corrupted data
        return Err(DecodeSequenceError::ExtraPadding { skipped_bits });
    }

    if scratch.ll_rle.is_some() || scratch.ml_rle.is_some() || scratch.of_rle.is_some() {
        decode_sequences_with_rle(section, &mut br, scratch, target)
    } else {
        decode_sequences_without_rle(section, &mut br, scratch, target)
    }
}

/// `v.first().copied().unwrap_or(d)` (iterator-free form; Verus has no spec for slice::first + Option::copied)
pub fn first_or(v: &Vec<Entry>, d: Entry) -> (r: Entry) {
    if v.len() > 0 { v[0] } else { d }
}

pub proof fn lemma_shift_facts()
    ensures
        forall|n: u8| n <= 9 ==> #[trigger] low_mask(n) < (1u64 << 9) && low_mask(n) + 1 == (1u64 << n),
        forall|n: u8| n <= 9 ==> (#[trigger] (1u64 << n)) <= 512,
{
    assert(forall|n: u8| n <= 9 ==> #[trigger] (((1u64 << n) - 1) as u64) < (1u64 << 9) && (((1u64 << n) - 1) as u64) + 1 == (1u64 << n)) by (bit_vector);
    assert(forall|n: u8| n <= 9 ==> (#[trigger] (1u64 << n)) <= 512) by (bit_vector);
}

pub proof fn verif_canary_must_fail(x: int)
    requires x > 0,
    ensures x > 1,
{
}
} // verus!
fn main() {}
