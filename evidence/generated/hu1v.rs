use vstd::prelude::*;
verus! {

global size_of usize == 8;

#[verifier::external_body]
pub fn vpanic() -> !
    requires false,
{ panic!() }

pub enum HuffmanTableError {
    WeightBiggerThanMaxNumBits { got: u8 },
    MissingWeights,
    LeftoverIsNotAPowerOf2 { got: u32 },
    MaxBitsTooHigh { got: u8 },
}

pub const MAX_MAX_NUM_BITS: u8 = 11;

#[derive(Copy, Clone)]
pub struct Entry { pub symbol: u8, pub num_bits: u8 }

pub struct HuffmanTable {
    pub decode: Vec<Entry>,
    pub weights: Vec<u8>,
    pub max_num_bits: u8,
    pub bits: Vec<u8>,
    pub bit_ranks: Vec<u32>,
    pub rank_indexes: Vec<usize>,
}

/// 2^k
pub open spec fn p2(k: int) -> int
    decreases k,
{
    if k <= 0 { 1 } else { 2 * p2(k - 1) }
}
pub proof fn lemma_p2_pos(k: int)
    ensures p2(k) >= 1,
    decreases k,
{
    if k > 0 { lemma_p2_pos(k - 1); }
}
pub proof fn lemma_p2_mono(a: int, b: int)
    requires 0 <= a <= b,
    ensures p2(a) <= p2(b),
    decreases b - a,
{
    lemma_p2_pos(a);
    if a < b { lemma_p2_mono(a, b - 1); lemma_p2_pos(b - 1); }
}
pub proof fn lemma_p2_strict(a: int, b: int)
    requires 0 <= a < b,
    ensures p2(a) < p2(b),
{
    lemma_p2_mono(a, b - 1);
    lemma_p2_pos(b - 1);
}
pub proof fn lemma_shl_u32(k: u32)
    requires k <= 31,
    ensures (1u32 << k) == p2(k as int),
    decreases k,
{
    if k == 0 {
        assert((1u32 << 0u32) == 1) by (bit_vector);
    } else {
        lemma_shl_u32((k - 1) as u32);
        let j = (k - 1) as u32;
        assert(j < 31 ==> (1u32 << ((j + 1) as u32)) == 2 * (1u32 << j)) by (bit_vector);
    }
}
pub proof fn lemma_shl_u32_u8(k: u8)
    requires k <= 31,
    ensures (1u32 << k) == p2(k as int), (1_u32 << k) >= 1,
{
    lemma_shl_u32(k as u32);
    lemma_p2_pos(k as int);
    assert(k <= 31 ==> (1u32 << k) == (1u32 << (k as u32))) by (bit_vector);
}
pub proof fn lemma_shl_usize(k: u8)
    requires k <= 31,
    ensures (1usize << k) == p2(k as int),
{
    lemma_shl_u32(k as u32);
    assert(k <= 31 ==> (1usize << k) == (1u32 << (k as u32)) as usize) by (bit_vector);
}

/// F1 (Kani): 1-based index of the highest set bit
#[verifier::external_body]
pub fn highest_bit_set(x: u32) -> (r: u32)
    requires x > 0,
    ensures 1 <= r <= 32, p2(r - 1) <= x, (x as int) < p2(r as int),
{ unimplemented!() }

pub open spec fn ispow2(x: int) -> bool { exists|k: int| 0 <= k && x == p2(k) }
pub assume_specification [u32::is_power_of_two](x: u32) -> (r: bool)
    ensures r == ispow2(x as int);


/// sum of 2^(w-1) over the non-zero weights
pub open spec fn wsum(ws: Seq<u8>) -> int
    decreases ws.len(),
{
    if ws.len() == 0 { 0 } else { wsum(ws.drop_last()) + (if ws.last() > 0 { p2(ws.last() - 1) } else { 0 }) }
}
pub proof fn lemma_wsum_bound(ws: Seq<u8>)
    requires forall|i: int| 0 <= i < ws.len() ==> #[trigger] ws[i] <= 11,
    ensures 0 <= wsum(ws) <= 1024 * ws.len(),
    decreases ws.len(),
{
    if ws.len() > 0 {
        lemma_wsum_bound(ws.drop_last());
        if ws.last() > 0 { lemma_p2_mono(ws.last() - 1, 10); lemma_p2_pos(ws.last() - 1); assert(p2(10) == 1024) by (compute); }
    }
}

pub proof fn lemma_wsum_term(ws: Seq<u8>, i: int)
    requires 0 <= i < ws.len(), ws[i] > 0,
    ensures p2(ws[i] - 1) <= wsum(ws),
    decreases ws.len(),
{
    lemma_wsum_nonneg(ws.drop_last());
    if i == ws.len() - 1 {
    } else {
        lemma_wsum_term(ws.drop_last(), i);
        if ws.last() > 0 { lemma_p2_pos(ws.last() - 1); }
    }
}
pub proof fn lemma_wsum_nonneg(ws: Seq<u8>)
    ensures wsum(ws) >= 0,
    decreases ws.len(),
{
    if ws.len() > 0 { lemma_wsum_nonneg(ws.drop_last()); if ws.last() > 0 { lemma_p2_pos(ws.last() - 1); } }
}
/// x == 2^k and 2^(r-1) <= x < 2^r  ==>  k == r - 1
pub proof fn lemma_pow2_hbs(x: int, k: int, r: int)
    requires k >= 0, r >= 1, x == p2(k), p2(r - 1) <= x, x < p2(r),
    ensures k == r - 1,
{
    if k < r - 1 { lemma_p2_strict(k, r - 1); }
    if k > r - 1 { lemma_p2_mono(r, k); }
}
/// what the bits loop computes for explicit symbol s
pub open spec fn bits_of(w: u8, mb: u8) -> int { if w > 0 { mb + 1 - w } else { 0 } }

/// number of entries equal to b
pub open spec fn count(s: Seq<u8>, b: int) -> int
    decreases s.len(),
{
    if s.len() == 0 { 0 } else { count(s.drop_last(), b) + (if s.last() as int == b { 1int } else { 0int }) }
}
pub proof fn lemma_count_bound(s: Seq<u8>, b: int)
    ensures 0 <= count(s, b) <= s.len(),
    decreases s.len(),
{
    if s.len() > 0 { lemma_count_bound(s.drop_last(), b); }
}
/// a prefix that is followed by an element equal to b has strictly fewer b's than the whole
pub proof fn lemma_count_prefix(s: Seq<u8>, k: int, b: int)
    requires 0 <= k < s.len(), s[k] as int == b,
    ensures count(s.subrange(0, k), b) + 1 <= count(s, b),
    decreases s.len(),
{
    if k == s.len() - 1 {
        assert(s.subrange(0, k) =~= s.drop_last());
    } else {
        lemma_count_prefix(s.drop_last(), k, b);
        assert(s.drop_last().subrange(0, k) =~= s.subrange(0, k));
    }
}
/// Kraft sum of a bit-length vector: sum of 2^(mb - bits) over the symbols that have a code
pub open spec fn kraft(s: Seq<u8>, mb: int) -> int
    decreases s.len(),
{
    if s.len() == 0 { 0 } else { kraft(s.drop_last(), mb) + (if s.last() > 0 { p2(mb - s.last()) } else { 0 }) }
}
/// the same sum grouped by bit length: sum over b in (lo, mb] of count(s, b) * 2^(mb - b)
pub open spec fn rsc(s: Seq<u8>, mb: int, lo: int) -> int
    decreases mb - lo,
{
    if lo >= mb { 0 } else { count(s, lo + 1) * p2(mb - lo - 1) + rsc(s, mb, lo + 1) }
}
pub proof fn lemma_rsc_push(s: Seq<u8>, x: u8, mb: int, lo: int)
    requires 0 <= lo <= mb,
    ensures rsc(s.push(x), mb, lo) == rsc(s, mb, lo) + (if lo < x && x <= mb { p2(mb - x) } else { 0 }),
    decreases mb - lo,
{
    if lo < mb {
        lemma_rsc_push(s, x, mb, lo + 1);
        assert(s.push(x).drop_last() =~= s);
        let c = count(s, lo + 1);
        let p = p2(mb - lo - 1);
        if x as int == lo + 1 {
            assert((c + 1) * p == c * p + p) by (nonlinear_arith);
        }
    }
}
pub proof fn lemma_kraft_is_rsc(s: Seq<u8>, mb: int)
    requires mb >= 0, forall|i: int| 0 <= i < s.len() ==> #[trigger] s[i] <= mb,
    ensures kraft(s, mb) == rsc(s, mb, 0),
    decreases s.len(),
{
    if s.len() == 0 {
        lemma_rsc_empty(mb, 0);
        assert(s =~= Seq::<u8>::empty());
    } else {
        assert forall|i: int| 0 <= i < s.drop_last().len() implies #[trigger] s.drop_last()[i] <= mb by { assert(s[i] <= mb); }
        assert(s[s.len() - 1] <= mb);
        lemma_kraft_is_rsc(s.drop_last(), mb);
        lemma_rsc_push(s.drop_last(), s.last(), mb, 0);
        assert(s.drop_last().push(s.last()) =~= s);
    }
}
pub proof fn lemma_rsc_empty(mb: int, lo: int)
    requires 0 <= lo <= mb,
    ensures rsc(Seq::<u8>::empty(), mb, lo) == 0,
    decreases mb - lo,
{
    if lo < mb { lemma_rsc_empty(mb, lo + 1); }
}
pub proof fn lemma_rsc_mono(s: Seq<u8>, mb: int, lo: int)
    requires 0 <= lo <= mb,
    ensures rsc(s, mb, lo) >= 0, lo < mb ==> rsc(s, mb, lo) >= rsc(s, mb, lo + 1),
    decreases mb - lo,
{
    if lo < mb {
        lemma_rsc_mono(s, mb, lo + 1);
        lemma_count_bound(s, lo + 1);
        lemma_p2_pos(mb - lo - 1);
        assert(count(s, lo + 1) * p2(mb - lo - 1) >= 0) by (nonlinear_arith) requires count(s, lo + 1) >= 0, p2(mb - lo - 1) >= 1;
    }
}

/// the bit-length vector the code computes has Kraft sum == sum of the explicit weights (prefix form)
pub proof fn lemma_kraft_wsum(ws: Seq<u8>, bs: Seq<u8>, mb: u8, k: int)
    requires
        0 <= k <= ws.len(), bs.len() >= ws.len(),
        forall|i: int| 0 <= i < ws.len() ==> #[trigger] bs[i] as int == bits_of(ws[i], mb),
        forall|i: int| 0 <= i < ws.len() ==> (#[trigger] ws[i] > 0 ==> ws[i] <= mb),
    ensures kraft(bs.subrange(0, k), mb as int) == wsum(ws.subrange(0, k)),
    decreases k,
{
    if k > 0 {
        lemma_kraft_wsum(ws, bs, mb, k - 1);
        assert(bs.subrange(0, k).drop_last() =~= bs.subrange(0, k - 1));
        assert(ws.subrange(0, k).drop_last() =~= ws.subrange(0, k - 1));
    }
}
pub proof fn lemma_rsc_antitone(s: Seq<u8>, mb: int, lo1: int, lo2: int)
    requires 0 <= lo1 <= lo2 <= mb,
    ensures rsc(s, mb, lo2) <= rsc(s, mb, lo1),
    decreases lo2 - lo1,
{
    if lo1 < lo2 { lemma_rsc_antitone(s, mb, lo1, lo2 - 1); lemma_rsc_mono(s, mb, lo2 - 1); }
}
pub proof fn lemma_count_sub_le(s: Seq<u8>, k: int, b: int)
    requires 0 <= k <= s.len(),
    ensures 0 <= count(s.subrange(0, k), b) <= count(s, b),
    decreases s.len() - k,
{
    lemma_count_bound(s.subrange(0, k), b);
    if k == s.len() {
        assert(s.subrange(0, k) =~= s);
    } else {
        lemma_count_sub_le(s, k + 1, b);
        assert(s.subrange(0, k + 1).drop_last() =~= s.subrange(0, k));
    }
}
pub proof fn lemma_rsc_le_total(s: Seq<u8>, mb: int, lo: int)
    requires 0 <= lo <= mb,
    ensures rsc(s, mb, lo) <= rsc(s, mb, 0),
    decreases lo,
{
    if lo > 0 { lemma_rsc_le_total(s, mb, lo - 1); lemma_rsc_mono(s, mb, lo - 1); }
}
/// every cell index below the total lies in exactly one rank region [rsc(b), rsc(b-1))
pub proof fn lemma_partition(s: Seq<u8>, mb: int, i: int, hi: int) -> (b: int)
    requires 0 <= hi <= mb, rsc(s, mb, hi) <= i < rsc(s, mb, 0),
    ensures 1 <= b <= hi + 0 || 1 <= b <= mb, 1 <= b <= mb, rsc(s, mb, b) <= i < rsc(s, mb, b - 1),
    decreases hi,
{
    if hi == 0 {
        arbitrary()
    } else if i < rsc(s, mb, hi - 1) {
        hi
    } else {
        lemma_partition(s, mb, i, hi - 1)
    }
}

impl HuffmanTable {
    pub open spec fn huff_wf(&self) -> bool {
        self.max_num_bits != 0 ==> (
            self.max_num_bits <= 11
            && self.decode@.len() == p2(self.max_num_bits as int)
            && forall|i: int| 0 <= i < self.decode@.len() ==> 1 <= (#[trigger] self.decode@[i]).num_bits <= self.max_num_bits)
    }
    pub fn build_table_from_weights(&mut self) -> (r: Result<(), HuffmanTableError>)
        requires old(self).weights@.len() <= 1000,
        ensures
            final(self).weights == old(self).weights,
            r is Ok ==> final(self).huff_wf() && final(self).max_num_bits >= 1,
            // rejection clauses (RFC 4.2.1 / the decoder's depth limit)
            (exists|i: int| 0 <= i < old(self).weights@.len() && old(self).weights@[i] > 11) ==> r is Err,
            r is Ok ==> wsum(old(self).weights@) >= 1 && wsum(old(self).weights@) < p2(11),
{
        use HuffmanTableError as err;

        self.bits.clear();
        self.bits.resize(self.weights.len() + 1, 0);

        let mut weight_sum: u32 = 0;
        for w in it: &self.weights 
            invariant
                self.weights == old(self).weights, it.index@ <= self.weights@.len(), self.weights@.len() <= 1000,
                forall|i: int| 0 <= i < it.index@ ==> #[trigger] self.weights@[i] <= 11,
                weight_sum == wsum(self.weights@.subrange(0, it.index@)),
                self.bits@.len() == self.weights@.len() + 1,
{
            if *w > MAX_MAX_NUM_BITS {
                return Err(err::WeightBiggerThanMaxNumBits { got: *w });
            }
            proof {
                let k = it.index@;
                assert(self.weights@.subrange(0, k + 1).drop_last() =~= self.weights@.subrange(0, k));
                lemma_wsum_bound(self.weights@.subrange(0, k));
                assert forall|i: int| 0 <= i < self.weights@.subrange(0, k).len() implies #[trigger] self.weights@.subrange(0, k)[i] <= 11 by {}
                assert(k <= 1000);
                assert(0 <= weight_sum <= 1024 * k);
                if *w > 0 {
                    let e: u8 = (*w - 1) as u8;
                    lemma_shl_u32_u8(e); lemma_p2_mono(e as int, 10); assert(p2(10) == 1024) by (compute);
                    assert((1_u32 << e) <= 1024);
                }
            }
            weight_sum += if *w > 0 { 1_u32 << (*w - 1) } else { 0 };
        }

        if weight_sum == 0 {
            return Err(err::MissingWeights);
        }

        let max_bits = highest_bit_set(weight_sum) as u8;
        proof {
            assert(self.weights@.subrange(0, self.weights@.len() as int) =~= self.weights@);
            assert(weight_sum == wsum(old(self).weights@));
            lemma_wsum_bound(self.weights@);
            assert(p2(20) == 1048576) by (compute);
            if max_bits > 20 { lemma_p2_mono(20, max_bits - 1); }
            lemma_shl_u32_u8(max_bits);
        }
        let left_over = (1 << max_bits) - weight_sum;

        //left_over must be power of two
        if !left_over.is_power_of_two() {
            return Err(err::LeftoverIsNotAPowerOf2 { got: left_over });
        }

        let last_weight = highest_bit_set(left_over) as u8;
        proof {
            let k = choose|k: int| 0 <= k && left_over == p2(k);
            lemma_pow2_hbs(left_over as int, k, last_weight as int);
            // hence 2^(last_weight - 1) == left_over, and last_weight <= max_bits because left_over <= 2^(max_bits - 1)
            assert(p2(last_weight - 1) == left_over);
            assert(p2(max_bits as int) == 2 * p2(max_bits - 1));
            if last_weight > max_bits { lemma_p2_strict(max_bits - 1, last_weight - 1); }
            assert(1 <= last_weight <= max_bits);
        }

        for symbol in 0..self.weights.len() 
            invariant
                self.weights == old(self).weights, self.weights@.len() <= 1000,
                self.bits@.len() == self.weights@.len() + 1,
                1 <= max_bits <= 20,
                forall|i: int| 0 <= i < self.weights@.len() ==> #[trigger] self.weights@[i] <= 11,
                wsum(self.weights@) < p2(max_bits as int),
                forall|i: int| 0 <= i < symbol ==> #[trigger] self.bits@[i] as int == bits_of(self.weights@[i], max_bits),
{
            proof {
                let w = self.weights@[symbol as int];
                if w > 0 {
                    lemma_wsum_term(self.weights@, symbol as int);
                    if w > max_bits { lemma_p2_mono(max_bits as int, w - 1); }
                }
            }
            let bits = if self.weights[symbol] > 0 {
                max_bits + 1 - self.weights[symbol]
            } else {
                0
            };
            self.bits[symbol] = bits;
        }

        self.bits[self.weights.len()] = max_bits + 1 - last_weight;
        let ghost bseq = self.bits@;
        proof {
            let n = self.weights@.len() as int;
            assert forall|i: int| 0 <= i < n implies (#[trigger] self.weights@[i] > 0 ==> self.weights@[i] <= max_bits) by {
                if self.weights@[i] > 0 {
                    lemma_wsum_term(self.weights@, i);
                    if self.weights@[i] > max_bits { lemma_p2_mono(max_bits as int, self.weights@[i] - 1); }
                }
            }
            lemma_kraft_wsum(self.weights@, bseq, max_bits, n);
            assert(self.weights@.subrange(0, n) =~= self.weights@);
            assert(bseq.drop_last() =~= bseq.subrange(0, n));
            assert(kraft(bseq, max_bits as int) == p2(max_bits as int));
            assert forall|i: int| 0 <= i < bseq.len() implies #[trigger] bseq[i] <= max_bits by {}
            lemma_kraft_is_rsc(bseq, max_bits as int);
        }
        self.max_num_bits = max_bits;

        if max_bits > MAX_MAX_NUM_BITS {
            return Err(err::MaxBitsTooHigh { got: max_bits });
        }

        self.bit_ranks.clear();
        self.bit_ranks.resize((max_bits + 1) as usize, 0);
        for num_bits in it2: &self.bits 
            invariant
                self.bits@ == bseq, bseq.len() <= 1001, it2.index@ <= bseq.len(),
                self.bit_ranks@.len() == max_bits + 1, 1 <= max_bits <= 11, self.max_num_bits == max_bits,
                self.weights == old(self).weights,
                forall|i: int| 0 <= i < bseq.len() ==> #[trigger] bseq[i] <= max_bits,
                forall|b: int| 0 <= b <= max_bits ==> #[trigger] self.bit_ranks@[b] as int == count(bseq.subrange(0, it2.index@ as int), b),
{
            proof {
                let k = it2.index@ as int;
                assert(bseq.subrange(0, k + 1).drop_last() =~= bseq.subrange(0, k));
                lemma_count_bound(bseq.subrange(0, k), *num_bits as int);
            }
            self.bit_ranks[(*num_bits) as usize] += 1;
        }

        //fill with dummy symbols
        proof {
            lemma_shl_usize(max_bits);
            assert(bseq.subrange(0, bseq.len() as int) =~= bseq);
        }
        self.decode.resize(
            1 << self.max_num_bits,
            Entry {
                symbol: 0,
                num_bits: 0,
            },
        );

        //starting codes for each rank
        self.rank_indexes.clear();
        self.rank_indexes.resize((max_bits + 1) as usize, 0);

        self.rank_indexes[max_bits as usize] = 0;
        let mut verif_rev: u8 = self.rank_indexes.len() as u8; while verif_rev > 1 
            invariant
                self.bits@ == bseq, bseq.len() <= 1001, 1 <= max_bits <= 11, self.max_num_bits == max_bits,
                self.weights == old(self).weights,
                self.rank_indexes@.len() == max_bits + 1, self.bit_ranks@.len() == max_bits + 1,
                self.decode@.len() == p2(max_bits as int),
                1 <= verif_rev <= max_bits + 1,
                forall|b: int| 0 <= b <= max_bits ==> #[trigger] self.bit_ranks@[b] as int == count(bseq, b),
                forall|b: int| verif_rev - 1 <= b <= max_bits ==> #[trigger] self.rank_indexes@[b] as int == rsc(bseq, max_bits as int, b),
                rsc(bseq, max_bits as int, 0) == p2(max_bits as int),
            decreases verif_rev,
{ verif_rev -= 1; let bits = verif_rev;
            proof {
                lemma_shl_usize((max_bits - bits) as u8);
                lemma_count_bound(bseq, bits as int);
                lemma_p2_mono(max_bits - bits, 11);
                lemma_p2_pos(max_bits - bits);
                assert(p2(11) == 2048) by (compute);
                let c = count(bseq, bits as int);
                let q = p2(max_bits - bits);
                assert(0 <= c * q <= 1001 * 2048) by (nonlinear_arith) requires 0 <= c <= 1001, 1 <= q <= 2048;
                lemma_rsc_mono(bseq, max_bits as int, bits as int);
                lemma_rsc_le_total(bseq, max_bits as int, bits as int);
                lemma_p2_mono(max_bits as int, 11);
                assert(self.rank_indexes@[bits as int] <= 2048);
            }
            self.rank_indexes[bits as usize - 1] = self.rank_indexes[bits as usize]
                + self.bit_ranks[bits as usize] as usize * (1 << (max_bits - bits));
        }

        let verif_assert_cond_1: bool = self.rank_indexes[0] == self.decode.len(); assert(verif_assert_cond_1);

        for symbol in 0..self.bits.len() 
            invariant
                self.bits@ == bseq, bseq.len() <= 1001, 1 <= max_bits <= 11, self.max_num_bits == max_bits,
                self.weights == old(self).weights,
                self.rank_indexes@.len() == max_bits + 1,
                self.decode@.len() == p2(max_bits as int),
                rsc(bseq, max_bits as int, 0) == p2(max_bits as int),
                forall|i: int| 0 <= i < bseq.len() ==> #[trigger] bseq[i] <= max_bits,
                forall|b: int| 1 <= b <= max_bits ==> #[trigger] self.rank_indexes@[b] as int
                    == rsc(bseq, max_bits as int, b) + count(bseq.subrange(0, symbol as int), b) * p2(max_bits - b),
                forall|b: int, i: int| #![trigger self.rank_indexes@[b], self.decode@[i]]
                    1 <= b <= max_bits && rsc(bseq, max_bits as int, b) <= i < self.rank_indexes@[b] ==> self.decode@[i].num_bits == b,
{
            proof {
                let k = symbol as int;
                assert(bseq.subrange(0, k + 1).drop_last() =~= bseq.subrange(0, k));
                assert forall|b: int| 1 <= b <= max_bits implies
                    count(bseq.subrange(0, k + 1), b) == count(bseq.subrange(0, k), b) + (if bseq[k] as int == b { 1int } else { 0int }) by {}
            }
            let bits_for_symbol = self.bits[symbol];
            if bits_for_symbol != 0 {
                // allocate code for the symbol and set in the table
                // a code ignores all max_bits - bits[symbol] bits, so it gets
                // a range that spans all of those in the decoding table
                let ghost ri0 = self.rank_indexes@;
                let ghost dec0 = self.decode@;
                proof {
                    let b = bits_for_symbol as int;
                    let mbi = max_bits as int;
                    lemma_shl_usize((max_bits - bits_for_symbol) as u8);
                    lemma_p2_pos(mbi - b);
                    lemma_count_prefix(bseq, symbol as int, b);
                    lemma_count_bound(bseq.subrange(0, symbol as int), b);
                    let cnt = count(bseq.subrange(0, symbol as int), b);
                    let tot = count(bseq, b);
                    let q = p2(mbi - b);
                    assert((cnt + 1) * q <= tot * q) by (nonlinear_arith) requires cnt + 1 <= tot, q >= 1;
                    assert((cnt + 1) * q == cnt * q + q) by (nonlinear_arith);
                    lemma_rsc_le_total(bseq, mbi, b - 1);
                    // base_idx + len <= rsc(b - 1) <= rsc(0) == decode.len()
                    assert(ri0[b] + q <= rsc(bseq, mbi, b - 1));
                    lemma_p2_mono(mbi, 11);
                    assert(p2(11) == 2048) by (compute);
                    assert(ri0[b] + q <= 2048);
                }
                let base_idx = self.rank_indexes[bits_for_symbol as usize];
                let len = 1 << (max_bits - bits_for_symbol);
                self.rank_indexes[bits_for_symbol as usize] += len;
                proof {
                    assert(len == p2(max_bits - bits_for_symbol));
                    assert(base_idx == ri0[bits_for_symbol as int]);
                    assert(base_idx + len <= self.decode@.len());
                    assert(self.decode@.len() <= 2048);
                    assert(self.rank_indexes@ =~= ri0.update(bits_for_symbol as int, (base_idx + len) as usize));
                }
                for idx in 0..len 
                    invariant
                        self.bits@ == bseq, self.rank_indexes@ == ri0.update(bits_for_symbol as int, (base_idx + len) as usize), self.weights == old(self).weights,
                        self.max_num_bits == max_bits,
                        self.decode@.len() == dec0.len(), base_idx + len <= self.decode@.len(), idx <= len, self.decode@.len() <= 2048,
                        forall|i: int| base_idx <= i < base_idx + idx ==> (#[trigger] self.decode@[i]).num_bits == bits_for_symbol,
                        forall|i: int| 0 <= i < dec0.len() && !(base_idx <= i < base_idx + idx) ==> #[trigger] self.decode@[i] == dec0[i],
{
                    self.decode[base_idx + idx].symbol = symbol as u8;
                    self.decode[base_idx + idx].num_bits = bits_for_symbol;
                }
                proof {
                    // re-establish the outer invariant for symbol + 1
                    let k = symbol as int;
                    let mbi = max_bits as int;
                    let bsym = bits_for_symbol as int;
                    assert(bseq.subrange(0, k + 1).drop_last() =~= bseq.subrange(0, k));
                    assert forall|b: int| 1 <= b <= max_bits implies #[trigger] self.rank_indexes@[b] as int
                            == rsc(bseq, mbi, b) + count(bseq.subrange(0, k + 1), b) * p2(mbi - b) by {
                        if b == bsym {
                            let cnt = count(bseq.subrange(0, k), b);
                            let q = p2(mbi - b);
                            assert((cnt + 1) * q == cnt * q + q) by (nonlinear_arith);
                        }
                    }
                    assert forall|b: int, i: int| #![trigger self.rank_indexes@[b], self.decode@[i]]
                            1 <= b <= max_bits && rsc(bseq, mbi, b) <= i < self.rank_indexes@[b] implies self.decode@[i].num_bits == b by {
                        // regions of different bit lengths are disjoint: [rsc(b), rsc(b-1)) ; the cells just written lie in bsym's region
                        lemma_count_sub_le(bseq, k, b);
                        lemma_p2_pos(mbi - b);
                        let cntb = count(bseq.subrange(0, k), b);
                        let totb = count(bseq, b);
                        let qb = p2(mbi - b);
                        assert(cntb * qb <= totb * qb) by (nonlinear_arith) requires 0 <= cntb <= totb, qb >= 1;
                        let base = ri0[bsym] as int;
                        lemma_rsc_le_total(bseq, mbi, b - 1);
                        lemma_rsc_mono(bseq, mbi, b);
                        assert(dec0.len() == p2(mbi));
                        assert(rsc(bseq, mbi, b - 1) == rsc(bseq, mbi, b) + totb * qb);
                        if b == bsym { assert(self.rank_indexes@[b] as int == base + len); assert(base + len <= dec0.len()); } else { assert(ri0[b] <= rsc(bseq, mbi, b - 1)); }
                        assert(0 <= i < dec0.len());
                        if b != bsym {
                            if b > bsym { lemma_rsc_antitone(bseq, mbi, bsym, b - 1); } else { lemma_rsc_antitone(bseq, mbi, b, bsym - 1); }
                            assert(ri0[b] <= rsc(bseq, mbi, b - 1));
                            assert(self.rank_indexes@[b] == ri0[b]);
                            assert(!(base <= i < base + len));
                            assert(self.decode@[i] == dec0[i]);
                            assert(dec0[i].num_bits == b);
                        } else {
                            if i < base {
                                assert(self.decode@[i] == dec0[i]);
                                assert(dec0[i].num_bits == b);
                            }
                        }
                    }
                }
            }
        }

        proof {
            let mbi = max_bits as int;
            lemma_p2_mono(mbi, 11);
            assert(bseq.subrange(0, bseq.len() as int) =~= bseq);
            assert forall|i: int| 0 <= i < self.decode@.len() implies 1 <= (#[trigger] self.decode@[i]).num_bits <= self.max_num_bits by {
                let b = lemma_partition(bseq, mbi, i, mbi);
                assert(self.rank_indexes@[b] as int == rsc(bseq, mbi, b - 1));
            }
        }
        Ok(())
    }
}

pub proof fn verif_canary_must_fail(x: int)
    requires x > 0,
    ensures x > 1,
{
}
} // verus!
fn main() {}
