// Demonstrations for findings F4 and F8: a well-behaved matcher (every reported match is true and in-window, the
// sequences tile the block) makes the compressor panic.
use ruzstd::encoding::{CompressionLevel, FrameCompressor, Matcher, Sequence};

/// keeps all committed blocks; parse per block is supplied by `plan`
struct Scripted { blocks: Vec<Vec<u8>>, size: usize, mode: u8 }
impl Matcher for Scripted {
    fn get_next_space(&mut self) -> Vec<u8> { vec![0; self.size] }
    fn get_last_space(&mut self) -> &[u8] { self.blocks.last().unwrap() }
    fn commit_space(&mut self, space: Vec<u8>) { self.blocks.push(space); }
    fn skip_matching(&mut self) {}
    fn reset(&mut self, _l: CompressionLevel) { self.blocks.clear(); }
    fn window_size(&self) -> u64 { 1 << 20 }
    fn start_matching(&mut self, mut h: impl for<'a> FnMut(Sequence<'a>)) {
        let n = self.blocks.len();
        let cur = &self.blocks[n - 1];
        if n == 1 {
            h(Sequence::Literals { literals: cur });
            return;
        }
        match self.mode {
            // F8: block 2 = 'a' * 1100 followed by 5 bytes that also start block 1 (true match, offset = size + 1100 - 0 ... computed below)
            8 => {
                let lits = &cur[..1100];
                let offset = self.size + 1100; // distance from position 1100 of block 2 back to position 0 of block 1
                h(Sequence::Triple { literals: lits, offset, match_len: cur.len() - 1100 });
            }
            // F4: block 2 is a copy of block 1: report it as matches of length 3 with no literals (all ll codes 0, all ml codes 0)
            _ => {
                let mut pos = 0;
                while pos + 3 <= cur.len() {
                    h(Sequence::Triple { literals: &cur[pos..pos], offset: self.size, match_len: 3 });
                    pos += 3;
                }
                if pos < cur.len() { h(Sequence::Literals { literals: &cur[pos..] }); }
            }
        }
    }
}

fn run(mode: u8) {
    let size = 1200usize;
    let mut data = Vec::new();
    // block 1: mixed bytes
    for i in 0..size { data.push((i * 7 % 251) as u8); }
    if mode == 8 {
        let mut b2 = vec![b'a'; 1100];
        b2.extend_from_slice(&data[..100]); // 100 bytes equal to the start of block 1
        data.extend_from_slice(&b2);
    } else {
        let b1 = data.clone();
        data.extend_from_slice(&b1);
    }
    let mut out = Vec::new();
    let mut comp = FrameCompressor::new_with_matcher(Scripted { blocks: vec![], size, mode }, CompressionLevel::Fastest);
    comp.set_source(data.as_slice());
    comp.set_drain(&mut out);
    comp.compress();
    let mut dec = ruzstd::decoding::FrameDecoder::new();
    let mut res = Vec::with_capacity(data.len() + 10);
    dec.decode_all_to_vec(&out, &mut res).expect("decodes");
    assert_eq!(res, data, "round trip");
    println!("mode {} ok: {} -> {} bytes", mode, data.len(), out.len());
}
fn main() {
    let mode: u8 = std::env::args().nth(1).unwrap().parse().unwrap();
    run(mode);
}
