use ruzstd::encoding::{CompressionLevel, FrameCompressor, Matcher, Sequence};
struct NoMatch { last: Vec<u8>, size: usize }
impl Matcher for NoMatch {
    fn get_next_space(&mut self) -> Vec<u8> { vec![0; self.size] }
    fn get_last_space(&mut self) -> &[u8] { &self.last }
    fn commit_space(&mut self, space: Vec<u8>) { self.last = space; }
    fn skip_matching(&mut self) {}
    fn start_matching(&mut self, mut h: impl for<'a> FnMut(Sequence<'a>)) { h(Sequence::Literals { literals: &self.last }); }
    fn reset(&mut self, _l: CompressionLevel) {}
    fn window_size(&self) -> u64 { 1 << 17 }
}
fn lcg(s: &mut u64) -> u64 { *s = s.wrapping_mul(6364136223846793005).wrapping_add(1442695040888963407); *s >> 33 }
fn main() {
    let size = 2048usize;
    let mut found = 0;
    for seed in 0..200000u64 {
        let mut s = seed * 7919 + 1;
        // block A: skewed (compressible); block B: nearly incompressible with k rare symbols removed; block C: like B
        let mut data = Vec::new();
        for i in 0..size { data.push(if i % 3 == 0 { (lcg(&mut s) % 200) as u8 } else { (lcg(&mut s) % 16) as u8 }); }
        let drop = (lcg(&mut s) % 40) as u64 + 1;
        let mut b = Vec::new();
        for _ in 0..size { b.push((lcg(&mut s) % (256 - drop)) as u8); }
        // make a few symbols more frequent to tune the size
        let tune = (lcg(&mut s) % 300) as usize;
        for i in 0..tune { b[i * 5 % size] = 7; }
        data.extend_from_slice(&b);
        let mut c = b.clone();
        c.rotate_left(13);
        data.extend_from_slice(&c);
        let mut out = Vec::new();
        let mut comp = FrameCompressor::new_with_matcher(NoMatch { last: vec![], size }, CompressionLevel::Fastest);
        comp.set_source(data.as_slice());
        comp.set_drain(&mut out);
        comp.compress();
        let mut dec = ruzstd::decoding::FrameDecoder::new();
        let mut res = Vec::with_capacity(data.len() + 10);
        let r = dec.decode_all_to_vec(&out, &mut res);
        if r.is_err() || res != data {
            println!("seed {} FAIL: {:?} equal={}", seed, r.as_ref().err().map(|e| format!("{e}")), res == data);
            found += 1;
            if found >= 2 { break; }
        }
    }
    println!("done found={}", found);
}
